"""C19 - server session bookkeeping behaves like a map from unique ids to records.

Engine: E-STATE.  Explicit-state breadth-first search over operation histories.
Every transition is ONE fresh execution on the real code: a new
``ProtocolHandler`` (owning a new ``SessionManager``) is built, the whole
history + one more operation is applied through the public methods /
``handle_message`` while a reference dict model is stepped in lock-step; every
return value and, after every step, the whole public view (``list_sessions``,
``get_session`` for every id ever issued plus a never-issued one,
``get_session_count``) is compared with the model.  The state reached is
canonicalised (issue index instead of the opaque id, ages instead of absolute
times) and hashed; only the first history that reaches a state is extended.

Seams: ``chuk_mcp.server.session.memory.time`` is replaced by a stub clock;
``uuid.uuid4`` by a deterministic stub whose values share their first and last
hex digits (distinct only in the middle), so a truncated or constant id collides.

One explorer-style cfg = one frontier history; ``run_one`` executes the history
itself and every enabled extension of it.
"""
from __future__ import annotations

import copy
import hashlib
import json
import multiprocessing as mp
import time as _time
import traceback
import uuid as _uuid
from typing import Any, Dict, List, Optional, Tuple

from .. import core, explorer, sched
from ..jsonrpc_ref import classify, strict_eq
from ..vloop import new_loop

RUN = "vf.checks.c19:run_one"

T0 = 1_000_000.25      # fractional start: with half-second steps 'now' is never a whole number of seconds
MAX_IDS = 3
MAX_IDS_B = 1     # ids issued on the second handler per history
B_CLIENT = {"name": "client-on-handler-B", "version": "9"}
B_VERSION = "2024-11-05"
NEVER = "never-issued-session-id"
CLIENTS = [
    {"name": "client-a", "version": "1"},
    {"name": "client-b", "version": "2", "extra": {"k": [1, None]}},
    {"name": "client-c"},
]


def fresh_client(c: int) -> Dict[str, Any]:
    """A new object equal to CLIENTS[c] (the real code gets its own copy; the model keeps the constant)."""
    if c == 0:
        return {"name": "client-a", "version": "1"}
    if c == 1:
        return {"name": "client-b", "version": "2", "extra": {"k": [1, None]}}
    return {"name": "client-c"}


CREATE_VERSIONS = ["2025-06-18", "2025-03-26", "2024-11-05"]
# initialize variants: (client, requested version or None = member absent)
INIT_VARIANTS = [(0, "2025-03-26"), (1, "1999-01-01"), (2, None)]
# clock steps: binary-exact fractions, so float sums are exact.  9.5 / 3599.5 / 0.5 reach, for max_age 10 and 3600,
# idle = max_age - 0.5 (one step), == max_age (two steps) and max_age + 0.5 (three steps); for max_age 0: idle 0 and 0.5
ADVANCES = [0.5, 9.5, 3599.5]
INITSID_TARGETS = (-1, 0, 1)   # initialize carrying the id of session #k (or a never-issued id); #2 cannot precede a 4th id
MAX_AGES = [0, 10, "default"]       # "default" = cleanup_expired() without argument (documented 3600)
LISTMUT = ["add", "del", "clear"]


def _ops_table() -> List[List[Any]]:
    t: List[List[Any]] = []
    t += [["create", c] for c in range(3)]
    t += [["init", c] for c in range(3)]
    for k in (-1, 0, 1, 2):
        t += [["get", k], ["touch", k], ["delete", k], ["ping", k]]
    t += [["cleanup", a] for a in MAX_AGES]
    t += [["listmut", m] for m in LISTMUT]
    t += [["clear"]]
    t += [["adv", d] for d in ADVANCES]
    # appended last so that the codes of the older operations (replay files) stay valid
    t += [["initsid", k, v] for k in INITSID_TARGETS for v in range(3)]
    # a SECOND ProtocolHandler (B) alive next to the first: its store must be its own
    t += [["b-create"], ["b-init"], ["b-delete", 0], ["b-clear"]]
    # the application replaces the handler's store by a fresh one (once per history)
    t += [["replace-store"]]
    # the environment re-seeds / restores the process-wide ``random`` state right before an id is issued
    t += [["rng-create", "seed"], ["rng-create", "setstate"], ["rng-init", "seed"], ["rng-init", "setstate"]]
    # the clock steps BACKWARDS (NTP correction, VM restore), and the application ages / rejuvenates a record through the
    # public record object it looked up (rec = get_session(id); rec.last_activity = t)
    t += [["adv", -5], ["adv", -100]]
    t += [["age", 1, "older"], ["age", 0, "newer"]]
    return t


OPS = _ops_table()


def enabled(n_issued: int, n_issued_b: int = 0, replaced: bool = False, disturbed: bool = False) -> List[int]:
    out = []
    for code, op in enumerate(OPS):
        if (op[0] == "adv" and op[1] < 0) or op[0] == "age":
            # one disturbance of the time order (clock step back / assigned stamp) per history
            if not disturbed and (op[0] == "adv" or op[1] < n_issued):
                out.append(code)
            continue
        if op[0] == "replace-store":
            if not replaced:
                out.append(code)
            continue
        if op[0] in ("rng-create", "rng-init"):
            if n_issued < MAX_IDS:
                out.append(code)
            continue
        if op[0] in ("b-create", "b-init"):
            if n_issued_b < MAX_IDS_B:
                out.append(code)
        elif op[0] == "b-delete":
            if op[1] < n_issued_b:
                out.append(code)
        elif op[0] in ("create", "init"):
            if n_issued < MAX_IDS:
                out.append(code)
        elif op[0] == "initsid":
            if n_issued < MAX_IDS and op[1] < n_issued:
                out.append(code)
        elif op[0] in ("get", "touch", "delete", "ping"):
            if op[1] < n_issued:
                out.append(code)
        else:
            out.append(code)
    return out


def opname(op) -> str:
    if op[0] in ("get", "touch", "delete", "ping"):
        return op[0] + (":never-issued-id" if op[1] < 0 else ":issued-id")
    if op[0] in ("cleanup", "listmut"):
        return f"{op[0]}:{op[1]}"
    if op[0] == "initsid":
        return "initialize-with-session-id" + (":never-issued-id" if op[1] < 0 else ":issued-id")
    if op[0].startswith("b-"):
        return "handlerB:" + op[0][2:]
    if op[0] == "age":
        return f"assign-last_activity:{op[2]}"
    if op[0] == "adv":
        return "clock-steps-back" if op[1] < 0 else "adv"
    if op[0].startswith("rng-"):
        return f"random.{op[1]}-then-{'create_session' if op[0] == 'rng-create' else 'initialize'}"
    return op[0]


# ---------------------------------------------------------------------------
# seams
# ---------------------------------------------------------------------------
class Clock:
    def __init__(self):
        self.now = T0
        self.calls = 0

    def time(self):
        self.calls += 1
        return self.now


class IdStub:
    """uuid.uuid4 replacement: values differ only in three middle hex digits."""

    def __init__(self):
        self.n = 0

    def __call__(self):
        self.n += 1
        # (24 bits of counter in the middle: first 13 and last 12 hex digits are the same for every value)
        return _uuid.UUID("c0ffee00" "0000" "4" + "%03x" % ((self.n >> 12) & 0xFFF) + "8" + "%03x" % (self.n & 0xFFF) + "deadbeefcafe")


class Seams:
    def __enter__(self):
        import chuk_mcp.server.session.memory as mem

        self.mem = mem
        self.orig_time = mem.time
        self.orig_uuid = _uuid.uuid4
        self.clock = Clock()
        self.ids = IdStub()
        mem.time = self.clock
        # ... and the wall clock itself, for any other module of the library that reads it (owned: no real time in observations)
        self.orig_time_time = _time.time
        _time.time = self.clock.time
        _uuid.uuid4 = self.ids
        import random as _random

        self.random = _random
        self.orig_random_state = _random.getstate()
        self.saved_random_state = None
        return self

    def reset(self):
        self.clock.now = T0
        self.clock.calls = 0
        self.ids.n = 0
        # the process-wide generator starts every execution in the same (owned) state; an application may later put it
        # back into this state (setstate) or re-seed it
        self.random.seed(0xC19)
        self.saved_random_state = self.random.getstate()

    def __exit__(self, *a):
        self.mem.time = self.orig_time
        _time.time = self.orig_time_time
        _uuid.uuid4 = self.orig_uuid
        self.random.setstate(self.orig_random_state)
        return False


# ---------------------------------------------------------------------------
# reference model
# ---------------------------------------------------------------------------
class Model:
    def __init__(self):
        self.now = T0
        self.n = 0
        self.s: Dict[int, List[Any]] = {}   # issue index -> [client_info, version, created, last]
        self.nb = 0
        self.b: Dict[int, List[Any]] = {}   # the second handler's own map
        self.replaced = False               # the first handler's store was replaced by a fresh one
        self.disturbed = False              # the clock stepped back / a stamp was assigned by the application (once per history)

    def add(self, info, version):
        self.s[self.n] = [info, version, self.now, self.now]
        self.n += 1
        return self.n - 1

    def canon(self):
        return [self.n, [[i, r[0], r[1], self.now - r[2], self.now - r[3]] for i, r in sorted(self.s.items())],
                self.nb, [[i, r[0], r[1], self.now - r[2], self.now - r[3]] for i, r in sorted(self.b.items())], self.replaced, self.disturbed]


def _h(x) -> str:
    return hashlib.blake2b(json.dumps(x, sort_keys=True, default=repr).encode(), digest_size=8).hexdigest()


class Stop(Exception):
    """A violation was recorded; the rest of this history is not judged."""


# ---------------------------------------------------------------------------
# one execution: a whole history on fresh objects, model in lock-step
# ---------------------------------------------------------------------------
async def execute(codes: List[int], seams: Seams, factory, parse_message, count) -> Dict[str, Any]:
    # a throw-away handler that already holds a session when the real ones are built: handlers built afterwards
    # must start EMPTY whatever was done with other handlers before (in this execution or an earlier one)
    sentinel = factory()
    sentinel.session_manager.create_session({"name": "sentinel"}, "2025-06-18")
    seams.reset()
    clock = seams.clock
    handler = factory()
    sm = handler.session_manager
    handler_b = factory()
    smb = handler_b.session_manager
    model = Model()
    ids: List[str] = []
    ids_b: List[str] = []
    viol: List[dict] = []
    hist = [OPS[c] for c in codes]

    def bad(sig, msg):
        viol.append({"sig": sig, "msg": f"{msg}; history={json.dumps(hist)}"})
        raise Stop()

    def rec_dict(rec):
        return {"session_id": getattr(rec, "session_id", "<none>"), "client_info": getattr(rec, "client_info", "<none>"),
                "protocol_version": getattr(rec, "protocol_version", "<none>"),
                "created_at": getattr(rec, "created_at", "<none>"), "last_activity": getattr(rec, "last_activity", "<none>"),
                "metadata": getattr(rec, "metadata", "<none>")}

    def rec_matches(rec, idx) -> Optional[str]:
        info, ver, created, last = model.s[idx]
        if rec is None:
            return "missing"
        try:
            if rec.session_id != ids[idx]:
                return "session_id"
            ci = rec.client_info
            if ci != info or (ci is not info and not strict_eq(ci, info)):
                return "client_info"
            pv = rec.protocol_version
            if type(pv) is not type(ver) or pv != ver:
                return "protocol_version"
            if rec.created_at != created:
                return "created_at"
            if rec.last_activity != last:
                return "last_activity"
            if rec.metadata != {}:
                return "metadata"
        except AttributeError as e:
            return "attribute:" + str(e)[:40]
        return None

    def check_view(after: str, detail: Optional[str] = None):
        def sig(what):
            s = {"class": "view-mismatch", "after_op": after, "what": what}
            if detail:
                s["detail"] = detail
            return s

        n = sm.get_session_count()
        if n != len(model.s):
            bad(sig("count"), f"after {after}: get_session_count()={n}, model has {len(model.s)}")
        listing = sm.list_sessions()
        want = {ids[i] for i in model.s}
        if not isinstance(listing, dict) or set(listing) != want:
            got = sorted(ids.index(k) if k in ids else repr(k) for k in listing) if isinstance(listing, dict) else repr(listing)
            bad(sig("listed-ids"), f"after {after}: list_sessions() has sessions {got} (issue indices), "
                                   f"model has {sorted(model.s)}")
        for i in model.s:
            f = rec_matches(listing[ids[i]], i)
            if f:
                bad(sig("listed-record:" + f), f"after {after}: listed record of session #{i} is "
                                               f"{rec_dict(listing[ids[i]])}, model {model.s[i]} (now={model.now})")
        for i in range(len(ids)):
            got = sm.get_session(ids[i])
            if i in model.s:
                f = rec_matches(got, i)
                if f:
                    bad(sig("get-record:" + f), f"after {after}: get_session(#{i}) = "
                                                f"{rec_dict(got) if got is not None else None}, model {model.s[i]}")
            elif got is not None:
                bad(sig("get-finds-removed-session"), f"after {after}: get_session(#{i}) = {rec_dict(got)}, model: absent")
        if sm.get_session(NEVER) is not None:
            bad(sig("get-finds-never-issued-id"), f"after {after}: get_session of a never-issued id finds a session")

    def view_b_problem() -> Optional[str]:
        """The second handler's public view against its own model map."""
        try:
            if smb.get_session_count() != len(model.b):
                return f"count {smb.get_session_count()} != {len(model.b)}"
            listing = smb.list_sessions()
            if not isinstance(listing, dict) or set(listing) != {ids_b[i] for i in model.b}:
                return "listed ids differ"
            for i, (info, ver, created, last) in model.b.items():
                r = listing[ids_b[i]]
                if (r.session_id != ids_b[i] or r.client_info != info or r.protocol_version != ver
                        or r.created_at != created or r.last_activity != last or smb.get_session(ids_b[i]) is None):
                    return f"record of B#{i} differs"
            for i in range(len(ids_b)):
                if i not in model.b and smb.get_session(ids_b[i]) is not None:
                    return f"B#{i} found after removal"
            for sid in ids:
                if smb.get_session(sid) is not None:
                    return "handler B finds a session of handler A"
            for sid in ids_b:
                if sm.get_session(sid) is not None:
                    return "handler A finds a session of handler B"
        except Exception as e:  # noqa: BLE001
            return f"{type(e).__name__}: {e}"
        return None

    def check_both(after: str):
        check_view(after)
        p = view_b_problem()
        if p:
            bad({"class": "second-handler-view-mismatch", "after_op": after},
                f"after {after}: the second handler's store does not match its own model ({p}); "
                f"model B {model.b}, model A {sorted(model.s)}")

    def new_id(sid, how):
        if not isinstance(sid, str) or not sid:
            bad({"class": "bad-session-id", "op": how}, f"{how} returned session id {sid!r}")
        if sid in ids or sid == NEVER:
            bad({"class": "duplicate-session-id", "op": how},
                f"{how} issued id {sid!r} which equals the id of session #{ids.index(sid) if sid in ids else '?'} "
                f"(uuid4 values so far differ only in their middle digits)")
        ids.append(sid)

    def real_id(k):
        return NEVER if k < 0 else ids[k]

    try:
        for which, store in (("first", sm), ("second", smb)):
            listing0 = store.list_sessions()
            if store.get_session_count() != 0 or listing0 != {}:
                bad({"class": "fresh-store-not-empty", "handler": which},
                    f"a ProtocolHandler built just now already has sessions in its store (another handler object created "
                    f"a session before it was built): handlers share one store")
        if not hist or FULL_VIEW_EVERY_STEP:
            check_both("start")
        for step_no, op in enumerate(hist):
            name = opname(op)
            kind = op[0]
            count("steps")
            try:
                if kind in ("rng-create", "rng-init"):
                    if op[1] == "seed":
                        seams.random.seed(42)
                    else:
                        seams.random.setstate(seams.saved_random_state)
                    kind, op = ("create", ["create", 0]) if kind == "rng-create" else ("init", ["init", 0])
                if kind == "replace-store":
                    handler.session_manager = type(sm)()
                    sm = handler.session_manager
                    model.s.clear()
                    model.replaced = True
                elif kind == "create":
                    c = op[1]
                    sid = sm.create_session(fresh_client(c), CREATE_VERSIONS[c])
                    new_id(sid, "create_session")
                    model.add(CLIENTS[c], CREATE_VERSIONS[c])
                elif kind in ("init", "initsid"):
                    c, ver = INIT_VARIANTS[op[1] if kind == "init" else op[2]]
                    carried = None if kind == "init" else real_id(op[1])
                    params: Dict[str, Any] = {"capabilities": {}, "clientInfo": fresh_client(c)}
                    if ver is not None:
                        params["protocolVersion"] = ver
                    wire = {"jsonrpc": "2.0", "id": 11, "method": "initialize", "params": params}
                    ret = await handler.handle_message(parse_message(wire), carried)
                    if not (isinstance(ret, tuple) and len(ret) == 2 and ret[0] is not None):
                        bad({"class": "wrong-return", "op": name}, f"initialize returned {ret!r}")
                    if kind == "initsid" and op[1] in model.s:
                        # dispatch with a live session id may count as activity of THAT session (both accepted)
                        cur = sm.get_session(ids[op[1]])
                        if cur is not None and cur.last_activity != model.now and cur.created_at == model.s[op[1]][2]:
                            bad({"class": "dispatch-did-not-refresh-activity", "op": name,
                                 "store": "replaced-after-construction" if model.replaced else "original"},
                                f"an initialize carrying the id of live session #{op[1]} did not refresh that session's activity")
                        model.s[op[1]][3] = model.now
                    d = ret[0].model_dump(exclude_none=True)
                    rk, why = classify(d)
                    if rk not in ("result", "error") or not strict_eq(d.get("id"), 11):
                        bad({"class": "wrong-return", "op": name}, f"initialize answered {d!r} ({why})")
                    if rk == "error":
                        count("initialize-error:history-not-continued")
                        return {"viol": viol, "cut": "initialize-error"}
                    answered = ret[0].result.get("protocolVersion") if isinstance(ret[0].result, dict) else None
                    new_id(ret[1], "initialize" if kind == "init" else name)
                    model.add(CLIENTS[c], answered)
                elif kind == "get":
                    k = op[1]
                    got = sm.get_session(real_id(k))
                    if k in model.s:
                        f = rec_matches(got, k)
                        if f:
                            bad({"class": "wrong-return", "op": name, "detail": f},
                                f"get_session(#{k}) returned {rec_dict(got) if got is not None else None}, model {model.s[k]}")
                    elif got is not None:
                        bad({"class": "wrong-return", "op": name, "detail": "found-absent-session"},
                            f"get_session(#{k}) returned {rec_dict(got)}, model: absent")
                elif kind == "touch":
                    k = op[1]
                    got = sm.update_activity(real_id(k))
                    want = k in model.s
                    if want:
                        model.s[k][3] = model.now
                    if got is not want:
                        bad({"class": "wrong-return", "op": name, "detail": f"returned-{got!r}"},
                            f"update_activity(#{k}) returned {got!r}, model {want}")
                elif kind == "delete":
                    k = op[1]
                    got = sm.delete_session(real_id(k))
                    want = k in model.s
                    model.s.pop(k, None)
                    if got is not want:
                        bad({"class": "wrong-return", "op": name, "detail": f"returned-{got!r}"},
                            f"delete_session(#{k}) returned {got!r}, model {want}")
                elif kind == "ping":
                    k = op[1]
                    wire = {"jsonrpc": "2.0", "id": 12, "method": "ping"}
                    ret = await handler.handle_message(parse_message(wire), real_id(k))
                    ok = isinstance(ret, tuple) and len(ret) == 2 and ret[0] is not None
                    d = ret[0].model_dump(exclude_none=True) if ok else None
                    if not ok or classify(d)[0] != "result" or not strict_eq(d.get("id"), 12) or ret[1] is not None:
                        bad({"class": "wrong-return", "op": name}, f"ping with session #{k} returned {ret!r}")
                    if k in model.s:
                        # a request that carries a live session id is activity of that session ("idle" is measured from it)
                        cur = sm.get_session(ids[k])
                        if cur is not None and cur.last_activity != model.now and cur.created_at == model.s[k][2]:
                            bad({"class": "dispatch-did-not-refresh-activity", "op": name,
                                 "store": "replaced-after-construction" if model.replaced else "original"},
                                f"a request carrying the id of live session #{k} was dispatched at now={model.now}; the session's "
                                f"last_activity is still {cur.last_activity} (it will expire although in use)")
                        count("dispatch-refreshed-activity")
                        model.s[k][3] = model.now
                elif kind == "cleanup":
                    a = op[1]
                    limit = 3600 if a == "default" else a
                    got = sm.cleanup_expired() if a == "default" else sm.cleanup_expired(a)
                    gone = [i for i, r in model.s.items() if model.now - r[3] > limit]
                    # name the boundary relation of every discrepancy
                    real_left = set(sm.list_sessions())
                    disc = []
                    for i, r in sorted(model.s.items()):
                        idle = model.now - r[3]
                        diff = idle - limit
                        rel = ("idle==max_age" if diff == 0 else "idle=max_age+fraction" if 0 < diff < 1 else
                               "idle=max_age-fraction" if -1 < diff < 0 else "idle>max_age" if diff > 0 else "idle<max_age")
                        if step_no == len(hist) - 1:
                            count(f"expiry-case:max_age={a}:{rel}")
                        removed = ids[i] not in real_left
                        if removed != (i in gone):
                            disc.append(("removed:" if removed else "kept:") + rel)
                    for i in gone:
                        del model.s[i]
                    if disc:
                        bad({"class": "wrong-expiry", "op": name, "detail": "+".join(sorted(set(disc)))},
                            f"cleanup_expired({'' if a == 'default' else a}) at now={model.now}: {disc}")
                    if got != len(gone) or isinstance(got, bool):
                        bad({"class": "wrong-return", "op": name, "detail": "count"},
                            f"cleanup_expired returned {got!r}, model removed {len(gone)}")
                elif kind == "listmut":
                    listing = sm.list_sessions()
                    if not isinstance(listing, dict):
                        bad({"class": "wrong-return", "op": name}, f"list_sessions returned {listing!r}")
                    if op[1] == "add":
                        listing["intruder"] = next(iter(listing.values()), None) or object()
                    elif op[1] == "del":
                        for key in list(listing)[:1]:
                            del listing[key]
                    else:
                        listing.clear()
                elif kind == "clear":
                    got = sm.clear_all_sessions()
                    want = len(model.s)
                    model.s.clear()
                    if got != want:
                        bad({"class": "wrong-return", "op": name}, f"clear_all_sessions returned {got!r}, model {want}")
                elif kind == "adv":
                    clock.now += op[1]
                    model.now += op[1]
                    if op[1] < 0:
                        model.disturbed = True
                elif kind == "age":
                    model.disturbed = True
                    k = op[1]
                    value = model.now - 100 if op[2] == "older" else model.now + 50
                    rec = sm.get_session(ids[k])
                    if (rec is None) != (k not in model.s):
                        bad({"class": "wrong-return", "op": name, "detail": "lookup"},
                            f"get_session(#{k}) returned {rec!r}, model {'absent' if k not in model.s else 'present'}")
                    if rec is not None:
                        rec.last_activity = value          # through the public record object, as applications (and the suite) do
                        model.s[k][3] = value
                elif kind in ("b-create", "b-init"):
                    if kind == "b-create":
                        sid = smb.create_session(dict(B_CLIENT), B_VERSION)
                        answered = B_VERSION
                    else:
                        wire = {"jsonrpc": "2.0", "id": 13, "method": "initialize",
                                "params": {"capabilities": {}, "clientInfo": dict(B_CLIENT), "protocolVersion": B_VERSION}}
                        ret = await handler_b.handle_message(parse_message(wire), None)
                        if not (isinstance(ret, tuple) and len(ret) == 2 and ret[0] is not None):
                            bad({"class": "wrong-return", "op": name}, f"initialize on the second handler returned {ret!r}")
                        d = ret[0].model_dump(exclude_none=True)
                        if classify(d)[0] != "result":
                            count("initialize-error:history-not-continued")
                            return {"viol": viol, "cut": "initialize-error"}
                        answered = ret[0].result.get("protocolVersion") if isinstance(ret[0].result, dict) else None
                        sid = ret[1]
                    if not isinstance(sid, str) or not sid or sid in ids_b:
                        bad({"class": "duplicate-session-id" if sid in ids_b else "bad-session-id", "op": name},
                            f"{name} issued id {sid!r}")
                    ids_b.append(sid)
                    model.b[model.nb] = [B_CLIENT, answered, model.now, model.now]
                    model.nb += 1
                elif kind == "b-delete":
                    got = smb.delete_session(ids_b[op[1]])
                    want = op[1] in model.b
                    model.b.pop(op[1], None)
                    if got is not want:
                        bad({"class": "wrong-return", "op": name, "detail": f"returned-{got!r}"},
                            f"delete_session on the second handler returned {got!r}, model {want}")
                elif kind == "b-clear":
                    got = smb.clear_all_sessions()
                    want = len(model.b)
                    model.b.clear()
                    if got != want:
                        bad({"class": "wrong-return", "op": name}, f"clear_all_sessions on the second handler returned {got!r}, "
                                                                  f"model {want}")
                else:
                    raise core.HarnessError(f"unknown op {op}")
            except (Stop, core.HarnessError):
                raise
            except Exception as e:  # noqa: BLE001 - no operation of the alphabet may raise
                bad({"class": "op-raised", "op": name, "detail": type(e).__name__},
                    f"{name} raised {type(e).__name__}: {str(e)[:120]}")
            if step_no == len(hist) - 1 or FULL_VIEW_EVERY_STEP:
                check_both(name)
    except Stop:
        return {"viol": viol, "cut": "violation"}
    if clock.calls == 0 and any(o[0] in ("create", "init", "initsid", "rng-create", "rng-init") for o in hist):
        raise core.HarnessError("seam missing: the session store did not read chuk_mcp.server.session.memory.time")
    # canonical real observable (richer than the model key: it is what histories must agree on)
    listing = sm.list_sessions()
    real = [len(ids), sm.get_session_count(),
            [[ids.index(k), r.client_info, r.protocol_version, clock.now - r.created_at, clock.now - r.last_activity,
              r.metadata, r.session_id == k] for k, r in sorted(listing.items(), key=lambda kv: ids.index(kv[0]))]]
    lb = smb.list_sessions()
    real.append([[ids_b.index(k), r.client_info, r.protocol_version, clock.now - r.created_at, clock.now - r.last_activity,
                  r.metadata, r.session_id == k] for k, r in sorted(lb.items(), key=lambda kv: ids_b.index(kv[0]))])
    real.append(len(ids_b))
    return {"viol": viol, "cut": None, "key": _h(model.canon()), "digest": _h(real), "n_issued": model.n,
            "n_issued_b": model.nb, "live": len(model.s), "live_b": len(model.b), "replaced": model.replaced, "disturbed": model.disturbed}


def _factory():
    from chuk_mcp.protocol.types.capabilities import ServerCapabilities
    from chuk_mcp.protocol.types.info import ServerInfo
    from chuk_mcp.server.protocol_handler import ProtocolHandler

    info = ServerInfo(name="vf-c19", version="0.0.1")
    caps = ServerCapabilities()
    return lambda: ProtocolHandler(info, caps)


def run_one(ctl: explorer.Ctl, cfg: Dict[str, Any]) -> Dict[str, Any]:
    """cfg = {"h": [op codes]} - executes the history, then history+[op] for every
    enabled op (or only cfg["op"]), each on fresh objects."""
    from chuk_mcp.protocol.messages.json_rpc_message import parse_message

    codes = list(cfg["h"])
    counters: Dict[str, int] = {}

    def count(k, n=1):
        counters[k] = counters.get(k, 0) + n

    factory = _factory()
    out: Dict[str, Any] = {}

    async def block(seams):
        base = await execute(codes, seams, factory, parse_message, count)
        count("executions")
        out["base"] = base
        succ = []
        viol = list(base["viol"])
        if base["cut"] and codes:
            out["succ"], out["viol"] = succ, viol
            return
        # (an empty history that is already in violation still has its one-step extensions executed: they are
        # executions like any other, and each reports what it sees)
        ops = enabled(base.get("n_issued", 0), base.get("n_issued_b", 0), base.get("replaced", False), base.get("disturbed", False))
        if cfg.get("noB"):
            ops = [o for o in ops if o < CORE_N]
        if cfg.get("op") is not None:
            ops = [o for o in ops if o == cfg["op"]]
        for code in ops:
            r = await execute(codes + [code], seams, factory, parse_message, count)
            count("executions")
            count("transitions")
            count("op:" + OPS[code][0])
            viol.extend(r["viol"])
            if r["cut"]:
                count("cut:" + r["cut"])
                continue
            if r["key"] == base.get("key"):
                count("self-loops")
                if r["digest"] != base["digest"]:
                    viol.append({"sig": {"class": "histories-disagree", "op": opname(OPS[code])},
                                 "msg": f"history {[OPS[c] for c in codes]} and its extension by {OPS[code]} reach the same "
                                        f"model state but a different observable state"})
                continue
            succ.append([code, r["key"], r["digest"]])
        out["succ"], out["viol"] = succ, viol

    with Seams() as seams:
        loop = new_loop(horizon=5)
        status, val = loop.run_main(block(seams))
        errors = loop.collect_errors()
        loop.abandon()
    if status != "ok":
        if isinstance(val, core.HarnessError):
            raise val
        raise core.HarnessError(f"history {codes} did not complete: {status} {core.clean_repr(val)}")
    if errors:
        raise core.HarnessError(f"history {codes}: event loop reported {errors[:2]}")
    base = out["base"]
    return {
        "outcome": f"depth{len(codes)}:" + ("cut" if base["cut"] else f"issued{base['n_issued']}:live{base['live']}:B{base['live_b']}"),
        "history": [OPS[c] for c in codes],
        "key": base.get("key"), "digest": base.get("digest"),
        "succ": out["succ"],
        "violations": out["viol"],
        "counters": counters,
    }


# ---------------------------------------------------------------------------
# level-synchronous parallel BFS
# ---------------------------------------------------------------------------
# The public view is compared after the LAST operation of an execution: every proper prefix of a
# history is itself an execution of the search (fresh objects, same deterministic run), so the view
# after every step of every history is compared exactly once.  Return values are compared at every step.
FULL_VIEW_EVERY_STEP = False

AUDIT_MOD = 97      # passed through to the explorer's accounting (its own audit list is not used here)
AUDIT_KEEP = 200    # per level: the executions with the smallest observation digests are re-run in another process


class _LazyCfgs:
    """Sequence view: frontier histories (bytes) -> cfg dicts."""

    def __init__(self, hists: List[bytes], no_b: bool = False):
        self.hists = hists
        self.no_b = no_b

    def __len__(self):
        return len(self.hists)

    def __getitem__(self, i):
        return _cfg(self.hists[i], self.no_b)


def _winit():
    import logging

    logging.disable(logging.CRITICAL)


def _cfg(hb: bytes, no_b: bool) -> Dict[str, Any]:
    return {"h": list(hb), "noB": True} if no_b else {"h": list(hb)}


B_ISSUING = bytes(c for c, o in enumerate(OPS) if o[0] in ("b-create", "b-init"))
# the operations on the first handler alone, without store replacement, rng actions and time-order disturbances: the extra
# level of the thorough tier extends only histories made of these, by these
CORE_N = next(c for c, o in enumerate(OPS) if o[0] == "b-create")


def _wexpand(task):
    base, hists, no_b = task
    stats = explorer.Stats()
    packed = []
    digs = []
    try:
        for j, hb in enumerate(hists):
            cfg = _cfg(hb, no_b)
            ctl = explorer.Ctl()
            obs = run_one(ctl, cfg)
            explorer._account(stats, base + j, cfg, ctl, obs, 0, AUDIT_MOD)
            digs.append((explorer.digest_of(obs), base + j))
            packed.append(b"".join(bytes([c]) + bytes.fromhex(k) + bytes.fromhex(d) for c, k, d in obs["succ"]))
        stats.audit = []   # the audit below is this module's own (smallest observation digests per level)
        return ("ok", base, stats, (packed, sorted(digs)[:AUDIT_KEEP]))
    except Exception:  # noqa: BLE001
        return ("error", base, traceback.format_exc(), None)


def _wreplay(item):
    cfg_index, hb, d, no_b = item
    try:
        obs = run_one(explorer.Ctl(), _cfg(hb, no_b))
        return (cfg_index, d, explorer.digest_of(obs))
    except Exception:  # noqa: BLE001
        return (cfg_index, d, "ERR:" + traceback.format_exc()[-300:])


def bfs(res: core.Result, depth: int, extra_without_b: int = 0) -> Dict[str, Any]:
    """Levels 1..depth with the whole alphabet; then ``extra_without_b`` more levels that extend only the histories that
    never issued an id on the second handler, with the first handler's operations only."""
    workers = explorer.n_workers()
    ctx = mp.get_context("fork")
    # root
    root_obs = run_one(explorer.Ctl(), {"h": []})
    # (if the empty history is already in violation the first level reports it and the search ends there)
    seen: Dict[bytes, bytes] = ({bytes.fromhex(root_obs["key"]): bytes.fromhex(root_obs["digest"])}
                                if root_obs["key"] is not None else {})
    arrivals_multi = set()
    disagreements = 0
    frontier: List[bytes] = [b""]
    totals = {"transitions": 0, "executions": 0, "duplicate_arrivals": 0, "self_loops": 0}
    per_depth = []
    samples: List[Any] = []
    with ctx.Pool(workers, initializer=_winit) as pool:
        for d in range(1, depth + extra_without_b + 1):
            t0 = _time.time()
            no_b = d > depth
            if no_b:
                frontier = [h for h in frontier if all(c < CORE_N for c in h)]
                if not frontier:
                    break
            chunk = max(1, min(64, len(frontier) // (workers * 8) or 1))
            tasks = [(i, frontier[i:i + chunk], no_b) for i in range(0, len(frontier), chunk)]
            stats = explorer.Stats()
            packed_all: List[Optional[List[bytes]]] = [None] * len(tasks)
            errors: List[str] = []
            audit: List[Tuple[str, int]] = []
            for tag, base, a, b in pool.imap_unordered(_wexpand, tasks):  # noqa: B007
                if tag != "ok":
                    errors.append(f"error: frontier index {base}\n{a}")
                    continue
                stats.merge(a)
                packed_all[base // chunk] = b[0]
                audit = sorted(audit + b[1])[:AUDIT_KEEP]
            # merge successors in frontier order (deterministic representative histories)
            nxt: List[bytes] = []
            new_states = 0
            if not errors:
                for ti, packs in enumerate(packed_all):
                    base = tasks[ti][0]
                    for j, pk in enumerate(packs or []):
                        hb = frontier[base + j]
                        for o in range(0, len(pk), 17):
                            code, key, dig = pk[o], pk[o + 1:o + 9], pk[o + 9:o + 17]
                            first = seen.get(key)
                            if first is None:
                                seen[key] = dig
                                nxt.append(hb + bytes([code]))
                                new_states += 1
                            else:
                                totals["duplicate_arrivals"] += 1
                                arrivals_multi.add(key)
                                if first != dig:
                                    disagreements += 1
                                    res.add_violation(
                                        {"class": "histories-disagree", "op": opname(OPS[code])},
                                        f"history {[OPS[c] for c in hb] + [OPS[code]]} reaches a model state reached before "
                                        f"by another history, with a different observable state",
                                        {"ref": "vf.sched:replay", "args": {"run_ref": RUN, "init_ref": None,
                                                                            "cfg": {"h": list(hb), "op": code}, "choices": []}})
            stats.audit = []
            replayed = pool.map(_wreplay, [(i, frontier[i], dg, no_b) for (dg, i) in reversed(audit)], chunksize=1) \
                if not errors else []
            mism = [r for r in replayed if r[1] != r[2]]
            out = {"stats": stats, "errors": errors, "replayed": len(replayed), "replay_mismatches": len(mism),
                   "mismatch_examples": [{"cfg_index": r[0], "first": r[1], "second": r[2]} for r in mism[:3]],
                   "wall_s": _time.time() - t0, "workers": workers, "configs": len(frontier), "bound": None}
            part = f"expand-depth-{d - 1}-to-{d}"
            if no_b:
                part += "-first-handler-only"
            sched.absorb(res, part, RUN, out, _LazyCfgs(frontier, no_b), min_outcomes=1)
            c = res.parts[part]["counters"]
            # self loops are arrivals at an already known state by a longer history
            totals["self_loops"] += c.get("self-loops", 0)
            totals["transitions"] += c.get("transitions", 0)
            totals["executions"] += c.get("executions", 0)
            per_depth.append({"depth": d, "alphabet": "first-handler-only" if no_b else "all", "frontier_expanded": len(frontier), "transitions": c.get("transitions", 0),
                              "new_states": new_states, "states_total": len(seen), "wall_s": round(_time.time() - t0, 2)})
            res.parts[part]["new_states"] = new_states
            if len(samples) < 4 and nxt:
                samples.append({"history": [OPS[c] for c in nxt[len(nxt) // 2]], "depth": d})
            if errors:
                break
            frontier = nxt
            if not frontier:
                break
    self_loop_states = totals["self_loops"]
    return {"states": len(seen), "per_depth": per_depth, "totals": totals, "multi": len(arrivals_multi),
            "disagreements": disagreements, "samples": samples, "last_frontier": len(frontier),
            "self_loop_arrivals": self_loop_states}


# ---------------------------------------------------------------------------
# concurrent dispatches on one handler (E-SCHED): a handler that suspends and then raises / returns, overlapping with an
# initialize, a ping, a deletion ... from another task; the map afterwards is what the COMPLETED operations make of it
# ---------------------------------------------------------------------------
RUN_CONC = "vf.checks.c19:run_concurrent"
CONC_SLOWS = [["raises"], ["returns"], ["raises", "raises"], ["raises", "returns"], ["returns", "raises"]]
CONC_OTHER = ["initialize", "two-initializes", "create_session-via-api", "ping-with-session-0", "delete-session-0",
              "initialize-then-delete-that-session"]


def run_concurrent(ctl: explorer.Ctl, cfg: Dict[str, Any]) -> Dict[str, Any]:
    import asyncio

    from chuk_mcp.protocol.messages.json_rpc_message import parse_message

    from .. import seams as _seams

    slows = CONC_SLOWS[cfg["slows"]]
    other = CONC_OTHER[cfg["other"]]
    carry = cfg["carry"]          # the slow dispatches carry session 0's id or none
    factory = _factory()
    viol: List[dict] = []
    order: List[str] = []
    info: Dict[str, Any] = {}

    with Seams() as sm_seams:
        sm_seams.reset()
        loop = new_loop(horizon=5)
        q = _seams.Quiescence(loop)
        handler = factory()
        sm = handler.session_manager
        gates: List[Any] = []
        results: Dict[int, Any] = {}
        model: Dict[str, Any] = {}        # session id -> (client name, version)

        async def slow(message, session_id):
            i = message.params["i"]
            await gates[i]
            if slows[i] == "raises":
                raise RuntimeError(f"slow handler {i} failed")
            return handler.create_response(message.id, {"slow": i}), None

        handler.register_method("slow/op", slow)
        s0 = sm.create_session({"name": "client-0"}, "2025-06-18")
        model[s0] = ("client-0", "2025-06-18")
        n_init = {"n": 0}

        async def initialize():
            n_init["n"] += 1
            name = f"client-init-{n_init['n']}"
            wire = {"jsonrpc": "2.0", "id": 50 + n_init["n"], "method": "initialize",
                    "params": {"protocolVersion": "2025-03-26", "capabilities": {}, "clientInfo": {"name": name}}}
            ret = await handler.handle_message(parse_message(wire), None)
            d = ret[0].model_dump(exclude_none=True) if isinstance(ret, tuple) and ret[0] is not None else None
            if d is None or classify(d)[0] != "result" or not isinstance(ret[1], str):
                viol.append({"sig": {"class": "wrong-return", "op": "initialize"}, "msg": f"initialize returned {ret!r}"})
                return None
            model[ret[1]] = (name, d["result"].get("protocolVersion"))
            return ret[1]

        async def do_other():
            if other == "initialize":
                await initialize()
            elif other == "two-initializes":
                await initialize()
                await initialize()
            elif other == "create_session-via-api":
                sid = sm.create_session({"name": "client-api"}, "2024-11-05")
                model[sid] = ("client-api", "2024-11-05")
            elif other == "ping-with-session-0":
                await handler.handle_message(parse_message({"jsonrpc": "2.0", "id": 60, "method": "ping"}), s0)
            elif other == "delete-session-0":
                sm.delete_session(s0)
                model.pop(s0, None)
            else:
                sid = await initialize()
                if sid:
                    sm.delete_session(sid)
                    model.pop(sid, None)

        async def one_slow(i):
            wire = {"jsonrpc": "2.0", "id": 10 + i, "method": "slow/op", "params": {"i": i}}
            try:
                results[i] = ("returned", await handler.handle_message(parse_message(wire), s0 if carry else None))
            except Exception as e:  # noqa: BLE001
                results[i] = ("raised", e)

        async def main():
            k = len(slows)
            for _ in range(k):
                gates.append(loop.create_future())
            started, released, tasks, did_other = [False] * k, [False] * k, [], False
            while True:
                menu = [("start", i) for i in range(k) if not started[i]] + \
                       [("release", i) for i in range(k) if started[i] and not released[i]] + \
                       ([] if did_other else [("other", 0)])
                if not menu:
                    break
                act, i = menu[ctl.choose(len(menu), "action")] if len(menu) > 1 else menu[0]
                order.append(act + (str(i) if act != "other" else ""))
                if act == "start":
                    started[i] = True
                    tasks.append(asyncio.ensure_future(one_slow(i)))
                elif act == "release":
                    released[i] = True
                    gates[i].set_result(None)
                else:
                    did_other = True
                    info["suspended_during_other"] = [j for j in range(k) if started[j] and not released[j]]
                    await do_other()
                await q.settle()
            await asyncio.gather(*tasks)

        status, val = loop.run_main(main())
        errors = loop.collect_errors()
        loop.abandon()
        if status != "ok":
            raise core.HarnessError(f"concurrent {cfg} did not complete: {status} {val!r}")
        susp = info.get("suspended_during_other", [])
        ctx = {"other_operation": other,
               "ran_while_suspended": "+".join(sorted({slows[j] for j in susp})) or "nothing-suspended",
               "slow_dispatch_carries_a_session_id": bool(carry)}

        def bad(cls, msg, **extra):
            viol.append({"sig": {"class": cls, **ctx, **extra},
                         "msg": f"slow handlers {slows}, other operation '{other}', order {order}: {msg}"})

        # the slow dispatches themselves
        for i, beh in enumerate(slows):
            how, ret = results[i]
            if how == "raised":
                bad("dispatch-raised", f"slow dispatch {i} raised {type(ret).__name__}: {ret}")
                continue
            d = ret[0].model_dump(exclude_none=True) if isinstance(ret, tuple) and ret[0] is not None else None
            want = "error" if beh == "raises" else "result"
            if d is None or classify(d)[0] != want or not strict_eq(d.get("id"), 10 + i):
                bad("wrong-return", f"slow dispatch {i} ({beh}) answered {d!r}", op="slow")
        # the store is what the completed operations make of it
        listing = sm.list_sessions()
        lost = [model[k][0] for k in model if k not in listing]
        extra = [k for k in listing if k not in model]
        if lost:
            bad("session-of-a-completed-operation-lost", f"sessions of {lost} are gone; store has "
                                                         f"{[r.client_info for r in listing.values()]}", lost=len(lost))
        if extra:
            bad("session-nobody-created", f"{len(extra)} unexpected sessions {[listing[k].client_info for k in extra]}")
        for k, (name, ver) in model.items():
            r = listing.get(k)
            if r is not None and (not isinstance(r.client_info, dict) or r.client_info.get("name") != name
                                  or r.protocol_version != ver or sm.get_session(k) is None):
                bad("record-differs", f"session of {name}: {r.client_info!r} {r.protocol_version!r}, expected version {ver!r}")
        if sm.get_session_count() != len(listing):
            bad("count-differs-from-listing", f"{sm.get_session_count()} vs {len(listing)}")
        if errors:
            bad("loop-error", f"{errors[:2]}")
    return {"outcome": f"live{len(listing)}:{ctx['ran_while_suspended']}", "order": order, "violations": viol}


def concurrent_configs() -> List[Dict[str, Any]]:
    return [{"slows": a, "other": b, "carry": c} for a in range(len(CONC_SLOWS)) for b in range(len(CONC_OTHER)) for c in (0, 1)]


# ---------------------------------------------------------------------------
# long runs on ONE store: a creation adds exactly one session and removes none, however many came before
# ---------------------------------------------------------------------------
RUN_LONG = "vf.checks.c19:run_long"
LONG_N = [255, 256, 257, 511, 512, 513, 1024, 4096]
LONG_IDLE = {"2h": 7200.0, "25h": 90000.0, "59min": 3540.0}
LONG_VIA = ["create_session", "initialize", "alternating"]


def run_long(ctl: explorer.Ctl, cfg: Dict[str, Any]) -> Dict[str, Any]:
    from chuk_mcp.protocol.messages.json_rpc_message import parse_message

    n, idle_name, via = cfg["n"], cfg["idle"], LONG_VIA[cfg["via"]]
    viol: List[dict] = []
    info: Dict[str, Any] = {"steps": 0}

    def bad(cls, msg, **extra):
        if not viol:
            viol.append({"sig": {"class": cls, "quiet_session_idle_for": idle_name, "sessions_created_through": via, **extra},
                         "msg": f"{n} creations through {via}, one quiet session idle for {idle_name}: {msg}"})

    with Seams() as sm_seams:
        sm_seams.reset()
        clock = sm_seams.clock
        handler = _factory()()
        sm = handler.session_manager
        model: Dict[str, str] = {}

        async def main():
            quiet = sm.create_session({"name": "quiet"}, "2025-06-18")
            model[quiet] = "quiet"
            clock.now += LONG_IDLE[idle_name]
            prev = None
            for i in range(1, n + 1):
                clock.now += 0.5
                name = f"c{i}"
                if via == "create_session" or (via == "alternating" and i % 2):
                    sid = sm.create_session({"name": name}, "2025-06-18")
                else:
                    wire = {"jsonrpc": "2.0", "id": i, "method": "initialize",
                            "params": {"protocolVersion": "2025-06-18", "capabilities": {}, "clientInfo": {"name": name}}}
                    ret = await handler.handle_message(parse_message(wire), None)
                    sid = ret[1] if isinstance(ret, tuple) and len(ret) == 2 else None
                if not isinstance(sid, str) or sid in model:
                    bad("bad-or-repeated-session-id", f"creation {i} returned id {sid!r}", creation=_bucket(i))
                    return
                model[sid] = name
                for step in ("create", "delete-previous"):
                    if step == "delete-previous":
                        if prev is None or i % 3 == 0:       # every third creation keeps its predecessor a while longer
                            prev = sid if prev is None else prev
                            if i % 3 == 0:
                                continue
                        else:
                            if sm.delete_session(prev) is not True:
                                bad("wrong-return", f"delete_session of the previous session returned not True at creation {i}",
                                    creation=_bucket(i))
                                return
                            model.pop(prev, None)
                            prev = sid
                    info["steps"] += 1
                    listing = sm.list_sessions()
                    if sm.get_session_count() != len(model) or set(listing) != set(model):
                        gone = [model[k] for k in model if k not in listing]
                        bad("session-removed-by-a-creation" if gone and step == "create" else "store-differs-from-the-map",
                            f"after {step} number {i}: store has {len(listing)} sessions, the map {len(model)}; gone: {gone[:4]}, "
                            f"unexpected: {len([k for k in listing if k not in model])}",
                            creation=_bucket(i), lost_the_quiet_session="quiet" in gone)
                        return
                    if sm.get_session(quiet) is None:
                        bad("session-removed-by-a-creation", f"the quiet session is gone after {step} number {i}", creation=_bucket(i),
                            lost_the_quiet_session=True)
                        return

        loop = new_loop(horizon=5)
        status, val = loop.run_main(main())
        errors = loop.collect_errors()
        loop.abandon()
    if status != "ok":
        raise core.HarnessError(f"long run {cfg} did not complete: {status} {val!r}")
    if errors:
        raise core.HarnessError(f"long run {cfg}: event loop reported {errors[:2]}")
    return {"outcome": f"steps-judged:{info['steps']}", "violations": viol, "counters": {"long-run-steps": info["steps"]}}


def _bucket(i: int) -> str:
    """The creation number in the harness's vocabulary (powers of two matter to sweepers and resizing tables)."""
    if i > 0 and i & (i - 1) == 0:
        return f"number-{i}:a-power-of-two"
    if i % 256 == 0:
        return "a-multiple-of-256"
    return "other"


def long_configs(tier: str) -> List[Dict[str, Any]]:
    return [{"n": n, "idle": idle, "via": v} for n in LONG_N for idle in LONG_IDLE for v in range(len(LONG_VIA))
            if tier == "thorough" or n <= 1024 or (idle == "2h" and v == 2)]


# ---------------------------------------------------------------------------
# near-miss ids: an id that is not a key finds nothing, refreshes nothing, deletes nothing
# ---------------------------------------------------------------------------
RUN_NEAR = "vf.checks.c19:run_near"
NEAR_FORMS = ["trailing-LF", "trailing-CRLF", "trailing-space", "trailing-tab", "leading-space", "surrounded-by-blanks",
              "upper-cased", "NUL-appended", "last-character-dropped", "first-character-dropped", "doubled", "as-bytes",
              "trailing-NBSP", "trailing-U+2028"]
NEAR_OPS = ["get_session", "update_activity", "delete_session", "ping-with-this-session-id", "initialize-with-this-session-id",
            "unknown-method-with-this-session-id"]


def near_id(sid: str, form: str) -> Any:
    return {"trailing-LF": sid + "\n", "trailing-CRLF": sid + "\r\n", "trailing-space": sid + " ", "trailing-tab": sid + "\t",
            "leading-space": " " + sid, "surrounded-by-blanks": " \t" + sid + " \n", "upper-cased": sid.upper(),
            "NUL-appended": sid + "\x00", "last-character-dropped": sid[:-1], "first-character-dropped": sid[1:],
            "doubled": sid + sid, "as-bytes": sid.encode("ascii"), "trailing-NBSP": sid + "\u00a0",
            "trailing-U+2028": sid + "\u2028"}[form]


def run_near(ctl: explorer.Ctl, cfg: Dict[str, Any]) -> Dict[str, Any]:
    from chuk_mcp.protocol.messages.json_rpc_message import parse_message

    form, op, moment = NEAR_FORMS[cfg["form"]], NEAR_OPS[cfg["op"]], cfg["moment"]
    viol: List[dict] = []

    def bad(cls, msg, **extra):
        viol.append({"sig": {"class": cls, "id_form": form, "operation": op, **extra},
                     "msg": f"{op} with the live session's id in the form '{form}' ({moment}): {msg}"})

    with Seams() as sm_seams:
        sm_seams.reset()
        clock = sm_seams.clock
        handler = _factory()()
        sm = handler.session_manager

        async def main():
            sid = sm.create_session({"name": "live"}, "2025-06-18")
            other = sm.create_session({"name": "other"}, "2025-03-26")
            t_created = clock.now
            near = near_id(sid, form)
            if near == sid:
                raise core.HarnessError(f"near-miss form {form} equals the id itself")
            if moment == "after-9.5s":
                clock.now += 9.5
            before = {k: (r.client_info, r.protocol_version, r.created_at, r.last_activity) for k, r in sm.list_sessions().items()}
            try:
                if op == "get_session":
                    got = sm.get_session(near)
                    if got is not None:
                        bad("near-miss-id-finds-a-session", f"get_session returned the record of {got.client_info!r}")
                elif op == "update_activity":
                    got = sm.update_activity(near)
                    if got is not False:
                        bad("near-miss-id-accepted", f"update_activity returned {got!r}")
                elif op == "delete_session":
                    got = sm.delete_session(near)
                    if got is not False:
                        bad("near-miss-id-accepted", f"delete_session returned {got!r}")
                else:
                    wire = {"ping-with-this-session-id": {"jsonrpc": "2.0", "id": 1, "method": "ping"},
                            "initialize-with-this-session-id": {"jsonrpc": "2.0", "id": 1, "method": "initialize", "params": {
                                "protocolVersion": "2025-06-18", "capabilities": {}, "clientInfo": {"name": "second"}}},
                            "unknown-method-with-this-session-id": {"jsonrpc": "2.0", "id": 1, "method": "no/such"}}[op]
                    ret = await handler.handle_message(parse_message(wire), near)
                    if not (isinstance(ret, tuple) and len(ret) == 2 and ret[0] is not None):
                        bad("wrong-return", f"handle_message returned {ret!r}")
                    elif op.startswith("initialize") and isinstance(ret[1], str):
                        before[ret[1]] = None      # the new session of this initialize
            except Exception as e:  # noqa: BLE001
                bad("op-raised", f"raised {type(e).__name__}: {str(e)[:80]}", detail=type(e).__name__)
            after = {k: (r.client_info, r.protocol_version, r.created_at, r.last_activity) for k, r in sm.list_sessions().items()}
            for k in before:
                if before[k] is not None and after.get(k) != before[k]:
                    what = "removed" if k not in after else ("last_activity" if after[k][:3] == before[k][:3] else "record")
                    bad("near-miss-id-changed-a-session", f"the session of {before[k][0]!r} changed: {what} "
                                                          f"({before[k][3]} -> {after.get(k, [None] * 4)[3]})", change=what,
                        whose="the-similar-one" if k == sid else "another")
            if set(after) - set(before):
                bad("near-miss-id-created-a-session", f"{len(set(after) - set(before))} new sessions")
            # the live session was not used under its own id: it expires when its own idle time says so
            if not viol:
                clock.now = t_created + 10.5
                removed = sm.cleanup_expired(10)
                if sm.get_session(sid) is not None:
                    bad("session-kept-alive-by-a-near-miss-id", f"10.5 s after its creation and never used under its own id, "
                                                                f"cleanup_expired(10) removed {removed} and the session is still there")

        loop = new_loop(horizon=5)
        status, val = loop.run_main(main())
        errors = loop.collect_errors()
        loop.abandon()
    if status != "ok":
        if isinstance(val, core.HarnessError):
            raise val
        raise core.HarnessError(f"near-miss {cfg} did not complete: {status} {val!r}")
    if errors:
        raise core.HarnessError(f"near-miss {cfg}: event loop reported {errors[:2]}")
    return {"outcome": "nothing-found" if not viol else "accepted", "violations": viol[:2]}


def near_configs() -> List[Dict[str, Any]]:
    return [{"form": f, "op": o, "moment": m} for f in range(len(NEAR_FORMS)) for o in range(len(NEAR_OPS))
            for m in ("at-once", "after-9.5s")]


# ---------------------------------------------------------------------------
# records are independent objects; one sweep removes EVERY expired session
# ---------------------------------------------------------------------------
RUN_MISC = "vf.checks.c19:run_misc"


def run_misc(ctl: explorer.Ctl, cfg: Dict[str, Any]) -> Dict[str, Any]:
    from chuk_mcp.protocol.messages.json_rpc_message import parse_message

    viol: List[dict] = []

    def bad(sig, msg):
        viol.append({"sig": sig, "msg": msg})

    with Seams() as sm_seams:
        sm_seams.reset()
        clock = sm_seams.clock
        factory = _factory()
        outcome = {"v": ""}

        async def init(handler, with_info):
            params: Dict[str, Any] = {"protocolVersion": "2025-06-18"}
            if with_info:
                params["clientInfo"] = {"name": "named"}
                params["capabilities"] = {}
            ret = await handler.handle_message(parse_message({"jsonrpc": "2.0", "id": 1, "method": "initialize", "params": params}), None)
            return ret[1]

        async def main():
            if cfg["kind"] == "mass-expiry":
                n = cfg["n"]
                sm = factory().session_manager
                old = [sm.create_session({"name": f"old{i}"}, "2025-06-18") for i in range(n)]
                clock.now += 10.5
                fresh = [sm.create_session({"name": f"fresh{i}"}, "2025-06-18") for i in range(2)]
                got = sm.cleanup_expired(10)
                left = [k for k in old if sm.get_session(k) is not None]
                if got != n or left or sm.get_session_count() != 2 or any(sm.get_session(k) is None for k in fresh):
                    bad({"class": "wrong-expiry", "detail": "expired-sessions-left-behind" if left else "other",
                         "expired_in_one_sweep": "more-than-20" if n > 20 else "at-most-20"},
                        f"{n} sessions idle for 10.5 s and 2 fresh ones: cleanup_expired(10) returned {got}, {len(left)} of the "
                        f"expired sessions are still there, count {sm.get_session_count()}")
                outcome["v"] = f"swept:{n}"
                return
            # independence of records
            h1, h2 = factory(), factory()
            sids = [(h1, await init(h1, False)), (h1, await init(h1, False)), (h2, await init(h2, False)), (h1, await init(h1, True))]
            recs = [h.session_manager.get_session(s) for h, s in sids]
            if any(r is None for r in recs):
                raise core.HarnessError("initialize did not record a session")
            field = cfg["field"]
            before = [json.dumps(getattr(r, field), sort_keys=True, default=repr) for r in recs]
            target = getattr(recs[cfg["which"]], field)
            if not isinstance(target, dict):
                outcome["v"] = f"{field}-not-a-dict"
                return
            target["written-by-the-application"] = True      # in place, through the public record object
            after = [json.dumps(getattr(h.session_manager.get_session(s), field), sort_keys=True, default=repr) for h, s in sids]
            for i, (b_, a) in enumerate(zip(before, after)):
                if i != cfg["which"] and a != b_:
                    bad({"class": "records-share-a-mutable-object", "field": field,
                         "scope": "same-store" if sids[i][0] is sids[cfg["which"]][0] else "another-handler"},
                        f"writing into {field} of record #{cfg['which']} changed record #{i}: {b_} -> {a}")
            h3 = factory()
            later = h3.session_manager.get_session(await init(h3, False))
            if json.dumps(getattr(later, field), sort_keys=True, default=repr) != before[0]:
                bad({"class": "records-share-a-mutable-object", "field": field, "scope": "a-later-initialize-on-a-new-handler"},
                    f"after the write, a new handler's initialize without clientInfo records {field}={getattr(later, field)!r}, "
                    f"before it recorded {before[0]}")
            outcome["v"] = f"independent:{field}"
            target.pop("written-by-the-application", None)   # whatever object that was, leave it as it was found

        loop = new_loop(horizon=5)
        status, val = loop.run_main(main())
        errors = loop.collect_errors()
        loop.abandon()
    if status != "ok":
        if isinstance(val, core.HarnessError):
            raise val
        raise core.HarnessError(f"misc {cfg} did not complete: {status} {val!r}")
    if errors:
        raise core.HarnessError(f"misc {cfg}: event loop reported {errors[:2]}")
    return {"outcome": outcome["v"] + (":violation" if viol else ""), "violations": viol[:3]}


def misc_configs() -> List[Dict[str, Any]]:
    return [{"kind": "mass-expiry", "n": n} for n in (1, 19, 20, 21, 30, 100, 1000)] + \
        [{"kind": "independence", "which": w, "field": f} for w in (0, 1, 2) for f in ("client_info", "metadata")]


# ---------------------------------------------------------------------------
# the same behaviour in an interpreter that runs with assertions disabled (python -O / -OO, PYTHONOPTIMIZE): a
# sequential search to a small depth plus the mass-expiry and near-miss batteries, executed in a child interpreter
# ---------------------------------------------------------------------------
RUN_CHILD = "vf.checks.c19:run_in_child_interpreter"
CHILD_FLAGS = ["-O", "-OO"]


def child_battery(depth: int) -> Dict[str, Any]:
    """Runs INSIDE the child: every history of length <= depth (each extended by every enabled operation), then the other
    batteries.  Returns violations (signature + message) and counts."""
    import logging

    logging.disable(logging.CRITICAL)
    viol: List[dict] = []
    executions = 0
    seen = set()
    frontier: List[List[int]] = [[]]
    for _d in range(depth):
        nxt: List[List[int]] = []
        for h in frontier:
            obs = run_one(explorer.Ctl(), {"h": h})
            executions += obs["counters"].get("executions", 0)
            viol.extend(obs["violations"])
            for code, key, _dig in obs["succ"]:
                if key not in seen:
                    seen.add(key)
                    nxt.append(h + [code])
        frontier = nxt
    for cfg in misc_configs():
        obs = run_misc(explorer.Ctl(), cfg)
        executions += 1
        viol.extend(obs["violations"])
    for cfg in near_configs()[::7]:
        obs = run_near(explorer.Ctl(), cfg)
        executions += 1
        viol.extend(obs["violations"])
    firsts: Dict[str, dict] = {}
    for v in viol:
        firsts.setdefault(json.dumps(v["sig"], sort_keys=True), v)
    return {"executions": executions, "states": len(seen), "violating": len(viol), "violations": list(firsts.values())[:12],
            "asserts_enabled": bool(__debug__)}


def run_in_child_interpreter(ctl: explorer.Ctl, cfg: Dict[str, Any]) -> Dict[str, Any]:
    import os
    import subprocess
    import sys

    flag, depth = CHILD_FLAGS[cfg["flag"]], cfg["depth"]
    code = ("import json,sys\nfrom vf.checks import c19\n"
            f"sys.stdout.write('RESULT ' + json.dumps(c19.child_battery({depth}), default=repr))\n")
    env = dict(os.environ)
    env["PYTHONHASHSEED"] = "0"
    p = subprocess.run([sys.executable, flag, "-c", code], capture_output=True, text=True, timeout=600, env=env)
    line = [ln for ln in p.stdout.splitlines() if ln.startswith("RESULT ")]
    if p.returncode != 0 or not line:
        raise core.HarnessError(f"child interpreter ({flag}) failed: exit {p.returncode}: {p.stderr[-400:]}")
    out = json.loads(line[-1][7:])
    if out["asserts_enabled"]:
        raise core.HarnessError(f"seam missing: the child started with {flag} still runs assert statements")
    viol = [{"sig": dict(v["sig"], interpreter="assertions-disabled"), "msg": f"[python {flag}] " + v["msg"]} for v in out["violations"]]
    return {"outcome": f"{flag}:states{out['states']}", "violations": viol,
            "counters": {"child-interpreter-executions": out["executions"], "child-interpreter-violating": out["violating"]}}


# ---------------------------------------------------------------------------
# other session stores plugged into the handler: a request that carries a live session's id counts as its activity
# ---------------------------------------------------------------------------
RUN_STORES = "vf.checks.c19:run_other_store"
OTHER_STORES = ["stock", "subclass:deep-copies-on-read", "own-implementation:rows-as-dicts"]
STORE_MESSAGES = ["ping", "unknown-method", "notification", "second-initialize", "tools-less-request-with-params", "no-message"]


def make_other_store(kind: str):
    import copy

    import chuk_mcp.server.session.memory as mem
    from chuk_mcp.server.session.base import BaseSessionManager, SessionInfo
    from chuk_mcp.server.session.memory import InMemorySessionManager

    if kind == "stock":
        return InMemorySessionManager()
    if kind.startswith("subclass"):
        class Copying(InMemorySessionManager):
            def get_session(self, session_id):
                return copy.deepcopy(super().get_session(session_id))

            def list_sessions(self):
                return copy.deepcopy(super().list_sessions())

        return Copying()

    class Rows(BaseSessionManager):
        """An independent implementation: rows are dicts, every read materialises a new SessionInfo."""

        def __init__(self):
            self.rows: Dict[str, Dict[str, Any]] = {}

        def _rec(self, sid):
            r = self.rows[sid]
            return SessionInfo(sid, copy.deepcopy(r["ci"]), r["pv"], r["created"], r["last"], {})

        def create_session(self, client_info, protocol_version, metadata=None):
            sid = self.generate_session_id()
            now = mem.time.time()
            self.rows[sid] = {"ci": copy.deepcopy(client_info), "pv": protocol_version, "created": now, "last": now}
            return sid

        def get_session(self, session_id):
            return self._rec(session_id) if session_id in self.rows else None

        def update_activity(self, session_id):
            if session_id in self.rows:
                self.rows[session_id]["last"] = mem.time.time()
                return True
            return False

        def cleanup_expired(self, max_age=3600):
            now = mem.time.time()
            gone = [k for k, r in self.rows.items() if now - r["last"] > max_age]
            for k in gone:
                del self.rows[k]
            return len(gone)

        def list_sessions(self):
            return {k: self._rec(k) for k in self.rows}

        def delete_session(self, session_id):
            return self.rows.pop(session_id, None) is not None

    return Rows()


def run_other_store(ctl: explorer.Ctl, cfg: Dict[str, Any]) -> Dict[str, Any]:
    from chuk_mcp.protocol.messages.json_rpc_message import parse_message

    kind, what, when = OTHER_STORES[cfg["store"]], STORE_MESSAGES[cfg["msg"]], cfg["when"]
    viol: List[dict] = []

    def bad(cls, msg, **extra):
        viol.append({"sig": {"class": cls, "store": kind, "message": what, **extra},
                     "msg": f"handler.session_manager = {kind}; {what} carrying the session id, sent {when} s after initialize: {msg}"})

    with Seams() as sm_seams:
        sm_seams.reset()
        clock = sm_seams.clock
        handler = _factory()()
        handler.session_manager = make_other_store(kind)
        store = handler.session_manager
        outcome = {"v": ""}

        async def main():
            init = {"jsonrpc": "2.0", "id": 1, "method": "initialize",
                    "params": {"protocolVersion": "2025-06-18", "capabilities": {}, "clientInfo": {"name": "c"}}}
            sid = (await handler.handle_message(parse_message(init), None))[1]
            other = (await handler.handle_message(parse_message(init), None))[1]
            if not isinstance(sid, str) or store.get_session(sid) is None:
                bad("no-session-recorded", "initialize recorded nothing in the plugged-in store")
                return
            clock.now += when
            wire = {"ping": {"jsonrpc": "2.0", "id": 2, "method": "ping"}, "unknown-method": {"jsonrpc": "2.0", "id": 2, "method": "no/such"},
                    "notification": {"jsonrpc": "2.0", "method": "notifications/initialized"},
                    "second-initialize": dict(init, id=2),
                    "tools-less-request-with-params": {"jsonrpc": "2.0", "id": 2, "method": "tools/list", "params": {"cursor": None}},
                    "no-message": None}[what]
            if wire is not None:
                try:
                    await handler.handle_message(parse_message(wire), sid)
                except Exception as e:  # noqa: BLE001
                    bad("dispatch-raised", f"raised {type(e).__name__}: {str(e)[:80]}")
                    return
                rec = store.get_session(sid)
                if rec is None or rec.last_activity != clock.now:
                    bad("dispatch-did-not-refresh-activity", f"the store's record says last_activity="
                                                             f"{getattr(rec, 'last_activity', None)} at now={clock.now}")
            # 10.5 s after initialize: whoever was not heard from since is idle for longer than 10 s
            clock.now = T0 + 10.5
            removed = store.cleanup_expired(10)
            alive = store.get_session(sid) is not None
            used = wire is not None and (10.5 - when) <= 10      # idle at the sweep = 10.5 - when; expired iff idle > 10
            if used and not alive:
                bad("active-session-expired", f"the session was used {10.5 - when} s ago and cleanup_expired(10) removed it "
                                              f"({removed} removed)")
            if not used and alive:
                bad("wrong-expiry", f"the session was last used {10.5 - (when if wire is not None else 0)} s ago and is still there",
                    detail="kept:idle>max_age")
            if store.get_session(other) is not None:
                bad("wrong-expiry", "the other session, never used for 10.5 s, is still there", detail="kept:idle>max_age")
            outcome["v"] = f"{'alive' if alive else 'expired'}"

        loop = new_loop(horizon=5)
        status, val = loop.run_main(main())
        errors = loop.collect_errors()
        loop.abandon()
    if status != "ok":
        raise core.HarnessError(f"other store {cfg} did not complete: {status} {val!r}")
    if errors:
        raise core.HarnessError(f"other store {cfg}: event loop reported {errors[:2]}")
    return {"outcome": outcome["v"], "violations": viol[:2]}


def other_store_configs() -> List[Dict[str, Any]]:
    return [{"store": s_, "msg": m, "when": w} for s_ in range(len(OTHER_STORES)) for m in range(len(STORE_MESSAGES))
            for w in (0.25, 0.5, 5.0, 9.5, 10.0)]


def run(tier: str, only=None) -> core.Result:
    res = core.Result("C19", "model_checking")
    depth = 5 if tier == "quick" else 6
    if only:
        try:
            depth = int(only)
        except ValueError:
            pass
    extra = 0 if tier == "quick" else 1
    r = bfs(res, depth, extra)
    lcfgs = long_configs(tier)
    outl = explorer.explore(RUN_LONG, lcfgs)
    sched.absorb(res, "long-runs-on-one-store", RUN_LONG, outl, lcfgs, min_outcomes=1)
    ncfgs = near_configs()
    outn = explorer.explore(RUN_NEAR, ncfgs)
    sched.absorb(res, "near-miss-session-ids", RUN_NEAR, outn, ncfgs, min_outcomes=1)
    ocfgs = other_store_configs()
    outo = explorer.explore(RUN_STORES, ocfgs)
    sched.absorb(res, "other-session-stores-behind-the-handler", RUN_STORES, outo, ocfgs)
    chcfgs = [{"flag": f, "depth": 3 if tier == "quick" else 4} for f in range(len(CHILD_FLAGS))]
    outch = explorer.explore(RUN_CHILD, chcfgs, workers=2)
    sched.absorb(res, "interpreter-with-assertions-disabled", RUN_CHILD, outch, chcfgs, min_outcomes=1)
    res.coverage["child_interpreter_executions"] = res.parts["interpreter-with-assertions-disabled"]["counters"].get(
        "child-interpreter-executions", 0)
    mcfgs = misc_configs()
    outm = explorer.explore(RUN_MISC, mcfgs)
    sched.absorb(res, "independent-records-and-mass-expiry", RUN_MISC, outm, mcfgs)
    sched.debug_pass(res, "independent-records-and-mass-expiry", RUN_MISC, mcfgs, every=1)
    ccfgs = concurrent_configs()
    outc = explorer.explore(RUN_CONC, ccfgs)
    sched.absorb(res, "concurrent-dispatches", RUN_CONC, outc, ccfgs)
    outcomes = set()
    for p in res.parts.values():
        outcomes |= set(p["outcomes"])
    if len(outcomes) < 2 and not res.harness_errors and not res.violations:
        res.harness_errors.append(f"vacuous exploration: outcomes={sorted(outcomes)}")
    cov = res.coverage
    cov["states"] = max(1, r["states"])
    cov["transitions"] = r["totals"]["transitions"]
    cov["traces_validated_against_impl"] = r["totals"]["executions"]
    cov["evaluations"] = r["totals"]["executions"]
    cov["distinct_nontrivial"] = max(1, r["states"])
    cov["max_depth"] = max((p["depth"] for p in r["per_depth"]), default=0)
    cov["per_depth"] = r["per_depth"]
    cov["states_reached_by_more_than_one_history"] = r["multi"]
    cov["arrivals_at_known_state_by_state_changing_op"] = r["totals"]["duplicate_arrivals"]
    cov["arrivals_at_own_state_by_state_preserving_op"] = r["self_loop_arrivals"]
    cov["histories_disagreeing_on_a_shared_state"] = r["disagreements"]
    cov["all_histories_reaching_a_shared_state_agree"] = r["disagreements"] == 0 and not res.violations
    cov["unexpanded_states_at_max_depth"] = r["last_frontier"]
    cov["operations"] = len(OPS)
    cov["long_run_steps"] = res.parts.get("long-runs-on-one-store", {}).get("counters", {}).get("long-run-steps", 0)
    cov["near_miss_id_executions"] = res.parts.get("near-miss-session-ids", {}).get("executions", 0)
    cov["concurrent_dispatch_executions"] = res.parts.get("concurrent-dispatches", {}).get("executions", 0)
    # which expiry boundary relations were exercised (cleanup as the last operation of an execution), per max_age
    exp: Dict[str, int] = {}
    for p in res.parts.values():
        for k, n in p.get("counters", {}).items():
            if k.startswith("expiry-case:"):
                exp[k[len("expiry-case:"):]] = exp.get(k[len("expiry-case:"):], 0) + n
    cov["expiry_boundary_cases"] = dict(sorted(exp.items()))
    if depth >= 5 and not res.harness_errors and not res.violations:
        need = [f"max_age={a}:{r}" for a in (10, "default") for r in
                ("idle=max_age-fraction", "idle==max_age", "idle=max_age+fraction")] + \
               ["max_age=0:idle==max_age", "max_age=0:idle=max_age+fraction"]
        missing = [n for n in need if not exp.get(n)]
        if missing:
            res.harness_errors.append(f"expiry boundary cases never reached: {missing}")
    cov["exhaustive"] = True
    cov["samples"] = r["samples"] or [{"history": [], "depth": 0}]
    cov["rule"] = (
        f"breadth-first over all operation histories of length <= {depth} over {len(OPS)} operations: on the first handler {{create(c) x3, "
        "initialize via handle_message (supported / unsupported / absent version) x3 without session id and x9 carrying the id "
        "of session #0 / #1 / a never-issued id, get/update_activity/delete/"
        "ping-with-session-id over every issued id and a never-issued one, cleanup_expired(0 | 10 | default), "
        "list_sessions + mutate the returned dict (add | delete | clear), clear_all_sessions, advance the (fractional) clock "
        "by 0.5 | 9.5 | 3599.5 from a start at x.25, "
        "replace the handler's store by a fresh one (once), create / initialize right after random.seed(42) or after "
        "random.setstate(state at the start), the clock stepping back by 5 / 100 s, assigning an older (now-100) / newer (now+50) "
        "last_activity to the record object looked up for session #1 / #0 (one such disturbance of the time order per history)}}; and on a SECOND ProtocolHandler alive next to the first {{create, initialize, delete, clear}} whose store must stay its own "
        f"(both public views are compared with two independent model maps); at most {MAX_IDS} + {MAX_IDS_B} ids issued per history; "
        + (f"one more level (length {depth + extra}) extends the histories made only of the first handler's plain operations (no second handler, store "
           "replacement, random re-seeding, clock step back or assigned stamp) by those operations; " if extra else "") +
        "every execution first checks that handlers built after a throw-away handler already holds a session start EMPTY; every history+op is one fresh execution on the real ProtocolHandler/"
        "SessionManager compared step by step with a dict model; state = (ids issued, sorted (issue index, client info, "
        "version, age since creation, idle time)); a state is extended once, by the first history (BFS order) that reaches it; "
        "distinct_nontrivial = distinct canonical states.  Concurrent part (choice-point exploration on the virtual loop): one or two "
        "dispatches of a registered handler that suspends and then raises or returns (with / without a session id), and one other "
        "operation (initialize, two initializes, create_session, ping with a session id, delete_session, initialize then delete) placed "
        "at every point of every interleaving of {start i, release i}: afterwards the store holds exactly the sessions of the "
        "completed operations.  Long runs: 255 / 256 / 257 / 511 / 512 / 513 / 1024 / 4096 creations (create_session, initialize, "
        "alternating) on one store with deletions keeping the live set small and one quiet session idle for 59 min / 2 h / 25 h: after "
        "every step count and membership follow the map.  Near-miss ids: 14 forms of a live id (trailing LF / CRLF / blank / tab / NBSP / "
        "U+2028, leading or surrounding blanks, upper-cased, NUL appended, a character dropped, doubled, as bytes) x get / update / "
        "delete / ping / initialize / unknown method with that id, at once and after 9.5 s: nothing is found, refreshed, deleted or "
        "created, and the live session still expires by its own idle time.  Records: initialize without clientInfo / capabilities twice "
        "on one handler, once on another, once with clientInfo; writing into one record's client_info / metadata in place leaves the "
        "other records and a later handler's initialize as they were.  One sweep over 1 / 19 / 20 / 21 / 30 / 100 / 1000 expired and 2 "
        "fresh sessions removes exactly the expired ones - also with the library's logging at DEBUG.  Other stores behind the handler (stock, a subclass returning deep "
        "copies, an independent BaseSessionManager keeping rows as dicts): ping / unknown method / notification / second initialize / "
        "request with params carrying the session id 0.25 / 0.5 / 5 / 9.5 / 10 s after initialize, then cleanup 10.5 s after it: the store's "
        "record is refreshed and the session survives exactly when it was used within the limit.  Child interpreters started with -O "
        "and -OO run a sequential search to depth 3 (thorough 4) plus the mass-expiry and near-miss batteries"
    )
    res.assumptions = [
        "two ProtocolHandler objects built with the same arguments are independent servers: a session created through one is "
        "not visible through the other, and a new handler's store is empty",
        "canonicalisation: issue index replaces the opaque id and ages replace absolute times - sound if no operation inspects "
        "the id's characters or the absolute clock value (expiry is specified on now - last_activity only)",
        "ids must be unique whatever the application does with the process-wide random module (random.seed(42) / setstate of an "
        "earlier state right before an id is issued); the uuid stub hands out distinct values, so uniqueness never rests on it",
        "uuid.uuid4 and the session module's time are the only sources of ids / time (stubbed; the check fails as a harness "
        "error if the clock stub is never read)",
        "dispatching a request (ping, or a second initialize) that carries the id of a live session is activity of that session "
        "(last_activity = now) - also after the application replaced handler.session_manager by a fresh store; with an unknown "
        "id it must not create a session; "
        "an initialize carrying a session id must still create exactly one NEW session and leave the carried one's record alone",
        "which protocolVersion initialize answers is C04's subject: the model records the answered version",
        "an initialize answered with an error ends the history unjudged (does not occur on this tree unless counted)",
        "mutating the *records* inside a listing is not covered (the statement speaks of adding/removing entries); assigning "
        "last_activity on the record returned by get_session changes the stored session (the built-in store hands out its records; "
        "the repository's own suite ages sessions this way)",
        "the clock may step backwards: expiry is still judged on now - last_activity at the time of cleanup",
    ]
    return res
