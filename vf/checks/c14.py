"""C14 - deadlines, cancellation and progress behave the same under any traffic.

Engine: E-SCHED.  Driver: the real ``send_message`` with a CancellationToken
and/or a progress callback on the virtual loop.  The schedule (when the token is
triggered, when the response arrives, which background traffic flows, which
progress notifications arrive and where the callback raises) is enumerated
completely over a 10 ms grid around every poll boundary and the deadline, with
both tie orders whenever an environment event lands on a library timer.
Oracle: a relation - exactly what the statement promises, no more.
"""
from __future__ import annotations

import itertools
import math
from typing import Any, Dict, List, Optional

import anyio

from .. import core, explorer, sched
from ..vloop import EPS, new_loop

RUN = "vf.checks.c14:run_one"
POLL = 0.5
RID = "rq-14"


def grid(T: float, fine: bool) -> List[List[Any]]:
    """[time, rank] placements: 10 ms grid within +-30 ms (quick: +-10 ms) of every poll
    boundary and of the deadline, plus +-eps and both tie orders exactly on them."""
    ds = [-0.03, -0.02, -0.01, 0.01, 0.02, 0.03] if fine else [-0.01, 0.01]
    anchors = [k * POLL for k in range(1, int(math.floor((T + POLL) / POLL)) + 1)]
    anchors.append(T)
    pts = {}
    for a in anchors:
        for d in ds + [-EPS, EPS]:
            t = round(a + d, 9)
            if t > 0:
                pts[(t, 0)] = [t, 0]
        pts[(round(a, 9), -1)] = [round(a, 9), -1]
        pts[(round(a, 9), 1)] = [round(a, 9), 1]
    pts[(EPS, 0)] = [EPS, 0]
    pts[(0.25, 0)] = [0.25, 0]
    return [pts[k] for k in sorted(pts)]


def run_one(ctl: explorer.Ctl, cfg: Dict[str, Any]) -> Dict[str, Any]:
    from chuk_mcp.protocol.messages.json_rpc_message import parse_message
    from chuk_mcp.protocol.messages.send_message import (CancellationToken, CancelledError, send_message)
    from chuk_mcp.protocol.types.errors import NonRetryableError, RetryableError

    T = cfg["T"]
    traffic = cfg.get("traffic", "none")
    c = cfg.get("cancel")     # None | "pre" | [time, rank]
    r = cfg.get("response")   # None | [time, rank]
    prog = cfg.get("progress") or []   # list of [kind, time]; kind in M (matching), F (foreign), M0 (matching, no fields)
    raise_at = cfg.get("cb_raise_at")
    use_token = cfg.get("token", True)
    use_cb = bool(prog) or cfg.get("cb", False)
    loop = new_loop(horizon=4 * T + 5)
    viol: List[dict] = []
    with sched.patched_uuid() as stub:
        probe = sched.UuidStub()
        ptoken = str(probe()) if use_cb else None
        token = CancellationToken() if use_token else None
        cb_calls: List[list] = []
        arrivals: List[tuple] = []
        st: Dict[str, Any] = {}

        async def cb(progress, total, message):
            i = len(cb_calls)
            cb_calls.append([progress, total, message])
            if raise_at is not None and i == raise_at:
                raise RuntimeError("callback failed")

        def wire_token():
            """The progress token as it actually went out on the wire (read from the written request)."""
            if "wire_req" not in st:
                try:
                    while True:
                        m = st["recv_w"].receive_nowait()
                        st.setdefault("early", []).append(m)
                        if getattr(m, "method", None) == "tools/call" and "wire_req" not in st:
                            st["wire_req"] = m.model_dump(exclude_none=True)
                except Exception:
                    pass
            req = st.get("wire_req") or {}
            return ((req.get("params") or {}).get("_meta") or {}).get("progressToken")

        def deliver(wire, tag):
            if tag in ("M", "M0"):
                wire = dict(wire, params=dict(wire["params"], progressToken=wire_token()))
            arrivals.append((loop.time(), tag))
            try:
                st["send_r"].send_nowait(parse_message(wire))
            except anyio.WouldBlock:
                pass

        def note(i):
            return {"jsonrpc": "2.0", "method": "notifications/message", "params": {"data": f"bg{i}"}}

        def do_cancel():
            st["t_cancel"] = loop.time()
            token.cancel()

        async def main():
            wb = cfg.get("write_buffer")
            send_w, recv_w = anyio.create_memory_object_stream(math.inf if wb is None else wb)
            send_r, recv_r = anyio.create_memory_object_stream(math.inf)
            st["send_r"], st["recv_w"] = send_r, recv_w
            if wb == 0:
                # the peer takes the request and then stops reading (congested outgoing side)
                async def take_one():
                    m = await recv_w.receive()
                    st.setdefault("early", []).append(m)
                import asyncio as _a
                st["peer"] = _a.ensure_future(take_one())
            t0 = loop.time()
            resp = {"jsonrpc": "2.0", "id": RID, "result": {"ok": True}}

            def sched_cancel():
                if c == "pre":
                    st["t_cancel"] = t0
                    token.cancel()
                elif c is not None:
                    loop.env_call_at(t0 + c[0], c[1], do_cancel)

            def sched_resp():
                if r is not None:
                    loop.env_call_at(t0 + r[0], r[1], deliver, resp, "R")

            # identical (time, rank): creation order decides which fires first - made explicit
            if cfg.get("first", "c") == "r":
                sched_resp()
                sched_cancel()
            else:
                sched_cancel()
                sched_resp()
            if traffic == "burst":
                for i in range(5):
                    loop.env_call_at(t0 + 0.2, 0, deliver, note(i), "N")
            elif traffic == "flood":
                k = 1
                while k * 0.01 <= T + 0.6:
                    loop.env_call_at(t0 + round(k * 0.01, 9), 0, deliver, note(k), "N")
                    k += 1
            for i, (kind, t) in enumerate(prog):
                params = {"progressToken": ptoken if kind in ("M", "M0") else "foreign"}
                if kind != "M0":
                    params.update({"progress": i + 1, "total": 10, "message": f"m{i}"})
                loop.env_call_at(t0 + t, 0, deliver,
                                 {"jsonrpc": "2.0", "method": "notifications/progress", "params": params}, kind)
            kw: Dict[str, Any] = {"timeout": T, "message_id": RID}
            if token is not None:
                kw["cancellation_token"] = token
            if use_cb:
                kw["progress_callback"] = cb
            try:
                pm = cfg.get("params_meta")
                call_params: Dict[str, Any] = {"name": "t"}
                if pm == "stale-token":
                    call_params["_meta"] = {"progressToken": "stale-from-an-earlier-call", "trace": "x"}
                elif pm == "other-meta":
                    call_params["_meta"] = {"trace": "x"}
                val = await send_message(recv_r, send_w, "tools/call", call_params, **kw)
                out = ("result", sched.jsonable(val))
            except CancelledError as e:
                out = ("cancelled", str(e))
            except TimeoutError:
                out = ("timeout", None)
            except (RetryableError, NonRetryableError) as e:
                out = ("error", str(e))
            except BaseException as e:  # noqa: BLE001
                out = ("other-exc", repr(e)[:200])
            return out, loop.time() - t0

        c_eff = c
        status, val = loop.run_main(main())
        errors = loop.collect_errors()
        writes = list(st.get("early", []))
        try:
            while True:
                writes.append(st["recv_w"].receive_nowait())
        except Exception:
            pass
        leftover = len(loop.leftover_tasks())
        loop.abandon()

    obs: Dict[str, Any] = {"status": status}
    if status != "ok":
        obs["outcome"] = status
        obs["violations"] = [{"sig": {"class": "did-not-finish", "status": status},
                              "msg": f"cfg={cfg}: send_message did not complete: {status} {core.clean_repr(val)}"}]
        return obs
    (okind, oval), done = val
    obs.update({"outcome": okind, "done": round(done, 7)})
    wd = []
    for m in writes:
        try:
            wd.append(m.model_dump(exclude_none=True))
        except Exception:
            wd.append(repr(m))
    obs["writes"] = [w.get("method") if isinstance(w, dict) else "?" for w in wd]
    obs["cb"] = cb_calls

    def bad(cls, msg, **extra):
        viol.append({"sig": {"class": cls, **extra}, "msg": f"cfg={cfg}: {msg} [outcome={okind} at {done}]"})

    tc: Optional[float] = None
    if c_eff == "pre":
        tc = 0.0
    elif c_eff is not None:
        tc = c_eff[0]
    tr = r[0] if r is not None else None
    tol = 1e-9

    # ---- completion time never later than the deadline -------------------------------
    if done > T + tol:
        bad("late-completion", f"completed at {done}, deadline {T}")

    cancelled_notes = [w for w in wd if isinstance(w, dict) and w.get("method") == "notifications/cancelled"]
    requests = [w for w in wd if isinstance(w, dict) and w.get("method") == "tools/call"]

    congested = cfg.get("write_buffer") is not None
    if congested:
        if okind == "result":
            bad("result-without-response", "result returned although no response was sent")
        elif okind not in ("timeout", "cancelled"):
            bad("unexpected-outcome", f"{okind}: {oval}")
        obs["violations"] = viol
        return obs
    if c_eff == "pre":
        if okind != "cancelled":
            bad("pre-cancel-not-raised", "token was cancelled before the call but the call did not raise CancelledError")
        if requests:
            bad("pre-cancelled-request-sent", "request was written although the token was already cancelled")
    else:
        if len(requests) != 1:
            bad("request-count", f"{len(requests)} requests written")
        if okind == "result":
            if tr is None or tr > T + tol:
                bad("result-without-response", f"result returned but response time was {tr}")
            elif abs(done - tr) > tol:
                bad("result-at-wrong-time", f"result at {done}, response arrived at {tr}")
            elif tc is not None and tr > tc + POLL + tol:
                bad("cancel-ignored", f"cancel at {tc}, response only at {tr} (> one poll later) yet the call returned it")
        elif okind == "cancelled":
            if tc is None:
                bad("cancelled-without-cancel", "CancelledError although the token was never triggered")
            else:
                if done < tc - tol or done > min(tc + POLL, T) + tol:
                    bad("cancel-latency", f"cancel at {tc}, CancelledError at {done} (allowed: within one poll and before the deadline)")
                if tr is not None and tr < tc - tol:
                    bad("cancelled-after-response", f"response had arrived at {tr} before cancel at {tc}")
        elif okind == "timeout":
            if abs(done - T) > tol:
                bad("timeout-at-wrong-time", f"TimeoutError at {done}, deadline {T}")
            if tr is not None and tr < T - tol:
                bad("lost-response", f"TimeoutError although the response arrived at {tr} < {T}")
            if tc is not None and tc + POLL < T - tol and (tr is None or tr > tc + POLL + tol):
                bad("cancel-not-honoured", f"cancel at {tc}: expected CancelledError by {tc + POLL}, got TimeoutError at {T}")
        else:
            bad("unexpected-outcome", f"{okind}: {oval}")

    # ---- cancelled notification: exactly one iff the outcome is CancelledError ------------
    if okind == "cancelled":
        if len(cancelled_notes) != 1:
            bad("cancelled-notification-count", f"{len(cancelled_notes)} cancelled notifications for a cancelled request")
        elif cancelled_notes[0].get("params", {}).get("requestId") != RID:
            bad("cancelled-notification-wrong-id", f"{cancelled_notes[0]}")
    elif cancelled_notes:
        bad("spurious-cancelled-notification", f"{len(cancelled_notes)} cancelled notifications but outcome {okind}")
    other = [w for w in wd if w not in cancelled_notes and w not in requests]
    if other:
        bad("unexpected-write", f"{other[:2]}")

    # ---- progress: exactly once per matching notification that arrived before completion ---
    if use_cb:
        exp = []
        for i, (kind, t) in enumerate(prog):
            if kind not in ("M", "M0"):
                continue
            item = [i + 1, 10, f"m{i}"] if kind == "M" else None
            if t < done - tol:
                exp.append(("must", item))
            elif abs(t - done) <= tol:
                exp.append(("may", item))
        got = list(cb_calls)
        gi = 0
        ok = True
        for need, item in exp:
            if gi < len(got) and (item is None or got[gi] == item):
                if item is None and got[gi][1:] != [None, None]:
                    ok = False
                gi += 1
            elif need == "must":
                ok = False
        if gi != len(got):
            ok = False
        if not ok:
            bad("progress-callback-mismatch", f"callback calls {got}, progress stream {prog}")
    if errors:
        bad("loop-error", f"{errors[:2]}")
    if leftover:
        bad("leftover-tasks", f"{leftover} tasks pending")
    obs["violations"] = viol
    return obs


def configs_for(tier: str):
    fine = True
    thorough = tier == "thorough"
    parts: Dict[str, list] = {}
    # (1) cancel x response placements x traffic
    g = []
    for T in ((0.3, 1.0, 1.2, 2.2) if thorough else (0.3, 1.0, 1.2)):
        pts = grid(T, fine)
        cancels = [None, "pre"] + pts
        resps = [None] + pts
        traffics = ["none", "burst", "flood"]
        for tr in traffics:
            if tr == "flood" and not thorough:
                # quick: flood on the coarser sub-grid
                cs = [None, "pre"] + [p for p in pts if p[1] != 0 or abs(p[0] * 100 - round(p[0] * 100)) > 1e-6]
                rs = [None] + [p for p in pts if p[1] != 0 or abs(p[0] * 100 - round(p[0] * 100)) > 1e-6]
            else:
                cs, rs = cancels, resps
            for c in cs:
                for r in rs:
                    if c == "pre" and r is not None and r != rs[1]:
                        continue
                    cfg = {"T": T, "traffic": tr, "cancel": c, "response": r}
                    if c is not None and c != "pre" and c == r:
                        g.append(dict(cfg, first="c"))
                        g.append(dict(cfg, first="r"))
                    else:
                        g.append(cfg)
    parts["cancel-x-response-x-traffic"] = g
    # (2) progress streams
    g = []
    kinds = ["M", "F", "M0"]
    times = [0.1, 0.49, 0.5, 0.75] if not thorough else [0.1, 0.3, 0.49, 0.5, 0.75, 0.8]
    maxlen = 3 if not thorough else 4
    for T in (1.2,):
        for L in range(0, maxlen + 1):
            for ks in itertools.product(kinds, repeat=L):
                for ts in itertools.combinations_with_replacement(times, L):
                    prog = [[k, t] for k, t in zip(ks, ts)]
                    nmatch = sum(1 for k in ks if k != "F")
                    for ra in [None] + list(range(nmatch)):
                        for end in ("response", "timeout", "cancel"):
                            cfg = {"T": T, "traffic": "none", "progress": prog, "cb": True, "cb_raise_at": ra}
                            if L and nmatch:
                                cfg["params_meta"] = ["stale-token", "other-meta", None][(L + len(g)) % 3]
                            if end == "response":
                                cfg.update(response=[0.8, 0], cancel=None)
                            elif end == "cancel":
                                cfg.update(response=None, cancel=[0.3, 0])
                            else:
                                cfg.update(response=None, cancel=None)
                            g.append(cfg)
    parts["progress-streams"] = g
    # (3) no token at all (deadline only) under each traffic
    g = []
    for T in (0.3, 1.0, 1.2):
        for tr in ("none", "burst", "flood"):
            for r in [None] + grid(T, fine):
                g.append({"T": T, "traffic": tr, "cancel": None, "response": r, "token": False})
    parts["deadline-only"] = g
    # (4) congested outgoing side: the cancelled notification cannot be written; the deadline must still hold
    g = []
    for T in (0.3, 1.0, 1.2):
        for wb in (0, 1):
            for c in [[0.1, 0], [0.25, 0], [T - 0.05, 0]]:
                for tr in ("none", "burst"):
                    g.append({"T": T, "traffic": tr, "cancel": c, "response": None, "write_buffer": wb})
    parts["congested-write-stream"] = g
    return parts


def run(tier: str, only=None) -> core.Result:
    res = core.Result("C14", "model_checking")
    for name, cfgs in configs_for(tier).items():
        if only and name not in only:
            continue
        out = explorer.explore(RUN, cfgs, fidelity=True)
        sched.absorb(res, name, RUN, out, cfgs, min_outcomes=1 if name == "congested-write-stream" else 2)
        sched.debug_pass(res, name, RUN, [c for c in cfgs if c.get("traffic") != "flood"], every=5)
    res.coverage["exhaustive"] = True
    res.coverage["rule"] = (
        "every placement of {cancel, matching response} on the grid {10 ms steps within +-30 ms (quick +-10 ms) of each 0.5 s "
        "poll boundary and of the deadline, +-1 us, exactly on them in both tie orders, 'before the call', 'never'} for "
        "T in {0.3,1.0,1.2} x background traffic {none, burst of 5, flood every 10 ms}; every progress stream of <=3 "
        "notifications over {matching, foreign token, matching without fields} x 4 time points x callback raising at each "
        "position x ending {response, timeout, cancel}; distinct = distinct observation digests"
    )
    res.assumptions = [
        "when the response arrives after the token was triggered but within one polling interval, both the result and CancelledError are accepted (the statement's 'unless its response arrived first' does not fix which)",
        "events exactly at the deadline may go either way",
        "write stream is unbounded, so sending the cancelled notification never blocks",
    ]
    return res
