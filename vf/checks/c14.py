"""C14 - deadlines, cancellation and progress behave the same under any traffic.

Engine: E-SCHED.  Driver: the real ``send_message`` with a CancellationToken
and/or a progress callback on the virtual loop.  The schedule (when the token is
triggered, when the response arrives, which background traffic flows, which
progress notifications arrive and where the callback raises) is enumerated
completely over a 10 ms grid around every poll boundary and the deadline, with
both tie orders whenever an environment event lands on a library timer.
Oracle: a relation - exactly what the statement promises, no more.
"""
from __future__ import annotations

import itertools
import math
from typing import Any, Dict, List, Optional

import anyio

from .. import core, explorer, sched
from ..vloop import EPS, new_loop

RUN = "vf.checks.c14:run_one"
POLL = 0.5
RID = "rq-14"


def grid(T: float, fine: Any) -> List[List[Any]]:
    """[time, rank] placements: 10 ms grid within +-30 ms (quick: +-10 ms) of every poll
    boundary and of the deadline, plus +-eps and both tie orders exactly on them."""
    ds = [-0.03, -0.02, -0.01, 0.01, 0.02, 0.03] if fine else [-0.01, 0.01]
    if fine == "finer":
        ds = [round(-0.05 + 0.01 * i, 2) for i in range(11) if i != 5]
    anchors = [k * POLL for k in range(1, int(math.floor((T + POLL) / POLL)) + 1)]
    anchors.append(T)
    pts = {}
    for a in anchors:
        for d in ds + [-EPS, EPS]:
            t = round(a + d, 9)
            if t > 0:
                pts[(t, 0)] = [t, 0]
        pts[(round(a, 9), -1)] = [round(a, 9), -1]
        pts[(round(a, 9), 1)] = [round(a, 9), 1]
    pts[(EPS, 0)] = [EPS, 0]
    pts[(0.25, 0)] = [0.25, 0]
    return [pts[k] for k in sorted(pts)]


CB_EXCS = ["RuntimeError", "TimeoutError", "asyncio.TimeoutError", "KeyError", "ConnectionError", "anyio.EndOfStream",
           "anyio.ClosedResourceError", "anyio.WouldBlock", "StopAsyncIteration", "library.CancelledError",
           "library.RetryableError", "ValidationError-like", "str-raises"]


def _cb_exception(name: str) -> BaseException:
    """What a failing progress callback raises: any Exception the user's code can run into."""
    import asyncio

    if name == "library.CancelledError":
        from chuk_mcp.protocol.messages.send_message import CancelledError
        return CancelledError("callback gave up")
    if name == "library.RetryableError":
        from chuk_mcp.protocol.types.errors import RetryableError
        return RetryableError("callback failed", -32000)
    if name == "ValidationError-like":
        return ValueError("1 validation error for X\nfield required")
    if name == "str-raises":
        class _Unprintable(Exception):
            def __str__(self):
                raise RuntimeError("no text")
        return _Unprintable()
    table = {"RuntimeError": RuntimeError, "TimeoutError": TimeoutError, "asyncio.TimeoutError": asyncio.TimeoutError,
             "KeyError": KeyError, "ConnectionError": ConnectionError, "anyio.EndOfStream": anyio.EndOfStream,
             "anyio.ClosedResourceError": anyio.ClosedResourceError, "anyio.WouldBlock": anyio.WouldBlock,
             "StopAsyncIteration": StopAsyncIteration}
    return table[name]("callback failed") if name not in ("anyio.EndOfStream", "anyio.ClosedResourceError", "anyio.WouldBlock") else table[name]()


CB_FORMS = ["async-def", "object-with-async-call", "lambda-forwarding", "functools.partial", "plain-def-decorator",
            "bound-async-method", "AsyncMock"]


def _cb_in_form(cb, form: str):
    """The same callback handed over as each kind of awaitable-returning callable an application may use."""
    import functools

    if form == "async-def":
        return cb
    if form == "object-with-async-call":
        class _Obj:
            async def __call__(self, progress, total, message):
                return await cb(progress, total, message)
        return _Obj()
    if form == "lambda-forwarding":
        return lambda p, t, m: cb(p, t, m)
    if form == "functools.partial":
        async def with_extra(tag, progress, total, message):
            return await cb(progress, total, message)
        return functools.partial(with_extra, "tag")
    if form == "plain-def-decorator":
        def deco(f):
            @functools.wraps(f)
            def wrapper(*a, **k):
                return f(*a, **k)
            return wrapper
        return deco(cb)
    if form == "bound-async-method":
        class _Holder:
            async def on_progress(self, progress, total, message):
                return await cb(progress, total, message)
        return _Holder().on_progress
    if form == "AsyncMock":
        from unittest.mock import AsyncMock
        return AsyncMock(side_effect=cb)
    raise KeyError(form)


def run_one(ctl: explorer.Ctl, cfg: Dict[str, Any]) -> Dict[str, Any]:
    from chuk_mcp.protocol.messages.json_rpc_message import parse_message
    from chuk_mcp.protocol.messages.send_message import (CancellationToken, CancelledError, send_message)
    from chuk_mcp.protocol.types.errors import NonRetryableError, RetryableError

    T = cfg["T"]
    traffic = cfg.get("traffic", "none")
    c = cfg.get("cancel")     # None | "pre" | [time, rank]
    r = cfg.get("response")   # None | [time, rank]
    prog = cfg.get("progress") or []   # list of [kind, time]; kind in M (matching), F (foreign), M0 (matching, no fields)
    raise_at = cfg.get("cb_raise_at")
    use_token = cfg.get("token", True)
    use_cb = bool(prog) or cfg.get("cb", False)
    METHOD = cfg.get("method", "tools/call")
    cb_takes = cfg.get("cb_takes")
    wcl = cfg.get("write_closes")   # None | [who, time]: who closes the outgoing stream ("owner" = our end, "peer" = the reader), when (-1: before the call)
    loop = new_loop(horizon=4 * T + 5)
    viol: List[dict] = []
    with sched.patched_uuid() as stub:
        probe = sched.UuidStub()
        ptoken = str(probe()) if use_cb else None
        token = CancellationToken() if use_token else None
        user_cb_calls: List[str] = []

        def user_cb(kind, name):
            def f():
                user_cb_calls.append(name)
                if kind == "raise":
                    raise RuntimeError(f"user callback {name} failed")
            return f

        if token is not None:
            for i, kind in enumerate(cfg.get("token_cbs") or []):
                token.add_callback(user_cb(kind, f"early{i}"))
        cb_calls: List[list] = []
        arrivals: List[tuple] = []
        st: Dict[str, Any] = {}

        async def cb(progress, total, message):
            i = len(cb_calls)
            cb_calls.append([progress, total, message])
            if raise_at is not None and i == raise_at:
                raise _cb_exception(cfg.get("cb_exc", "RuntimeError"))
            if cb_takes is not None:
                # the caller's callback awaits something of its own (a UI queue, a log sink) for this long
                if cb_takes == "inf":
                    await anyio.sleep_forever()
                await anyio.sleep(cb_takes)

        def wire_token():
            """The progress token as it actually went out on the wire (read from the written request)."""
            if "wire_req" not in st:
                try:
                    while True:
                        m = st["recv_w"].receive_nowait()
                        st.setdefault("early", []).append(m)
                        if getattr(m, "method", None) == METHOD and "wire_req" not in st:
                            st["wire_req"] = m.model_dump(exclude_none=True)
                except Exception:
                    pass
            req = st.get("wire_req") or {}
            return ((req.get("params") or {}).get("_meta") or {}).get("progressToken")

        def deliver(wire, tag):
            if tag in ("M", "M0"):
                wire = dict(wire, params=dict(wire["params"], progressToken=wire_token()))
            arrivals.append((loop.time(), tag))
            try:
                st["send_r"].send_nowait(parse_message(wire))
            except anyio.WouldBlock:
                pass

        def note(i):
            return {"jsonrpc": "2.0", "method": "notifications/message", "params": {"data": f"bg{i}"}}

        def do_cancel():
            st["t_cancel"] = loop.time()
            token.cancel()

        async def main():
            wb = cfg.get("write_buffer")
            send_w, recv_w = anyio.create_memory_object_stream(math.inf if wb is None else wb)
            send_r, recv_r = anyio.create_memory_object_stream(math.inf)
            st["send_r"], st["recv_w"] = send_r, recv_w
            if wb == 0:
                # the peer takes the request and then stops reading (congested outgoing side)
                async def take_one():
                    m = await recv_w.receive()
                    st.setdefault("early", []).append(m)
                import asyncio as _a
                st["peer"] = _a.ensure_future(take_one())
            def close_write():
                if wcl[0] == "owner":
                    send_w.close()
                else:
                    wire_token()  # take what was written so far (the request) before the reader goes away
                    recv_w.close()

            t0 = loop.time()
            if wcl is not None:
                if wcl[1] < 0:
                    close_write()
                else:
                    loop.env_call_at(t0 + wcl[1], -5, close_write)
            resp = {"jsonrpc": "2.0", "id": RID, "result": {"ok": True}}
            if cfg.get("error_code") is not None:
                resp = {"jsonrpc": "2.0", "id": RID, "error": {"code": cfg["error_code"], "message": "the server refuses"}}

            def sched_cancel():
                if c == "pre":
                    st["t_cancel"] = t0
                    token.cancel()
                elif c is not None:
                    loop.env_call_at(t0 + c[0], c[1], do_cancel)

            def sched_resp():
                if r is not None:
                    loop.env_call_at(t0 + r[0], r[1], deliver, resp, "R")

            if cfg.get("late_cb"):
                def add_late():
                    try:
                        token.add_callback(user_cb(cfg["late_cb"], "late"))
                    except RuntimeError:
                        pass  # registered on an already cancelled token: called at once, fails in the registrant's frame
                loop.env_call_at(t0 + 0.05, 0, add_late)
            # identical (time, rank): creation order decides which fires first - made explicit
            if cfg.get("first", "c") == "r":
                sched_resp()
                sched_cancel()
            else:
                sched_cancel()
                sched_resp()
            if traffic == "burst":
                for i in range(5):
                    loop.env_call_at(t0 + 0.2, 0, deliver, note(i), "N")
            elif traffic == "flood":
                k = 1
                while k * 0.01 <= T + 0.6:
                    loop.env_call_at(t0 + round(k * 0.01, 9), 0, deliver, note(k), "N")
                    k += 1
            for i, (kind, t) in enumerate(prog):
                params = {"progressToken": ptoken if kind in ("M", "M0") else "foreign"}
                if kind != "M0":
                    params.update({"progress": i + 1, "total": 10, "message": f"m{i}"})
                wire_n = {"jsonrpc": "2.0", "method": "notifications/progress", "params": params}
                if kind == "NP":        # a progress notification without a params member at all
                    del wire_n["params"]
                elif kind == "PE":      # ... with an empty params object
                    wire_n["params"] = {}
                elif kind == "PT":      # ... whose token is null / of another JSON type
                    wire_n["params"] = {"progressToken": None, "progress": 1}
                elif kind == "PL":
                    wire_n["params"] = {"progressToken": [ptoken], "progress": 1}
                loop.env_call_at(t0 + t, 0, deliver, wire_n, kind)
            kw: Dict[str, Any] = {"timeout": T, "message_id": RID}
            if token is not None:
                kw["cancellation_token"] = token
            if use_cb:
                kw["progress_callback"] = _cb_in_form(cb, cfg.get("cb_form", "async-def"))
            try:
                pm = cfg.get("params_meta")
                call_params: Dict[str, Any] = {"name": "t"}
                if pm == "stale-token":
                    call_params["_meta"] = {"progressToken": "stale-from-an-earlier-call", "trace": "x"}
                elif pm == "other-meta":
                    call_params["_meta"] = {"trace": "x"}
                val = await send_message(recv_r, send_w, METHOD, call_params, **kw)
                out = ("result", sched.jsonable(val))
            except CancelledError as e:
                out = ("cancelled", str(e))
            except TimeoutError:
                out = ("timeout", None)
            except (RetryableError, NonRetryableError) as e:
                out = ("error", [type(e).__name__, getattr(e, "code", None)])
            except BaseException as e:  # noqa: BLE001
                out = ("other-exc", repr(e)[:200])
            return out, loop.time() - t0

        c_eff = c
        status, val = loop.run_main(main())
        errors = loop.collect_errors()
        writes = list(st.get("early", []))
        try:
            while True:
                writes.append(st["recv_w"].receive_nowait())
        except Exception:
            pass
        leftover = len(loop.leftover_tasks())
        loop.abandon()

    obs: Dict[str, Any] = {"status": status}
    if status != "ok":
        obs["outcome"] = status
        obs["violations"] = [{"sig": {"class": "did-not-finish", "status": status},
                              "msg": f"cfg={cfg}: send_message did not complete: {status} {core.clean_repr(val)}"}]
        return obs
    (okind, oval), done = val
    obs.update({"outcome": okind, "done": round(done, 7)})
    if cfg.get("error_code") is not None and okind == "error":
        # an error ANSWER ends the request like any answer (same timing rules); it must surface as the classified error
        from chuk_mcp.protocol.types.errors import is_retryable_error
        want = ["RetryableError" if is_retryable_error(cfg["error_code"]) else "NonRetryableError", cfg["error_code"]]
        if oval != want:
            viol.append({"sig": {"class": "error-answer-not-the-classified-error"},
                         "msg": f"cfg={cfg}: the answer was error {cfg['error_code']}, the call raised {oval}"})
        okind = "result"
    wd = []
    for m in writes:
        try:
            wd.append(m.model_dump(exclude_none=True))
        except Exception:
            wd.append(repr(m))
    obs["writes"] = [w.get("method") if isinstance(w, dict) else "?" for w in wd]
    obs["cb"] = cb_calls

    def bad(cls, msg, **extra):
        viol.append({"sig": {"class": cls, **extra}, "msg": f"cfg={cfg}: {msg} [outcome={okind} at {done}]"})

    tc: Optional[float] = None
    if c_eff == "pre":
        tc = 0.0
    elif c_eff is not None:
        tc = c_eff[0]
    tr = r[0] if r is not None else None
    tol = 1e-9
    # reference for a callback that takes time: the waiter is one sequential loop, so matching notifications are
    # handled one after the other, each occupying the waiter for cb_takes; everything else queues behind
    busy: List[tuple] = []   # (arrival, start, end) per matching notification
    if cb_takes is not None:
        D = math.inf if cb_takes == "inf" else cb_takes
        end_prev = 0.0
        for i, (kind, t) in enumerate(prog):
            if kind in ("M", "M0"):
                start = max(t, end_prev)
                stops = start if (raise_at is not None and len(busy) == raise_at) else start + D
                busy.append((t, start, stops))
                end_prev = stops

    def free_at(t):
        """when the waiter can next look at anything that became true at time t"""
        e = t
        for (a, b, c2) in busy:
            if a <= t + tol and c2 > e:
                e = c2 if b <= t + tol or a <= t + tol else e
        return e

    tr_seen = free_at(tr) if (tr is not None and busy) else tr
    # the token is looked at between two steps of the waiter (a message handled, a poll expired): a callback of the
    # caller's that is running, or that starts before the next poll, holds the waiter until it ends - that time is
    # the caller's, the polling interval counts from when the waiter is free
    c_bound = None
    if tc is not None:
        c_bound = tc + POLL
        for (a, b, c2) in busy:
            if b <= tc + POLL + tol and c2 > tc:
                c_bound = max(c_bound, c2)

    # ---- completion time never later than the deadline -------------------------------
    if done > T + tol:
        bad("late-completion", f"completed at {done}, deadline {T}")

    cancelled_notes = [w for w in wd if isinstance(w, dict) and w.get("method") == "notifications/cancelled"]
    requests = [w for w in wd if isinstance(w, dict) and w.get("method") == METHOD]

    congested = cfg.get("write_buffer") is not None
    if congested:
        if okind == "result":
            bad("result-without-response", "result returned although no response was sent")
        elif okind not in ("timeout", "cancelled"):
            bad("unexpected-outcome", f"{okind}: {oval}")
        obs["violations"] = viol
        return obs
    if c_eff == "pre":
        if okind != "cancelled":
            bad("pre-cancel-not-raised", "token was cancelled before the call but the call did not raise CancelledError")
        if requests:
            bad("pre-cancelled-request-sent", "request was written although the token was already cancelled")
    else:
        if len(requests) != 1:
            bad("request-count", f"{len(requests)} requests written")
        if okind == "result":
            if tr is None or tr > T + tol:
                bad("result-without-response", f"result returned but response time was {tr}")
            elif abs(done - tr_seen) > tol:
                bad("result-at-wrong-time", f"result at {done}, response arrived at {tr}" + (f" (waiter free at {tr_seen})" if busy else ""))
            elif tc is not None and tr > c_bound + tol:
                bad("cancel-ignored", f"cancel at {tc}, response only at {tr} (> one poll later) yet the call returned it")
        elif okind == "cancelled":
            if tc is None:
                bad("cancelled-without-cancel", "CancelledError although the token was never triggered")
            else:
                if done < tc - tol or done > min(c_bound, T) + tol:
                    bad("cancel-latency", f"cancel at {tc}, CancelledError at {done} (allowed: within one poll and before the deadline)")
                if tr is not None and tr_seen < tc - tol:
                    bad("cancelled-after-response", f"response had arrived at {tr} before cancel at {tc}")
        elif okind == "timeout":
            if abs(done - T) > tol:
                bad("timeout-at-wrong-time", f"TimeoutError at {done}, deadline {T}")
            if tr is not None and tr_seen < T - tol:
                bad("lost-response", f"TimeoutError although the response arrived at {tr} < {T}")
            if tc is not None and c_bound < T - tol and (tr is None or tr > c_bound + tol):
                bad("cancel-not-honoured", f"cancel at {tc}: expected CancelledError by {tc + POLL}, got TimeoutError at {T}")
        else:
            bad("unexpected-outcome", f"{okind}: {oval}")

    # ---- cancelled notification: exactly one iff the outcome is CancelledError ------------
    if okind == "cancelled" and wcl is not None and (wcl[1] < 0 or (tc is not None and wcl[1] <= tc + tol)):
        # the outgoing stream was already closed when the token fired: the notification cannot be delivered
        if cancelled_notes and wcl[0] == "owner":
            bad("cancelled-notification-on-closed-stream", f"{len(cancelled_notes)} notifications although our end was closed")
    elif okind == "cancelled":
        if len(cancelled_notes) != 1:
            bad("cancelled-notification-count", f"{len(cancelled_notes)} cancelled notifications for a cancelled request")
        elif cancelled_notes[0].get("params", {}).get("requestId") != RID:
            bad("cancelled-notification-wrong-id", f"{cancelled_notes[0]}")
    elif cancelled_notes:
        bad("spurious-cancelled-notification", f"{len(cancelled_notes)} cancelled notifications but outcome {okind}")
    other = [w for w in wd if w not in cancelled_notes and w not in requests]
    if other:
        bad("unexpected-write", f"{other[:2]}")
    # ---- progress: exactly once per matching notification that arrived before completion ---
    if use_cb:
        exp = []
        for i, (kind, t) in enumerate(prog):
            if kind not in ("M", "M0"):
                continue
            item = [i + 1, 10, f"m{i}"] if kind == "M" else None
            if busy:
                t = [b for b in busy if b[0] == t][0][1] if len([b for b in busy if b[0] == t]) == 1 else \
                    busy[len([1 for (k2, _t2) in prog[:i] if k2 in ("M", "M0")])][1]   # when the waiter gets to it
            if t < done - tol:
                exp.append(("must", item))
            elif abs(t - done) <= tol:
                exp.append(("may", item))
        got = list(cb_calls)
        gi = 0
        ok = True
        for need, item in exp:
            if gi < len(got) and (item is None or got[gi] == item):
                if item is None and got[gi][1:] != [None, None]:
                    ok = False
                gi += 1
            elif need == "must":
                ok = False
        if gi != len(got):
            ok = False
        if not ok:
            bad("progress-callback-mismatch", f"callback calls {got}, progress stream {prog}")
    if errors:
        bad("loop-error", f"{errors[:2]}")
    if leftover:
        bad("leftover-tasks", f"{leftover} tasks pending")
    obs["violations"] = viol
    return obs


RUN_SHARED = "vf.checks.c14:run_shared"


def run_shared(ctl: explorer.Ctl, cfg: Dict[str, Any]) -> Dict[str, Any]:
    """Several requests under ONE CancellationToken, each on its own connection: 'concurrent' (request k starts
    at starts[k]) or 'sequential' (request k+1 starts when request k ended).  The token is triggered once at
    cfg['cancel'].  Every request is judged on its own, exactly as a single request is."""
    from chuk_mcp.protocol.messages.json_rpc_message import parse_message
    from chuk_mcp.protocol.messages.send_message import (CancellationToken, CancelledError, send_message)
    from chuk_mcp.protocol.types.errors import NonRetryableError, RetryableError
    import asyncio

    T = cfg["T"]
    n = cfg["n"]
    tc, tc_rank = cfg["cancel"]
    loop = new_loop(horizon=(n + 1) * (T + 1) + 5)
    viol: List[dict] = []
    with sched.patched_uuid():
        token = CancellationToken()
        conns: List[tuple] = []
        results: List[Any] = [None] * n
        st: Dict[str, Any] = {}

        def do_cancel():
            st["t_cancel"] = loop.time()
            token.cancel()

        async def one(k: int):
            send_r, recv_r, send_w, recv_w = conns[k]
            t0 = loop.time()
            rt = (cfg.get("responses") or [None] * n)[k]
            if rt is not None:
                loop.env_call_at(t0 + rt, 0, lambda: send_r.send_nowait(
                    parse_message({"jsonrpc": "2.0", "id": f"rq-{k}", "result": {"who": k}})))
            try:
                val = await send_message(recv_r, send_w, "tools/call", {"name": f"t{k}"}, timeout=T,
                                         message_id=f"rq-{k}", cancellation_token=token)
                out = ("result", sched.jsonable(val))
            except CancelledError as e:
                out = ("cancelled", str(e))
            except TimeoutError:
                out = ("timeout", None)
            except (RetryableError, NonRetryableError) as e:
                out = ("error", str(e))
            except BaseException as e:  # noqa: BLE001
                out = ("other-exc", core.clean_repr(e)[:160])
            results[k] = (out, t0, loop.time())

        async def main():
            for _ in range(n):
                send_w, recv_w = anyio.create_memory_object_stream(math.inf)
                send_r, recv_r = anyio.create_memory_object_stream(math.inf)
                conns.append((send_r, recv_r, send_w, recv_w))
            loop.env_call_at(loop.time() + tc, tc_rank, do_cancel)
            if cfg["mode"] == "sequential":
                for k in range(n):
                    await one(k)
            else:
                tasks = []
                for k in range(n):
                    async def later(k=k):
                        if cfg["starts"][k]:
                            await asyncio.sleep(cfg["starts"][k])
                        await one(k)
                    tasks.append(asyncio.ensure_future(later()))
                for t in tasks:
                    await t

        status, val = loop.run_main(main())
        errors = loop.collect_errors()
        writes = []
        for c in conns:
            ws = []
            try:
                while True:
                    ws.append(c[3].receive_nowait().model_dump(exclude_none=True))
            except Exception:  # noqa: BLE001
                pass
            writes.append(ws)
        leftover = len(loop.leftover_tasks())
        loop.abandon()
    if status != "ok":
        return {"outcome": status, "violations": [{"sig": {"class": "did-not-finish", "part": "shared-token", "status": status},
                                                   "msg": f"cfg={cfg}: {status} {core.clean_repr(val)}"}]}
    tol = 1e-9
    t_cancel = st.get("t_cancel")
    summary = []
    for k in range(n):
        (okind, oval), t0, t1 = results[k]
        summary.append(okind)
        rt = (cfg.get("responses") or [None] * n)[k]
        tr = None if rt is None else t0 + rt
        ws = writes[k]
        reqs = [w for w in ws if w.get("method") == "tools/call"]
        notes = [w for w in ws if w.get("method") == "notifications/cancelled"]

        def bad(cls, msg, **extra):
            viol.append({"sig": {"class": cls, "part": "shared-token", "request": "first" if k == 0 else "later", "mode": cfg["mode"], **extra},
                         "msg": f"cfg={cfg}: request {k} (started {t0}): {msg} [outcome={okind} at {t1}; cancel at {t_cancel}; wrote {ws}]"})

        pre = t_cancel is not None and t_cancel < t0 - tol
        at_start = t_cancel is not None and abs(t_cancel - t0) <= tol
        if t1 - t0 > T + tol:
            bad("late-completion", f"completed {t1 - t0} after its start, deadline {T}")
        if pre:
            if okind != "cancelled":
                bad("pre-cancel-not-raised", "the token was already triggered when the call started")
            if reqs:
                bad("pre-cancelled-request-sent", "request written although the token was already triggered")
        else:
            if len(reqs) != 1 and not at_start:
                bad("request-count", f"{len(reqs)} requests written")
            if okind == "result":
                if tr is None or abs(t1 - tr) > tol:
                    bad("result-without-response", f"response time {tr}")
                elif t_cancel is not None and tr > t_cancel + POLL + tol:
                    bad("cancel-ignored", f"response only at {tr}")
            elif okind == "cancelled":
                if t_cancel is None or t1 < t_cancel - tol or t1 > min(t_cancel + POLL, t0 + T) + tol:
                    bad("cancel-latency", "CancelledError outside [cancel, cancel + one poll]")
                if tr is not None and tr < t_cancel - tol:
                    bad("cancelled-after-response", f"response had arrived at {tr}")
            elif okind == "timeout":
                if abs(t1 - t0 - T) > tol:
                    bad("timeout-at-wrong-time", "")
                if tr is not None and tr < t0 + T - tol:
                    bad("lost-response", f"response arrived at {tr}")
                if t_cancel is not None and t_cancel + POLL < t0 + T - tol and t_cancel >= t0 - tol and (tr is None or tr > t_cancel + POLL + tol):
                    bad("cancel-not-honoured", "expected CancelledError within one poll of the cancel")
            else:
                bad("unexpected-outcome", f"{oval}")
        if okind == "cancelled":
            if len(notes) != 1:
                bad("cancelled-notification-count", f"{len(notes)} cancelled notifications for a cancelled request")
            elif notes[0].get("params", {}).get("requestId") != f"rq-{k}":
                bad("cancelled-notification-wrong-id", f"{notes[0]}")
        elif notes:
            bad("spurious-cancelled-notification", f"{len(notes)} cancelled notifications but outcome {okind}")
    if errors:
        viol.append({"sig": {"class": "loop-error", "part": "shared-token"}, "msg": f"{errors[:2]}"})
    if leftover:
        viol.append({"sig": {"class": "leftover-tasks", "part": "shared-token"}, "msg": f"cfg={cfg}: {leftover} tasks pending"})
    return {"outcome": "/".join(summary), "violations": viol}


def shared_configs(tier: str):
    out = []
    T = 1.0
    cancels = [[0.1, 0], [0.25, 0], [0.5, -1], [0.5, 1], [0.6, 0], [0.95, 0]]
    if tier == "thorough":
        cancels += [[0.5 - EPS, 0], [0.5 + EPS, 0], [0.7, -1], [0.7, 1], [1.0, -1], [1.0, 1], [1.3, 0]]
    for c in cancels:
        for n in (2, 3):
            for starts in ([0.0] * n, [0.0, 0.2] + [0.4] * (n - 2), [0.0, 0.2, 0.2][:n]):
                for resp in itertools.product([None, 0.05, 0.8], repeat=n):
                    out.append({"T": T, "n": n, "mode": "concurrent", "starts": list(starts), "cancel": c, "responses": list(resp)})
            for resp in itertools.product([None, 0.05], repeat=n):
                out.append({"T": T, "n": n, "mode": "sequential", "cancel": c, "responses": list(resp)})
    return out


def configs_for(tier: str):
    thorough = tier == "thorough"
    fine = "finer" if thorough else True
    parts: Dict[str, list] = {}
    # (1) cancel x response placements x traffic
    g = []
    for T in ((0.3, 0.5, 1.0, 1.2, 1.7, 2.2) if thorough else (0.3, 1.0, 1.2)):
        pts = grid(T, fine)
        cancels = [None, "pre"] + pts
        resps = [None] + pts
        traffics = ["none", "burst", "flood"]
        for tr in traffics:
            if tr == "flood" and not thorough:
                # quick: flood on the coarser sub-grid
                cs = [None, "pre"] + [p for p in pts if p[1] != 0 or abs(p[0] * 100 - round(p[0] * 100)) > 1e-6]
                rs = [None] + [p for p in pts if p[1] != 0 or abs(p[0] * 100 - round(p[0] * 100)) > 1e-6]
            else:
                cs, rs = cancels, resps
            for c in cs:
                for r in rs:
                    if c == "pre" and r is not None and r != rs[1]:
                        continue
                    cfg = {"T": T, "traffic": tr, "cancel": c, "response": r}
                    if c is not None and c != "pre" and c == r:
                        g.append(dict(cfg, first="c"))
                        g.append(dict(cfg, first="r"))
                    else:
                        g.append(cfg)
    parts["cancel-x-response-x-traffic"] = g
    # (2) progress streams
    g = []
    kinds = ["M", "F", "M0"]
    times = [0.1, 0.49, 0.5, 0.75] if not thorough else [0.1, 0.3, 0.49, 0.5, 0.75, 0.8]
    maxlen = 3 if not thorough else 5
    for T in (1.2,):
        for L in range(0, maxlen + 1):
            for ks in itertools.product(kinds, repeat=L):
                for ts in itertools.combinations_with_replacement(times, L):
                    prog = [[k, t] for k, t in zip(ks, ts)]
                    nmatch = sum(1 for k in ks if k != "F")
                    for ra in [None] + list(range(nmatch)):
                        for end in ("response", "timeout", "cancel"):
                            cfg = {"T": T, "traffic": "none", "progress": prog, "cb": True, "cb_raise_at": ra}
                            if L and nmatch:
                                cfg["params_meta"] = ["stale-token", "other-meta", None][(L + len(g)) % 3]
                            if end == "response":
                                cfg.update(response=[0.8, 0], cancel=None)
                            elif end == "cancel":
                                cfg.update(response=None, cancel=[0.3, 0])
                            else:
                                cfg.update(response=None, cancel=None)
                            g.append(cfg)
    parts["progress-streams"] = g
    # (2b) what the failing callback raises: every class x position x ending, on a stream of three matching notifications
    g = []
    for exc in CB_EXCS:
        for ra in (0, 1, 2):
            for end in ("response", "timeout", "cancel"):
                cfg = {"T": 1.2, "traffic": "none", "progress": [["M", 0.1], ["M", 0.3], ["M", 0.6]], "cb": True,
                       "cb_raise_at": ra, "cb_exc": exc}
                if end == "response":
                    cfg.update(response=[0.8, 0], cancel=None)
                elif end == "cancel":
                    cfg.update(response=None, cancel=[0.7, 0])
                else:
                    cfg.update(response=None, cancel=None)
                g.append(cfg)
    parts["progress-callback-exception-classes"] = g
    # (2c) the callback handed over as each kind of awaitable-returning callable
    g = []
    for form in CB_FORMS:
        for ra in (None, 1):
            for end in ("response", "timeout", "cancel"):
                cfg = {"T": 1.2, "traffic": "none", "progress": [["M", 0.1], ["F", 0.2], ["M", 0.3], ["M0", 0.6]], "cb": True,
                       "cb_raise_at": ra, "cb_form": form}
                if end == "response":
                    cfg.update(response=[0.8, 0], cancel=None)
                elif end == "cancel":
                    cfg.update(response=None, cancel=[0.7, 0])
                else:
                    cfg.update(response=None, cancel=None)
                g.append(cfg)
    parts["progress-callback-forms"] = g
    # (1b) long timeouts: the polling interval (and so the cancel latency) must not grow with the timeout
    g = []
    for T in (30.0, 60.0, 61.0, 120.0, 480.0, 3600.0):
        for c in ([0.1, 0], [0.7, 0], [7.3, 0], [T / 2, 0], [T - 0.2, 0], None):
            for r in (None, [c[0] + 0.3, 0] if c else [5.0, 0], [T - 0.1, 0]):
                g.append({"T": T, "traffic": "none", "cancel": c, "response": r})
    parts["long-timeouts"] = g
    # (3) no token at all (deadline only) under each traffic
    g = []
    for T in (0.3, 1.0, 1.2):
        for tr in ("none", "burst", "flood"):
            for r in [None] + grid(T, fine):
                g.append({"T": T, "traffic": tr, "cancel": None, "response": r, "token": False})
    parts["deadline-only"] = g
    # (4) congested outgoing side: the cancelled notification cannot be written; the deadline must still hold
    g = []
    for T in (0.3, 1.0, 1.2):
        for wb in (0, 1):
            for c in [[0.1, 0], [0.25, 0], [T - 0.05, 0]]:
                for tr in ("none", "burst"):
                    g.append({"T": T, "traffic": tr, "cancel": c, "response": None, "write_buffer": wb})
    parts["congested-write-stream"] = g
    # (5) the caller's own callbacks on the token (quiet or failing, registered before the call or while it runs)
    g = []
    for c in ["pre", [0.1, 0], [0.25, 0], [0.5, -1], [0.5, 1], [0.75, 0], None]:
        for r in (None, [0.8, 0]):
            for cbs in ([], ["quiet"], ["raise"], ["raise", "quiet"], ["quiet", "raise"], ["raise", "raise"]):
                for late in (None, "quiet", "raise"):
                    if not cbs and not late:
                        continue
                    g.append({"T": 1.0, "traffic": "none", "cancel": c, "response": r, "token_cbs": cbs, "late_cb": late})
    parts["token-with-user-callbacks"] = g
    # (6) a progress callback that takes time (awaits something of the caller's): the deadline and the token still rule
    g = []
    for T in ((1.0, 2.2) if not thorough else (1.0, 1.2, 2.2)):
        for prog in ([["M", 0.3]], [["M", 0.3], ["M", 0.4]], [["M", 0.9]], [["F", 0.2], ["M", 0.45], ["M0", 0.7]]):
            for D in ((0.2, 0.8, 5.0, "inf") if not thorough else (0.05, 0.2, 0.5, 0.8, 1.3, 5.0, 1000.0, "inf")):
                for r in (None, [0.5, 0], [0.95, 0]):
                    for c in (None, [0.35, 0], [0.6, 0]):
                        for ra in ((None,) if not thorough else (None, 0)):
                            g.append({"T": T, "traffic": "none", "progress": prog, "cb": True, "cb_raise_at": ra, "cb_takes": D,
                                      "response": r, "cancel": c})
    parts["progress-callback-that-takes-time"] = g
    # (7) the outgoing stream is closed (by its owner, or by its reader) while the request is pending, then the token fires
    g = []
    for T in (1.0, 2.2):
        for who in ("owner", "peer"):
            for tw in (0.1, 0.6):
                for c in ([tw, 0], [tw + 0.2, 0], [tw + 0.3, 0], [T - 0.05, 0], None):
                    for r in (None, [T - 0.02, 0]):
                        for prog in ([], [["M", 0.2]]):
                            g.append({"T": T, "traffic": "none", "progress": prog, "cb": bool(prog), "cancel": c, "response": r,
                                      "write_closes": [who, tw]})
            g.append({"T": T, "traffic": "none", "cancel": "pre", "response": None, "write_closes": [who, -1]})
    parts["write-stream-closed-then-cancelled"] = g
    # (8) the request's method (every request of the protocol, and invented ones) and the kind of answer (result or error of
    # either class) do not change what the token, the deadline and the progress stream do
    g = []
    methods = ["initialize", "ping", "tools/list", "tools/call", "resources/read", "resources/subscribe", "prompts/get",
               "completion/complete", "logging/setLevel", "sampling/createMessage", "roots/list", "elicitation/create",
               "x/invented", ""]
    for mth in methods:
        if mth == "":
            continue  # an empty method is not a request the library builds
        for c in (None, "pre", [0.3, 0], [0.7, 0]):
            for r in (None, [0.5, 0]):
                for code in (None, -32601, -32603):
                    if code is not None and r is None:
                        continue
                    for tok in ((True,) if c is not None else (True, False)):
                        g.append({"T": 1.0, "traffic": "none", "cancel": c, "response": r, "method": mth, "error_code": code,
                                  "token": tok, "progress": [["M", 0.2], ["M0", 0.4]], "cb": True})
    parts["every-request-method-x-answer-kind"] = g
    # (9) progress notifications of odd shapes (no params, empty params, null / list token) among matching ones
    g = []
    odd = ["NP", "PE", "PT", "PL"]
    for o in odd:
        for prog in ([[o, 0.2]], [["M", 0.1], [o, 0.2], ["M", 0.3]], [[o, 0.1], [o, 0.1], ["M0", 0.4]], [["F", 0.1], [o, 0.6]]):
            for end in ("response", "timeout", "cancel"):
                for tr in ("none", "burst"):
                    cfg = {"T": 1.0, "traffic": tr, "progress": prog, "cb": True}
                    if end == "response":
                        cfg.update(response=[0.8, 0], cancel=None)
                    elif end == "cancel":
                        cfg.update(response=None, cancel=[0.7, 0])
                    else:
                        cfg.update(response=None, cancel=None)
                    g.append(cfg)
    parts["progress-notifications-of-odd-shapes"] = g
    return parts


def run(tier: str, only=None) -> core.Result:
    res = core.Result("C14", "model_checking")
    for name, cfgs in configs_for(tier).items():
        if only and name not in only:
            continue
        out = explorer.explore(RUN, cfgs, fidelity=True)
        sched.absorb(res, name, RUN, out, cfgs, min_outcomes=1 if name == "congested-write-stream" else 2)
        sched.debug_pass(res, name, RUN, [c for c in cfgs if c.get("traffic") != "flood"], every=5)
    if not only or "shared-token" in only:
        sc = shared_configs(tier)
        out = explorer.explore(RUN_SHARED, sc, fidelity=True)
        sched.absorb(res, "one-token-shared-by-several-requests", RUN_SHARED, out, sc)
        sched.debug_pass(res, "one-token-shared-by-several-requests", RUN_SHARED, sc, every=7)
    res.coverage["exhaustive"] = True
    res.coverage["rule"] = (
        "every placement of {cancel, matching response} on the grid {10 ms steps within +-30 ms (quick +-10 ms) of each 0.5 s "
        "poll boundary and of the deadline, +-1 us, exactly on them in both tie orders, 'before the call', 'never'} for "
        "T in {0.3,1.0,1.2} (thorough: +-50 ms grid, T also 0.5, 1.7, 2.2; progress streams of <= 5) x background traffic {none, burst of 5, flood every 10 ms}; every progress stream of <=3 "
        "notifications over {matching, foreign token, matching without fields} x 4 time points x callback raising at each "
        "position x ending {response, timeout, cancel}; the caller's own token callbacks (quiet / failing, registered before or during "
        "the call) x cancel placements; one token shared by 2-3 requests on separate connections, concurrent (start offsets) or one after "
        "the other, x cancel placements x per-request response times; a progress callback that itself awaits for D in {0.2,0.8,5,forever} (thorough: 8 values) x "
        "4 progress streams x response/cancel placements (deadline and token still rule); the outgoing stream closed by its owner or by its reader at "
        "0.1/0.6 (or before a pre-cancelled call) x cancel placements at/after the close; distinct = distinct observation digests"
    )
    res.assumptions = [
        "time the caller's own progress callback spends awaiting is the caller's: the token is looked at when the waiter is free again, so the one-polling-interval bound counts from the end of a callback that is running (or starts before the next poll) when the token fires; the deadline bound is NOT relaxed",
        "when the response arrives after the token was triggered but within one polling interval, both the result and CancelledError are accepted (the statement's 'unless its response arrived first' does not fix which)",
        "events exactly at the deadline may go either way",
        "write stream is unbounded, so sending the cancelled notification never blocks",
    ]
    return res
