"""C13, entry-point part: every public way of opening a stdio connection that runs the handshake ITSELF must leave
the connection deciding about batches by the version that handshake agreed on (the caller of these entry points never
sees the connection object and could not tell it)."""
from __future__ import annotations

import json
from typing import Any, Dict, List

from .. import core, explorer, sched, seams
from ..vloop import new_loop

RUN = "vf.checks.c13_entry:run_one"
ENTRIES = ["transports.stdio.stdio_client_with_initialize", "mcp_client.stdio_client_with_initialize",
           "StdioTransport+MCPClient.initialize", "connect_to_server(StdioTransport)"]
ANSWERS = ["2025-06-18", "2025-03-26", "2024-11-05"]
# batch members: N = valid notification, R = response nobody waits for, X = not a message
BATCHES = ["N", "NN", "NXN", "X", "RN", "NNNN"]


def _member(kind: str, i: int) -> Any:
    if kind == "N":
        return {"jsonrpc": "2.0", "method": "notifications/message", "params": {"level": "info", "data": f"m{i}"}}
    if kind == "R":
        return {"jsonrpc": "2.0", "id": f"nobody-{i}", "result": {"i": i}}
    return {}


def run_one(ctl: explorer.Ctl, cfg: Dict[str, Any]) -> Dict[str, Any]:
    loop = new_loop(horizon=60)
    proc = seams.FakeProcess()
    q = seams.Quiescence(loop)
    written: List[dict] = []
    buf = {"b": b""}
    v = cfg["answer"]

    def on_stdin(data: bytes):
        buf["b"] += data
        while b"\n" in buf["b"]:
            line, buf["b"] = buf["b"].split(b"\n", 1)
            try:
                d = json.loads(line.decode("utf-8"))
            except Exception:  # noqa: BLE001
                written.append({"unparsable": line[:80].decode("utf-8", "replace")})
                continue
            written.append(d)
            if isinstance(d, dict) and d.get("method") == "initialize":
                proc.stdout.feed((json.dumps({"jsonrpc": "2.0", "id": d["id"], "result": {
                    "protocolVersion": v, "capabilities": {}, "serverInfo": {"name": "s", "version": "1"}}}) + "\n").encode())

    proc.on_stdin = on_stdin
    members = [_member(k, i) for i, k in enumerate(cfg["batch"])]

    async def after_handshake(read):
        await q.settle()
        mark = len(written)
        # drop what the handshake itself may have left on the stream
        try:
            while True:
                read.receive_nowait()
        except Exception:  # noqa: BLE001
            pass
        proc.stdout.feed((json.dumps(members) + "\n").encode())
        await q.settle()
        got = []
        try:
            while True:
                m = read.receive_nowait()
                got.append(m.model_dump(exclude_none=True) if hasattr(m, "model_dump") else m)
        except Exception:  # noqa: BLE001
            pass
        return mark, got

    async def main():
        with seams.patched_open_process(lambda cmd, kw: proc):
            e = cfg["entry"]
            if e.startswith("transports.stdio"):
                from chuk_mcp.transports.stdio.stdio_client import stdio_client_with_initialize
                async with stdio_client_with_initialize(seams.stdio_params(), timeout=2.0) as (r, w, init):
                    return await after_handshake(r)
            if e.startswith("mcp_client"):
                from chuk_mcp import mcp_client
                agen = mcp_client.stdio_client_with_initialize(seams.stdio_params(), timeout=2.0)
                try:
                    r, w, init = await agen.__anext__()
                    return await after_handshake(r)
                finally:
                    await agen.aclose()
            from chuk_mcp.transports.stdio.transport import StdioTransport
            if e.startswith("StdioTransport"):
                from chuk_mcp.client.client import MCPClient
                t = StdioTransport(seams.stdio_params())
                async with t:
                    c = MCPClient(t)
                    await c.initialize()
                    r, _w = await t.get_streams()
                    return await after_handshake(r)
            from chuk_mcp.client.connection import connect_to_server
            async with connect_to_server(StdioTransport(seams.stdio_params())) as c:
                r, _w = c._streams
                return await after_handshake(r)

    status, val = loop.run_main(main())
    errors = loop.collect_errors()
    loop.abandon()
    if status != "ok":
        return {"outcome": status, "violations": [{"sig": {"class": "did-not-finish", "part": "handshaking-entry-points"},
                                                   "msg": f"cfg={cfg}: {status} {core.clean_repr(val)}"}]}
    mark, got = val
    after = written[mark:]
    errs = [d for d in after if isinstance(d, dict) and "error" in d]
    viol: List[dict] = []

    def bad(cls, msg):
        viol.append({"sig": {"class": cls, "part": "handshaking-entry-points", "entry": cfg["entry"].split("(")[0]},
                     "msg": f"cfg={cfg}: {msg} [delivered {[g.get('method') or g.get('id') for g in got]}; written after the batch {after}]"})

    if v >= "2025-06-18":
        if got:
            bad("batch-member-delivered-after-a-handshake-without-batching", f"{len(got)} members of the batch were delivered")
        if len(errs) != 1 or errs[0]["error"].get("code") != -32600:
            bad("batch-not-answered-with-one-invalid-request-error", f"{len(errs)} error answers")
    else:
        want = [m for m in members if m]
        if [g.get("method") or g.get("id") for g in got] != [m.get("method") or m.get("id") for m in want] or \
                [g.get("params", g.get("result")) for g in got] != [m.get("params", m.get("result")) for m in want]:
            bad("batch-members-not-delivered-in-order", f"expected the {len(want)} valid members in order")
        if errs:
            bad("batch-rejected-at-a-version-with-batching", f"{len(errs)} error answers")
    if errors:
        bad("loop-error", f"{errors[:2]}")
    return {"outcome": "rejected" if errs else f"delivered-{len(got)}", "violations": viol}


def add_part(res: core.Result, tier: str) -> None:
    cfgs = [{"entry": e, "answer": a, "batch": b} for e in ENTRIES for a in ANSWERS for b in BATCHES]
    out = explorer.explore(RUN, cfgs, fidelity=True)
    sched.absorb(res, "l-entry-points-that-run-the-handshake-themselves", RUN, out, cfgs)
