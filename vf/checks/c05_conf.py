"""C05 seam conformance: scripted process vs a real child with forced partial writes.

The same (stream, cuts) cases are run through the scripted process on the virtual loop
(deciding configuration) and through a real child process that writes the very same chunks
with one os.write() each and a pause in between; what the transport delivers must be identical.
The kernel may still coalesce or split reads - which the property says must not matter."""
from __future__ import annotations

import asyncio
import json
import os
import shutil
import sys
import tempfile
from typing import Any, Dict, List

import anyio

from .. import core, explorer, sched
from ..jsonrpc_ref import dump_msg
from . import c05

RUN = "vf.checks.c05_conf:run_one"
CHILD = os.path.join(os.path.dirname(os.path.dirname(os.path.abspath(__file__))), "children", "chunk_writer.py")


def execute_real(cfg) -> Dict[str, Any]:
    from chuk_mcp.transports.stdio.parameters import StdioParameters
    from chuk_mcp.transports.stdio.stdio_client import StdioClient

    data, names = c05.stream_bytes(cfg["stream"])
    bounds = [0] + list(cfg["cuts"]) + [len(data)]
    chunks = [data[a:b] for a, b in zip(bounds, bounds[1:])]
    tmp = tempfile.mkdtemp(prefix="c05conf.", dir="/tmp")
    spec = os.path.join(tmp, "spec.json")
    with open(spec, "w") as f:
        json.dump({"chunks": [c.hex() for c in chunks], "pause_ms": 8}, f)
    got: List[Any] = []
    notes: List[Any] = []
    expected_n = len(c05.reference(data))

    async def main():
        async with StdioClient(StdioParameters(command=sys.executable, args=[CHILD, spec])) as client:
            read, _ = client.get_streams()
            deadline = asyncio.get_running_loop().time() + 5.0
            quiet = 0
            while asyncio.get_running_loop().time() < deadline:
                await asyncio.sleep(0.02)
                n0 = len(got)
                for stream, sink in ((read, got), (client.notifications, notes)):
                    try:
                        while True:
                            sink.append(stream.receive_nowait())
                    except (anyio.WouldBlock, anyio.EndOfStream, anyio.ClosedResourceError):
                        pass
                quiet = quiet + 1 if len(got) == n0 else 0
                # the sentinel line is always last: once it arrived (or nothing happened for a while) we are done
                if got and getattr(got[-1], "id", None) == "END" and quiet >= 2:
                    break
                if quiet > 60:
                    break

    try:
        asyncio.run(asyncio.wait_for(main(), 20))
        status = "ok"
    except BaseException as e:  # noqa: BLE001
        status = "exc:" + type(e).__name__
    finally:
        shutil.rmtree(tmp, ignore_errors=True)
    return {"status": status, "delivered": [dump_msg(m) for m in got], "notes": [dump_msg(m) for m in notes]}


def run_one(ctl, cfg):
    virt = c05.run_one(explorer.Ctl(), cfg)
    real = execute_real(cfg)
    viol = []
    if real["status"] != "ok":
        viol.append({"sig": {"class": "real-run-did-not-finish", "status": real["status"]}, "msg": f"cfg={cfg}"})
    elif json.dumps(real["delivered"], sort_keys=True) != json.dumps(virt.get("delivered"), sort_keys=True):
        viol.append({"sig": {"class": "seam-disagrees-with-real-child"},
                     "msg": f"lines={virt.get('lines')} cuts={cfg['cuts']}: scripted process delivered {virt.get('delivered')}, "
                            f"real child delivered {real['delivered']}"})
    return {"outcome": f"delivered={len(real['delivered'])}", "violations": viol + list(virt.get("violations") or [])}


def add_conformance_part(res: core.Result, tier: str) -> None:
    cfgs = []
    for s in c05.streams("long", 1):
        data = c05.stream_bytes(s)[0]
        cfgs.append({"stream": s, "cuts": []})
        ip = c05.interesting_positions(data)
        for c in (ip if tier == "thorough" else ip[:1]):
            cfgs.append({"stream": s, "cuts": [c]})
        if tier == "thorough":
            cfgs.append({"stream": s, "cuts": list(range(1, len(data), 7))})
    if tier == "thorough":
        for s in c05.streams("long", 2)[::9]:
            data = c05.stream_bytes(s)[0]
            cfgs.append({"stream": s, "cuts": c05.interesting_positions(data)[:3]})
        cfgs.append({"stream": {"table": "burst", "n": 150}, "cuts": []})
    out = explorer.explore(RUN, cfgs, workers=8)
    sched.absorb(res, "seam-conformance-real-child", RUN, out, cfgs, real_world=True, min_outcomes=1)
    res.coverage["seam_conformance_cases"] = res.coverage.get("seam_conformance_cases", 0) + len(cfgs)
    res.assumptions.append(
        "seam conformance: a real child writes the same chunks with one os.write() each and 8 ms pauses; the kernel may "
        "still merge reads, which the property says must not change what is delivered"
    )
