"""C01 - a request completes only with the response that bears its own id.

Engine: E-SCHED.  Driver: one real ``send_message`` call on harness-owned memory
streams, running on the virtual loop.  The environment delivers a history of
messages chosen from an alphabet, each at a time chosen from the
anchor-relative menu (relative to the library's own poll/deadline timers).
Oracle: a ten-line reference that scans the deliveries in arrival order.
"""
from __future__ import annotations

import copy
import math
from typing import Any, Dict, List

import anyio

from .. import core, explorer, sched
from ..vloop import EPS, new_loop

RUN = "vf.checks.c01:run_one"

OTHER_ID = "other-zz"
PARAMS = {
    "none": None,
    "empty": {},
    "nested": {"a": {"b": None, "c": [1, None, {"d": None}]}, "s": "x y", "n": 0},
    "meta": {"_meta": {"trace": "t-1", "n": None}, "name": "tool", "arguments": {}},
}


def _rid_for(cfg, stub_first_uuid: str) -> Any:
    return {"uuid": stub_first_uuid, "empty": stub_first_uuid, "str": "req-A", "digits": "123"}[cfg["id"]]


def kinds_for(cfg) -> List[str]:
    ks = ["R", "E", "O", "N", "Q", "P-", "R0", "Oe", "B", "Qn", "En"]
    if cfg["id"] == "digits":
        ks.append("I")
    if cfg.get("cb"):
        ks.append("P+")
    if cfg.get("eos"):
        ks.append("X")
    if cfg.get("rshapes"):
        ks = list(RSHAPES) + ["O", "N", "Q", "E0", "Ed"]
    return ks


def build(kind: str, rid: Any, token: Any, seq: int) -> Any:
    """Wire form (dict or list of dicts) of one incoming message."""
    j = {"jsonrpc": "2.0"}
    if kind == "R":
        return {**j, "id": rid, "result": {"v": "R", "seq": seq, "n": None}}
    if kind in RSHAPES:  # results need not be JSON objects
        return {**j, "id": rid, "result": RSHAPES[kind]}
    if kind == "R0":
        return {**j, "id": rid, "result": {}}
    if kind == "E":
        return {**j, "id": rid, "error": {"code": -32000, "message": f"boom{seq}"}}
    if kind == "E0":  # an error answer whose error object is empty: still an error answer, never a result
        return {**j, "id": rid, "error": {}}
    if kind == "Ed":  # an error answer with falsy members
        return {**j, "id": rid, "error": {"code": 0, "message": ""}}
    if kind == "O":
        return {**j, "id": OTHER_ID, "result": {"v": "O"}}
    if kind == "Oe":
        return {**j, "id": OTHER_ID, "error": {"code": -32601, "message": "nope"}}
    if kind == "En":  # error that could not be attributed to a request (id null), e.g. a parse error reply
        return {**j, "id": None, "error": {"code": -32700, "message": "Parse error"}}
    if kind == "N":
        return {**j, "method": "notifications/message", "params": {"level": "info", "data": "x"}}
    if kind == "Q":  # server-initiated request re-using our id
        return {**j, "id": rid, "method": "sampling/createMessage", "params": {"messages": []}}
    if kind == "Qn":  # server-initiated request re-using our id, carrying a result-like member in params
        return {**j, "id": rid, "method": "ping"}
    if kind == "P-":
        return {**j, "method": "notifications/progress",
                "params": {"progressToken": "foreign-token", "progress": 1, "total": 2}}
    if kind == "P+":
        return {**j, "method": "notifications/progress",
                "params": {"progressToken": token, "progress": seq, "total": 9}}
    if kind == "B":
        return [{**j, "id": rid, "result": {"v": "B"}}]
    if kind == "I":
        return {**j, "id": int(rid), "result": {"v": "I"}}
    if kind == "X":  # the peer ends the stream (connection gone): not a message
        return dict(CLOSE)
    raise KeyError(kind)


CLOSE = {"end-of-stream": True}
RSHAPES = {"Rlist": ["v", 1, None], "Rstr": "text", "Rnum": 7, "Rzero": 0, "Rfalse": False, "Rempty-list": [], "Rempty-str": "",
           "Rfloat": 1.5, "Rnested": [[1], {"k": None}]}


def _same_id(a, b) -> bool:
    return type(a) is type(b) and a == b


def reference(deliveries, rid, T):
    """deliveries: [(time, rank, wire)] in arrival order.  Returns
    (kind, payload, time, tie) where kind in result/error/timeout."""
    for (t, rank, wire) in deliveries:
        if isinstance(wire, list):
            continue
        if wire == CLOSE:
            if t > T + 1e-12:
                break
            return ("closed", None, t, abs(t - T) <= 1e-12)
        if "method" in wire:
            continue
        if not _same_id(wire.get("id"), rid):
            continue
        if "result" not in wire and "error" not in wire:
            continue
        if t > T + 1e-12:
            break
        tie = abs(t - T) <= 1e-12
        if "error" in wire:
            return ("error", wire["error"], t, tie)
        return ("result", wire["result"], t, tie)
    return ("timeout", None, T, False)


class RecordingReceive:
    """Proxy for the read stream that records what the call consumed."""

    def __init__(self, inner, log, loop):
        self._inner = inner
        self._log = log
        self._loop = loop

    async def receive(self):
        item = await self._inner.receive()
        self._log.append((self._loop.time(), item))
        return item

    def __getattr__(self, name):
        return getattr(self._inner, name)


def run_one(ctl: explorer.Ctl, cfg: Dict[str, Any]) -> Dict[str, Any]:
    from chuk_mcp.protocol.messages.json_rpc_message import parse_message
    from chuk_mcp.protocol.messages.send_message import send_message
    from chuk_mcp.protocol.types.errors import NonRetryableError, RetryableError

    def to_obj(wire):
        if isinstance(wire, list):
            return [parse_message(m) for m in wire]
        return parse_message(wire)

    T = cfg["T"]
    L = cfg["L"]
    loop = new_loop(horizon=4 * T + 5)
    viol: List[dict] = []
    obs: Dict[str, Any] = {}
    with sched.patched_uuid() as stub:
        # what ids will the library draw?  (progress token first, then the id)
        probe = sched.UuidStub()
        first, second = str(probe()), str(probe())
        token = first if cfg.get("cb") else None
        rid = _rid_for(cfg, second if cfg.get("cb") else first)
        kinds = kinds_for(cfg)
        params_in = copy.deepcopy(PARAMS[cfg["params"]])
        expected_params = copy.deepcopy(params_in)
        if cfg.get("cb"):
            expected_params = expected_params if expected_params is not None else {}
            expected_params.setdefault("_meta", {})["progressToken"] = token

        deliveries: List[tuple] = []  # (time, rank, wire)
        consumed: List[tuple] = []
        cb_calls: List[tuple] = []
        state = {"n": 0, "scheduled": False, "first_idle_writes": None, "stopped": False}

        wd = cfg.get("write_delay")

        async def q_settle():
            # give the peer a turn to take whatever was written last
            import asyncio as _a
            for _ in range(3):
                await _a.sleep(0)

        async def main():
            send_w, recv_w = anyio.create_memory_object_stream(math.inf if wd is None else 0)
            send_r, recv_r = anyio.create_memory_object_stream(math.inf)
            state["send_r"] = send_r
            state["recv_w"] = recv_w
            wf = cfg.get("write_fails")
            if wf == "receiver-gone":
                recv_w.close()      # whoever read the outgoing stream (the transport) is gone
            elif wf == "closed-by-owner":
                send_w.close()      # the outgoing stream was closed on our side
            if wd is not None:
                # the peer takes the request off the (unbuffered) write stream only after wd seconds
                import asyncio as _a

                async def slow_peer():
                    await _a.sleep(wd)
                    try:
                        while True:
                            m = await recv_w.receive()
                            state.setdefault("taken", []).append(m)
                            state.setdefault("t_taken", loop.time())
                    except Exception:
                        pass

                state["peer"] = _a.ensure_future(slow_peer())

            # pre-queued traffic (already in the stream before the call)
            pre = ctl.choose(len(kinds) + 1, "prequeue")
            if pre:
                wire = build(kinds[pre - 1], rid, token, 0)
                deliveries.append((0.0, -2, wire))
                if wire == CLOSE:
                    send_r.close()
                    state["stopped"] = True
                else:
                    send_r.send_nowait(to_obj(wire))
                state["n"] += 1

            async def cb(progress, total, message):
                cb_calls.append((loop.time(), progress, total, message))

            kw = {}
            if cfg["id"] in ("str", "digits"):
                kw["message_id"] = rid
            elif cfg["id"] == "empty":
                kw["message_id"] = ""
            if cfg.get("cb"):
                kw["progress_callback"] = cb
            t_start = loop.time()
            try:
                r = await send_message(RecordingReceive(recv_r, consumed, loop), send_w, "tools/list",
                                       params_in, timeout=T, **kw)
                out = ("result", r)
            except TimeoutError:
                out = ("timeout", None)
            except (RetryableError, NonRetryableError) as e:
                out = ("error", {"cls": type(e).__name__, "code": getattr(e, "code", None), "str": str(e)})
            except BaseException as e:  # noqa: BLE001
                out = ("other-exc", repr(e)[:200])
            elapsed = loop.time() - t_start
            if "peer" in state:
                await q_settle()
                state["peer"].cancel()
                try:
                    await state["peer"]
                except BaseException:  # noqa: BLE001
                    pass
            return out, elapsed

        def deliver(wire, t, rank):
            state["scheduled"] = False
            deliveries.append((loop.time(), rank, wire))
            if wire == CLOSE:
                state["send_r"].close()
                state["stopped"] = True
                return
            try:
                state["send_r"].send_nowait(to_obj(wire))
            except Exception as e:  # noqa: BLE001
                obs["deliver_error"] = repr(e)

        def idle(lp):
            if wd is not None and "t_taken" not in state:
                return  # the request is still being written: no traffic is scheduled before the peer has it
            if state["first_idle_writes"] is None:
                try:
                    state["first_idle_writes"] = 1 if wd is not None else state["recv_w"].statistics().current_buffer_used
                except Exception:
                    state["first_idle_writes"] = -1
            if state["scheduled"] or state["stopped"] or state["n"] >= L:
                return
            k = ctl.choose(len(kinds) + 1, f"kind{state['n']}")
            if k == 0:
                state["stopped"] = True
                return
            menu = sched.time_menu(lp, deadline=T + state.get("t_taken", 0.0), rich=cfg.get("rich", True))
            label, t, rank = menu[ctl.choose(len(menu), f"time{state['n']}")]
            wire = build(kinds[k - 1], rid, token, state["n"] + 1)
            state["n"] += 1
            state["scheduled"] = True
            if label == "now":
                lp.call_soon(deliver, wire, t, rank)
            else:
                lp.env_call_at(t, rank, deliver, wire, t, rank)

        loop.idle_hook = idle
        status, val = loop.run_main(main())
        errors = loop.collect_errors()
        # drain the write stream
        writes = list(state.get("taken", []))
        try:
            while True:
                writes.append(state["recv_w"].receive_nowait())
        except Exception:
            pass
        leftover = len(loop.leftover_tasks())
        loop.abandon()

    hist = [_kind_of(w, rid, token) for (_, _, w) in deliveries]
    obs.update({"status": status, "history": hist,
                "times": [[round(t, 7), r] for (t, r, _) in deliveries]})
    if status != "ok":
        obs["outcome"] = status
        viol.append({"sig": {"class": "did-not-finish", "status": status},
                     "msg": f"send_message did not complete: {status} {core.clean_repr(val)}"})
        obs["violations"] = viol
        return obs
    (okind, oval), elapsed = val
    obs["outcome"] = okind
    obs["elapsed"] = round(elapsed, 7)
    obs["value"] = sched.jsonable(oval)

    if cfg.get("write_fails"):
        # the request cannot be written: no request is on the wire, so waiting must not start and nothing may be returned
        def badw(cls, msg):
            viol.append({"sig": {"class": cls, "write": cfg["write_fails"]}, "msg": f"{msg}; cfg={cfg} history={hist}"})
        if okind in ("result", "error"):
            badw("completed-without-a-request-on-the-wire", f"the call ended with {okind} {oval!r} although its request could not be written")
        elif okind == "timeout" or elapsed > 1e-9:
            badw("waited-without-a-request-on-the-wire", f"the call went on waiting ({okind} after {elapsed}) although its request could not be written")
        if consumed:
            badw("read-without-a-request-on-the-wire", f"{len(consumed)} incoming messages were taken off the read stream")
        if errors:
            badw("loop-error", f"{errors[:2]}")
        obs["violations"] = viol
        return obs
    t_w = state.get("t_taken", 0.0) if wd is not None else 0.0
    T_eff = T + t_w  # the deadline counts from the moment the request was written
    # a message that was already waiting in the stream is seen when the call starts reading, i.e. once the request is out
    deliveries = [(max(t, t_w), r, w) for (t, r, w) in deliveries]
    exp_kind, exp_payload, exp_t, tie = reference(deliveries, rid, T_eff)
    decider = None
    for (t, rank, w) in deliveries:
        if not isinstance(w, list) and w != CLOSE and "method" not in w and _same_id(w.get("id"), rid):
            decider = _kind_of(w, rid, token)
            break

    def bad(cls, msg, **extra):
        viol.append({"sig": {"class": cls, **extra}, "msg": f"{msg}; cfg={cfg} history={hist} times={obs['times']}"})

    ok = False
    if exp_kind == "closed":
        # the stream ended before any response bearing the id: the call must fail (how is not specified), never return
        if okind in ("result", "error"):
            bad("completed-after-stream-ended", f"the read stream ended at {exp_t} without a response for the id, yet the call "
                                                f"ended with {okind} {oval!r}")
        elif okind == "timeout" and not abs(elapsed - T_eff) < 1e-9:
            bad("timeout-at-wrong-time", f"TimeoutError after {elapsed}, deadline {T_eff}")
        elif elapsed > T_eff + 1e-9:
            bad("late-completion", f"ended at {elapsed}, deadline {T_eff}")
    elif exp_kind == okind:
        if okind == "result":
            same = _strict(oval, exp_payload)
            ok = same and abs(elapsed - exp_t) < 1e-9
            if not ok:
                if not same:
                    bad("wrong-payload", f"returned {oval!r}, expected {exp_payload!r}", returned=_who(oval))
                else:
                    bad("wrong-time", f"result returned at {elapsed}, response arrived at {exp_t}")
        elif okind == "error":
            ok = ((oval["code"] == exp_payload["code"] and exp_payload["message"] in oval["str"]) if exp_payload else True) \
                and abs(elapsed - exp_t) < 1e-9   # an empty error object names no code: any classified error will do
            if not ok:
                bad("wrong-error", f"raised {oval}, expected {exp_payload} at {exp_t} (elapsed {elapsed})")
        else:
            ok = abs(elapsed - T_eff) < 1e-9
            if not ok:
                bad("timeout-at-wrong-time", f"TimeoutError after {elapsed}, deadline {T_eff} (request written at {t_w})")
    elif tie and okind == "timeout" and abs(elapsed - T_eff) < 1e-9:
        ok = True  # response landed exactly on the deadline: either outcome is right
    else:
        if okind == "result":
            bad("returned-non-response", f"returned {oval!r} but reference says {exp_kind}", returned=_who(oval))
        elif okind == "timeout":
            bad("lost-response", f"timed out at {elapsed} although a matching {exp_kind} arrived at {exp_t}",
                decider=decider)
        elif okind == "error":
            bad("spurious-error", f"raised {oval} but reference says {exp_kind}")
        else:
            bad("unexpected-exception", f"raised {oval} (reference: {exp_kind})")

    # the wire: exactly one request, written before the first wait
    def dump(m):
        try:
            return m.model_dump(exclude_none=True)
        except Exception:
            return repr(m)

    wd = [dump(m) for m in writes]
    obs["writes"] = len(wd)
    if len(wd) != 1:
        bad("write-count", f"{len(wd)} messages written: {wd}")
    else:
        w = wd[0]
        want = {"jsonrpc": "2.0", "id": rid, "method": "tools/list"}
        if expected_params is not None:
            want["params"] = expected_params
        if w != want or type(w.get("id")) is not type(rid):
            bad("wrong-request", f"wrote {w}, expected {want}")
    if state["first_idle_writes"] not in (None, 1):
        bad("request-not-written-before-wait", f"write buffer held {state['first_idle_writes']} messages at the first wait")
    # progress callback: exactly the matching-token notifications consumed before completion
    if cfg.get("cb"):
        exp_cb = []
        for (t, rank, w) in deliveries:
            if not isinstance(w, list) and w.get("method") == "notifications/progress" \
                    and w["params"].get("progressToken") == token:
                exp_cb.append(w["params"]["progress"])
        got = [c[1] for c in cb_calls]
        # only those that arrived before completion can have been seen
        n_before = sum(1 for (t, rank, w) in deliveries if t <= elapsed + 1e-12)
        if got != exp_cb[: len(got)] or len(got) > len(exp_cb):
            bad("progress-callback", f"callback saw {got}, matching progress sent {exp_cb}")
    if errors:
        bad("loop-error", f"event loop reported {errors[:2]}")
    if leftover:
        bad("leftover-tasks", f"{leftover} tasks still pending after the call returned")
    obs["violations"] = viol
    return obs


def _strict(a, b) -> bool:
    from ..jsonrpc_ref import strict_eq
    return strict_eq(a, b)


def _who(v):
    if isinstance(v, dict):
        if "method" in v:
            return "server-request-envelope"
        if isinstance(v.get("v"), str):
            return "payload-of-" + v["v"]
    return "other"


def _kind_of(w, rid, token):
    if isinstance(w, list):
        return "B"
    if w == CLOSE:
        return "X"
    if "method" in w:
        if "id" in w:
            return "Q"
        if w["method"] == "notifications/progress":
            return "P+" if w["params"].get("progressToken") == token else "P-"
        return "N"
    same = _same_id(w.get("id"), rid)
    if "error" in w and w.get("id") is None:
        return "En"
    if "error" in w:
        return "E" if same else "Oe"
    if same:
        for name, val in RSHAPES.items():
            if _strict(w.get("result"), val):
                return name
        return "R0" if w["result"] == {} else "R"
    if w.get("id") == OTHER_ID:
        return "O"
    return "I"


# ---------------------------------------------------------------------------
# every typed request helper inherits the matching rule (discovered, not listed)
# ---------------------------------------------------------------------------
RUN_HELPER = "vf.checks.c01:run_helper"
# results the type-directed generator cannot derive from the helper's return annotation
RESULT_BY_METHOD = {"completion/complete": {"completion": {"values": ["a", "b"], "total": 2, "hasMore": False}}}
PREFIXES = [[], ["Q"], ["Qn"], ["O"], ["Oe"], ["En"], ["N"], ["B"], ["P-"], ["Q", "O", "N", "B"], ["N", "En", "Qn", "Oe"]]


def run_helper(ctl: explorer.Ctl, cfg: Dict[str, Any]) -> Dict[str, Any]:
    """Call one discovered send_* helper; the scripted peer answers its request with
    the distractor prefix followed by a type-correct successful result.  The helper
    must return exactly what it returns when there is no distractor at all."""
    from chuk_mcp.protocol.messages.json_rpc_message import parse_message
    from .. import helpers_drive as hd

    func = hd.resolve(cfg["helper"])
    prof = hd.Profile(rich=False)
    kwargs = hd.build_kwargs(func, prof)

    def to_obj(wire):
        if isinstance(wire, list):
            return [parse_message(m) for m in wire]
        return parse_message(wire)

    def make_script(prefix):
        def script(req, n):
            rid = req["id"]
            out = [to_obj(build(k, rid, None, i)) for i, k in enumerate(prefix)]
            result = RESULT_BY_METHOD.get(req.get("method")) or hd.result_for(func, req)
            out.append(parse_message({"jsonrpc": "2.0", "id": rid, "result": result}))
            return out
        return script

    base = hd.drive(func, dict(kwargs), make_script([]))
    got = hd.drive(func, dict(kwargs), make_script(cfg["prefix"]))

    def summarise(o):
        if o.get("outcome") == "returned":
            v = o["value"]
            if hasattr(v, "model_dump"):
                v = v.model_dump(by_alias=True, exclude_none=True)
            return ["returned", sched.jsonable(v)]
        if o.get("outcome") == "raised":
            return ["raised", type(o["exc"]).__name__, str(o["exc"])[:120]]
        return [str(o.get("outcome"))]

    a, b = summarise(base), summarise(got)
    viol = []
    short = cfg["helper"].split(":")[-1]
    if a[0] != "returned":
        raise core.HarnessError(f"helper {cfg['helper']} cannot be driven: with a plain successful answer it gives {a} "
                                "(add a result to RESULT_BY_METHOD)")
    elif a != b:
        cls = "helper-returned-non-response" if b[0] == "returned" else "helper-disturbed-by-distractors"
        viol.append({"sig": {"class": cls, "first_distractor": cfg["prefix"][0] if cfg["prefix"] else None},
                     "msg": f"{cfg['helper']} prefix={cfg['prefix']}: got {b}, without distractors {a}"})
    if got.get("requests") != 1:
        viol.append({"sig": {"class": "helper-request-count"}, "msg": f"{cfg['helper']}: {got.get('requests')} requests written"})
    return {"outcome": b[0], "helper": short, "prefix": cfg["prefix"], "value": b, "violations": viol}


def helper_configs():
    from .. import helpers_drive as hd

    disc = hd.discover()
    names = [h["name"] for h in disc["helpers"] if h["kind"] == hd.REQUEST]
    callable_names, uncallable = [], []
    for n in names:
        try:
            hd.build_kwargs(hd.resolve(n), hd.Profile(rich=False))
            callable_names.append(n)
        except Exception as e:  # noqa: BLE001
            uncallable.append(f"{n}: {e!r}"[:200])
    return [{"helper": n, "prefix": p} for n in callable_names for p in PREFIXES], callable_names, uncallable


# ---------------------------------------------------------------------------
# several calls one after the other on one connection (and on separate connections):
# what one call consumed is gone; nothing is carried over to a later call
# ---------------------------------------------------------------------------
RUN_SEQ = "vf.checks.c01:run_sequence"
SEQ_T = 1.0


def run_sequence(ctl: explorer.Ctl, cfg: Dict[str, Any]) -> Dict[str, Any]:
    """cfg: ids ('digits' | 'uuid' | 'same'), streams ('shared' | 'separate'), calls n,
    deliveries [(phase, kind)] with phase 0 = queued before the first call, phase k = arriving
    0.1 s, 0.2 s, ... after call k started; kind in R<j>, E<j>, Q<j> (response / error / server
    request bearing the id of call j), O, N."""
    from chuk_mcp.protocol.messages.json_rpc_message import parse_message
    from chuk_mcp.protocol.messages.send_message import send_message
    from chuk_mcp.protocol.types.errors import NonRetryableError, RetryableError

    n = cfg["calls"]
    T = SEQ_T
    loop = new_loop(horizon=(n + 1) * (T + 1) + 5)
    viol: List[dict] = []
    with sched.patched_uuid():
        probe = sched.UuidStub()
        uu = [str(probe()) for _ in range(n)]
        if cfg["ids"] == "digits":
            rids = [str(k + 1) for k in range(n)]
        elif cfg["ids"] == "same":
            rids = ["again"] * n
        else:
            rids = uu
        separate = cfg["streams"] == "separate"
        arrivals: List[List[tuple]] = [[] for _ in range(n if separate else 1)]  # per connection: (time, seqno, wire)
        counter = {"n": 0}
        conns: List[tuple] = []
        results: List[tuple] = []

        def wire_of(kind: str, seq: int):
            j = {"jsonrpc": "2.0"}
            if kind == "N":
                return {**j, "method": "notifications/message", "params": {"data": seq}}
            if kind == "O":
                return {**j, "id": OTHER_ID, "result": {"v": "O"}}
            rid = rids[int(kind[1:]) - 1]
            if kind[0] == "R":
                return {**j, "id": rid, "result": {"v": kind, "seq": seq}}
            if kind[0] == "E":
                return {**j, "id": rid, "error": {"code": -32000, "message": f"boom-{kind}-{seq}"}}
            if kind[0] == "Q":
                return {**j, "id": rid, "method": "ping"}
            raise KeyError(kind)

        def deliver(ci: int, wire):
            counter["n"] += 1
            arrivals[ci].append((loop.time(), counter["n"], wire))
            conns[ci][0].send_nowait(parse_message(wire))

        async def main():
            for _ in range(n if separate else 1):
                send_w, recv_w = anyio.create_memory_object_stream(math.inf)
                send_r, recv_r = anyio.create_memory_object_stream(math.inf)
                conns.append((send_r, recv_r, send_w, recv_w))
            seq = 0
            for (ph, kind) in cfg["deliveries"]:
                if ph == 0:
                    seq += 1
                    deliver(0, wire_of(kind, seq))
            for k in range(1, n + 1):
                ci = (k - 1) if separate else 0
                i = 0
                for (ph, kind) in cfg["deliveries"]:
                    if ph == k:
                        i += 1
                        seq += 1
                        loop.call_later(0.1 * i, deliver, ci, wire_of(kind, seq))
                kw = {} if cfg["ids"] == "uuid" else {"message_id": rids[k - 1]}
                t0 = loop.time()
                try:
                    r = await send_message(conns[ci][1], conns[ci][2], "tools/list", {"call": k}, timeout=T, **kw)
                    out = ("result", r)
                except TimeoutError:
                    out = ("timeout", None)
                except (RetryableError, NonRetryableError) as e:
                    out = ("error", {"code": getattr(e, "code", None), "str": str(e)})
                except BaseException as e:  # noqa: BLE001
                    out = ("other-exc", core.clean_repr(e)[:160])
                results.append((out, t0, loop.time()))

        status, val = loop.run_main(main())
        errors = loop.collect_errors()
        writes: List[List[Any]] = []
        for c in conns:
            ws = []
            try:
                while True:
                    ws.append(c[3].receive_nowait())
            except Exception:  # noqa: BLE001
                pass
            writes.append(ws)
        leftover = len(loop.leftover_tasks())
        loop.abandon()
    obs: Dict[str, Any] = {"status": status, "deliveries": cfg["deliveries"]}
    if status != "ok":
        obs["outcome"] = status
        obs["violations"] = [{"sig": {"class": "did-not-finish", "part": "sequence", "status": status},
                              "msg": f"cfg={cfg}: {status} {core.clean_repr(val)}"}]
        return obs
    # reference: each connection is a queue; a call consumes it in arrival order up to its own response or its deadline
    consumed = [set() for _ in arrivals]
    summary = []
    start = 0.0
    for k in range(1, n + 1):
        ci = (k - 1) if separate else 0
        rid = rids[k - 1]
        (okind, oval), t0, t1 = results[k - 1]
        exp = ("timeout", None, t0 + T)
        for idx, (t, _, w) in enumerate(arrivals[ci]):
            if idx in consumed[ci]:
                continue
            if t > t0 + T + 1e-12:
                break
            consumed[ci].add(idx)
            if "method" in w or not _same_id(w.get("id"), rid):
                continue
            exp = ("error", w["error"], max(t, t0)) if "error" in w else ("result", w["result"], max(t, t0))
            break
        ok = okind == exp[0] and abs(t1 - exp[2]) < 1e-9
        if ok and okind == "result":
            ok = oval == exp[1]
        if ok and okind == "error":
            ok = oval["code"] == exp[1]["code"] and exp[1]["message"] in oval["str"]
        summary.append(okind)
        if not ok:
            stale = okind == "result" and isinstance(oval, dict) and any(
                w.get("result") == oval and t < t0 - 1e-12 and i in consumed[c2] for c2 in range(len(arrivals))
                for i, (t, _, w) in enumerate(arrivals[c2]) if isinstance(w, dict))
            cls = "returned-message-consumed-by-an-earlier-call" if stale and exp[0] != "result" or (stale and oval != exp[1]) \
                else "sequence-call-wrong-outcome"
            viol.append({"sig": {"class": cls, "call": k, "expected": exp[0], "got": okind, "streams": cfg["streams"]},
                         "msg": f"cfg={cfg}: call {k} (id {rid!r}, started {t0}) ended {okind} {oval!r} at {t1}; "
                                f"reference: {exp[0]} {exp[1]!r} at {exp[2]}; arrivals={[(round(t, 6), w) for c in arrivals for (t, _, w) in c]}"})
    # the wire: one request per call, in call order, on the call's own connection
    for ci, ws in enumerate(writes):
        ks = [ci + 1] if separate else list(range(1, n + 1))
        got = []
        for m in ws:
            try:
                got.append(m.model_dump(exclude_none=True))
            except Exception:  # noqa: BLE001
                got.append(repr(m))
        want = [{"jsonrpc": "2.0", "id": rids[k - 1], "method": "tools/list", "params": {"call": k}} for k in ks]
        if got != want:
            viol.append({"sig": {"class": "sequence-wrong-requests"}, "msg": f"cfg={cfg}: connection {ci} wrote {got}, expected {want}"})
    if errors:
        viol.append({"sig": {"class": "loop-error", "part": "sequence"}, "msg": f"{errors[:2]}"})
    if leftover:
        viol.append({"sig": {"class": "leftover-tasks", "part": "sequence"}, "msg": f"cfg={cfg}: {leftover} tasks pending"})
    obs["outcome"] = "/".join(summary)
    obs["violations"] = viol
    return obs


def sequence_configs(tier: str):
    import itertools as it

    out = []
    for n, L in ((2, 3), (3, 2)) if tier == "quick" else ((2, 4), (3, 3)):
        kinds = ["N", "O"] + [f"{c}{j}" for j in range(1, n + 1) for c in ("R", "E", "Q")]
        units = [(ph, k) for ph in range(0, n + 1) for k in kinds]
        for l in range(0, L + 1):
            for combo in it.product(units, repeat=l):
                phases = [u[0] for u in combo]
                if phases != sorted(phases):
                    continue
                for ids in ("digits", "uuid", "same"):
                    for streams in ("shared", "separate"):
                        if streams == "separate" and l > 2 and tier == "quick":
                            continue
                        out.append({"calls": n, "ids": ids, "streams": streams, "deliveries": [list(u) for u in combo]})
    return out


def configs_for(tier: str):
    full = []
    # depth 1: full product of timeouts, id shapes, params shapes, callback
    for T in (0.3, 1.0, 1.2):
        for idk in ("uuid", "empty", "str", "digits"):
            for p in ("none", "empty", "nested", "meta"):
                for cb in (False, True):
                    full.append({"T": T, "id": idk, "params": p, "cb": cb, "L": 1, "rich": True})
    deep = []
    for T in (0.3, 1.0, 1.2):
        for idk in ("uuid", "str", "digits"):
            for cb in (False, True):
                deep.append({"T": T, "id": idk, "params": "nested", "cb": cb, "L": 2, "rich": True})
    # the connection ends (read stream closed by the transport) at any point of a history
    for T in (0.3, 1.0):
        for idk in ("uuid", "digits"):
            for cb in (False, True):
                full.append({"T": T, "id": idk, "params": "none", "cb": cb, "L": 1, "rich": True, "eos": True})
                deep.append({"T": T, "id": idk, "params": "none", "cb": cb, "L": 2, "rich": False, "eos": True})
    for T in (1.0,):
        for idk in ("uuid", "digits"):
            for cb in (False, True):
                full.append({"T": T, "id": idk, "params": "none", "cb": cb, "L": 1, "rich": False, "rshapes": True})
                deep.append({"T": T, "id": idk, "params": "none", "cb": cb, "L": 2, "rich": False, "rshapes": True})
    deeper = []
    for T in (0.3, 1.0):
        for idk in ("digits",):
            for cb in (False, True):
                deeper.append({"T": T, "id": idk, "params": "none", "cb": cb, "L": 3 if tier == "quick" else 4,
                               "rich": False})
    return full, deep, deeper


def slow_write_configs(tier: str = "quick"):
    out = []
    for T in (0.3, 1.0):
        for wdl in (0.25 * T, T - EPS, T, T + 0.2, 2.5 * T):
            for idk in ("uuid", "digits"):
                for cb in (False, True):
                    out.append({"T": T, "id": idk, "params": "nested", "cb": cb, "L": 1 if tier == "quick" else 2,
                                "rich": tier == "quick", "write_delay": wdl})
    return out


def run(tier: str, only=None) -> core.Result:
    res = core.Result("C01", "model_checking")
    full, deep, deeper = configs_for(tier)
    out = explorer.explore(RUN, full, fidelity=True)
    sched.absorb(res, "L1-full-product", RUN, out, full)
    sched.debug_pass(res, "L1-full-product", RUN, full, every=2)
    out = explorer.explore(RUN, deep, fidelity=True)
    sched.absorb(res, "L2-all-placements", RUN, out, deep)
    bound = 4 if tier == "quick" else 5
    out = explorer.explore(RUN, deeper, bound=bound, fidelity=True)
    sched.absorb(res, f"L{deeper[0]['L']}-deviation-bound-{bound}", RUN, out, deeper)
    sw = slow_write_configs(tier)
    out = explorer.explore(RUN, sw, fidelity=True)
    sched.absorb(res, "slow-peer-write-backpressure", RUN, out, sw)
    wfc = [{"T": T, "id": idk, "params": "nested", "cb": cb, "L": 1, "rich": False, "write_fails": wf}
           for T in (0.3, 1.0) for idk in ("uuid", "str", "digits") for cb in (False, True) for wf in ("receiver-gone", "closed-by-owner")]
    out = explorer.explore(RUN, wfc, fidelity=True)
    sched.absorb(res, "request-cannot-be-written", RUN, out, wfc, min_outcomes=1)
    hcfgs, hnames, uncallable = helper_configs()
    for u in uncallable:
        res.harness_errors.append(f"[helpers] discovered request helper cannot be driven: {u}")
    if hcfgs:
        out = explorer.explore(RUN_HELPER, hcfgs, fidelity=True)
        sched.absorb(res, "typed-helpers-x-distractor-prefixes", RUN_HELPER, out, hcfgs, min_outcomes=1)
        res.coverage["helpers_discovered"] = [n.split(":")[-1] for n in hnames]
    sq = sequence_configs(tier)
    out = explorer.explore(RUN_SEQ, sq, fidelity=True)
    sched.absorb(res, "calls-one-after-the-other", RUN_SEQ, out, sq)
    sched.debug_pass(res, "calls-one-after-the-other", RUN_SEQ, sq, every=53)
    if tier == "thorough":
        l3 = [dict(c, L=3, rich=False) for c in deep]
        out = explorer.explore(RUN, l3, fidelity=True)
        sched.absorb(res, "L3-all-placements", RUN, out, l3)
    res.coverage["exhaustive"] = True
    res.coverage["rule"] = (
        "every history of incoming messages of length <= L over the alphabet {R,R0,E,O,Oe,N,Q,Qn,P-,P+,B,I, X = the stream ends} "
        "(plus one optionally pre-queued message), each delivery placed at every point of the anchor-relative "
        "time menu (now, +eps, half-way, just before / exactly on (both tie orders) / just after the next library "
        "timer and the outer deadline); plus 2-3 calls one after the other on one connection or on separate connections "
        "with every history of <= L deliveries (response / error / server request bearing the id of ANY of the calls, "
        "other-id response, notification) placed before the first call or during any call; distinct = distinct observation digests"
    )
    res.assumptions = [
        "virtual-time loop schedules ready callbacks FIFO like stock asyncio; equal-time timers ordered explicitly",
        "top-level result:null is outside the alphabet (documented envelope return)",
        "message ids of int type are outside send_message's documented signature (Optional[str])",
    ]
    return res
