"""C11 - Streamable HTTP: exactly one terminal message per request, whatever the server.

Engine: E-SCHED (virtual loop) with the per-request server behaviour as the
enumerated fault.  Driver: the public ``http_client()`` context over the
scripted-server seam (lowest httpx layer).  Oracle: an independent function
from (request, behaviour) to the set of acceptable read-stream contents,
including a reference SSE parser written from the WHATWG grammar.
"""
from __future__ import annotations

import itertools
import json
from typing import Any, Dict, List, Optional, Tuple

import anyio
import httpx

from .. import core, explorer, sched, seams
from ..jsonrpc_ref import classify, dump_msg, is_id, strict_eq
from ..seams_http import patched_httpx
from ..vloop import new_loop

RUN = "vf.checks.c11:run_one"
URL = "http://mcp.test/mcp"

REQ_KINDS = {"id-a": "a", "id-0": 0, "id-7": 7, "note": None}


# ---------------------------------------------------------------------------
# reference SSE parser (WHATWG event stream interpretation)
# ---------------------------------------------------------------------------
def sse_events(text: str, keep_unterminated: bool) -> List[Tuple[str, str]]:
    lines = text.replace("\r\n", "\n").replace("\r", "\n").split("\n")
    events: List[Tuple[str, str]] = []
    etype, data, has = "", [], False
    for i, line in enumerate(lines):
        last = i == len(lines) - 1
        if line == "":
            if last:
                break
            if has:
                events.append((etype or "message", "\n".join(data)))
            etype, data, has = "", [], False
            continue
        if line.startswith(":"):
            continue
        field, sep, value = line.partition(":")
        if value.startswith(" "):
            value = value[1:]
        if field == "event":
            etype = value
        elif field == "data":
            data.append(value)
            has = True
    if has and keep_unterminated:
        events.append((etype or "message", "\n".join(data)))
    return events


def messages_of_sse(text: str, keep_unterminated: bool) -> List[dict]:
    out = []
    for etype, data in sse_events(text, keep_unterminated):
        if etype != "message":
            continue
        try:
            v = json.loads(data)
        except Exception:
            continue
        items = v if isinstance(v, list) else [v]
        for m in items:
            if classify(m)[0] is not None:
                out.append(m)
    return out


def messages_of_json(raw: bytes) -> List[dict]:
    try:
        v = json.loads(raw.decode("utf-8"))
    except Exception:
        return []
    items = v if isinstance(v, list) else [v]
    return [m for m in items if classify(m)[0] is not None]


# ---------------------------------------------------------------------------
# behaviours
# ---------------------------------------------------------------------------
def body_messages(body: str, rid: Any) -> List[dict]:
    j = {"jsonrpc": "2.0"}
    rid_eff = rid if rid is not None else "srv-x"
    R = {**j, "id": rid_eff, "result": {"text": "\u00e9\U0001F600 \u2028\u2029\u0085 sep", "n": None}}
    E = {**j, "id": rid_eff, "error": {"code": -32001, "message": "denied"}}
    N1 = {**j, "method": "notifications/message", "params": {"data": "one"}}
    N2 = {**j, "method": "notifications/progress", "params": {"progressToken": "t", "progress": 1}}
    W = {**j, "id": "someone-else", "result": {"w": 1}}
    if body.startswith("big-"):
        # one response whose text makes the line longer than any plausible buffer limit
        return [{**j, "id": rid_eff, "result": {"text": "\u00e9" + "x" * int(body.split("-")[1]) + "\U0001F600"}}]
    if body.startswith("burst-"):
        # N notifications followed by the response, all in ONE body: more than the read stream buffers
        n = int(body.split("-")[1])
        return [{**j, "method": "notifications/message", "params": {"i": i}} for i in range(n)] + [R]
    return {"resp": [R], "err": [E], "notifs+resp": [N1, N2, R], "wrong-id": [W], "batch": [N1, R],
            # messages BEHIND the response to the POSTed request are part of the body like any other
            "resp+notifs": [R, N1, N2], "notif+resp+notif": [N1, R, N2], "err+notif": [E, N1], "resp+other-response": [R, W],
            "batch-resp-first": [R, N1]}[body]


PREFIXES = ["none", "comment-block", "typed-event-without-data", "other-typed-event", "retry-only-block"]
HEADERS = ["event-message", "no-event-field", "event-no-space", "id-retry-fields"]
DATAFORMS = ["data-space", "data-no-space", "multi-data", "data-two-spaces", "data-tab", "data-empty-first-line",
             # comments and other ignorable fields may stand ANYWHERE, also between two data lines of one event
             "multi-data-comment-between", "multi-data-id-field-between"]
EOLS = ["lf", "crlf"]


def _enc_name(p, h, d, e):
    return f"{p}/{h}/{d}/{e}"


ENCODINGS = [_enc_name(p, h, d, e) for p in PREFIXES for h in HEADERS for d in DATAFORMS for e in EOLS] + \
    ["no-final-blank", "mixed"]
LEGACY = {"canonical": "none/event-message/data-space/lf", "crlf": "none/event-message/data-space/crlf"}


def _one_event(data: str, enc: str) -> str:
    p, h, d, e = enc.split("/")
    out = ""
    if p == "comment-block":
        out += ": keep-alive\n\n: note\n"
    elif p == "typed-event-without-data":
        out += "event: ping\n\n"
    elif p == "other-typed-event":
        out += "event: ping\ndata: {}\n\n"
    elif p == "retry-only-block":
        out += "retry: 3000\n\n"
    if h == "event-message":
        out += "event: message\n"
    elif h == "event-no-space":
        out += "event:message\n"
    elif h == "id-retry-fields":
        out += "id: 41\nretry: 1500\nevent: message\n: inside\n"
    if d == "data-space":
        out += f"data: {data}\n"
    elif d == "data-no-space":
        out += f"data:{data}\n"
    elif d == "data-two-spaces":
        out += f"data:  {data}\n"
    elif d == "data-tab":
        out += f"data:\t{data}\n"
    elif d == "data-empty-first-line":
        out += f"data:\ndata: {data}\n"
    elif d == "multi-data-comment-between":
        cut = data.index(",") + 1
        out += f"data: {data[:cut]}\n: keep-alive\n:\ndata: {data[cut:]}\n: trailing comment inside the event\n"
    elif d == "multi-data-id-field-between":
        cut = data.index(",") + 1
        out += f"data: {data[:cut]}\nid: 7\nretry: 10\nunknown-field: x\ndata: {data[cut:]}\n"
    else:
        cut = data.index(",") + 1
        out += f"data: {data[:cut]}\ndata: {data[cut:]}\n"
    out += "\n"
    if e == "crlf":
        out = out.replace("\n", "\r\n")
    return out


def sse_encode(msgs: List[dict], enc: str, as_batch: bool) -> str:
    enc = LEGACY.get(enc, enc)
    plain = [e for e in ENCODINGS if "/" in e]
    if as_batch:
        msgs = [msgs]
    texts = [json.dumps(m, ensure_ascii=False) for m in msgs]
    if enc == "no-final-blank":
        body = "".join(_one_event(t, plain[0]) for t in texts)
        return body[:-1]  # last event lacks its terminating blank line
    if enc == "mixed":
        # a different encoding for every message of the body, walking through the whole product
        return "".join(_one_event(t, plain[(7 * i + 11) % len(plain)]) for i, t in enumerate(texts))
    return "".join(_one_event(t, enc) for t in texts)


def behaviours() -> List[Dict[str, Any]]:
    bs: List[Dict[str, Any]] = []
    for exc in ("connect", "read-timeout", "protocol", "stall"):
        bs.append({"exc": exc})
    for status in (200, 202):
        for body in ("resp", "err", "batch", "wrong-id", "empty", "truncated", "nonjson", "nonutf8"):
            for ctype in ("json", "text", "absent"):
                bs.append({"status": status, "ctype": ctype, "body": body})
        for body in ("resp", "err", "notifs+resp", "wrong-id", "batch"):
            for enc in ENCODINGS:
                bs.append({"status": status, "ctype": "sse", "body": body, "enc": enc})
        for body in ("empty", "truncated", "nonjson"):
            bs.append({"status": status, "ctype": "sse", "body": body})
        bs.append({"status": status, "ctype": "text", "body": "resp", "enc": "canonical", "sse_text": True})
    bs.append({"status": 204, "ctype": "absent", "body": "empty"})
    bs.append({"status": 301, "ctype": "json", "body": "resp"})
    bs.append({"status": 302, "ctype": "absent", "body": "empty", "noloc": True})
    for status in (400, 401, 404, 500, 503):
        for body, ctype in (("empty", "absent"), ("err", "json"), ("nonjson", "text")):
            bs.append({"status": status, "ctype": ctype, "body": body})
    return bs


ERROBJ_SHAPES: Dict[str, Any] = {
    "well-typed": {"code": -32001, "message": "denied"},
    "code-string": {"code": "token_expired", "message": "token expired"},
    "code-digit-string": {"code": "401", "message": "unauthorized"},
    "code-float": {"code": 401.5, "message": "x"},
    "code-bool": {"code": True, "message": "x"},
    "code-null": {"code": None, "message": "x"},
    "code-missing": {"message": "x"},
    "message-int": {"code": -32000, "message": 17},
    "message-null": {"code": -32000, "message": None},
    "message-list": {"code": -32000, "message": ["a", "b"]},
    "message-missing": {"code": -32000},
    "extra-members": {"code": -32000, "message": "x", "data": {"k": None}, "type": "auth", "retry": 3},
    "empty-object": {},
    "error-is-string": "token_expired",
    "error-is-list": [{"code": -32000, "message": "x"}],
    "error-is-null": None,
}


def behaviours_error_objects() -> List[Dict[str, Any]]:
    """Appended AFTER the older behaviours (configurations refer to behaviours by index)."""
    bs = []
    for status in (400, 401, 500):
        for shape in ERROBJ_SHAPES:
            for form in ("enveloped", "bare"):
                bs.append({"status": status, "ctype": "json", "body": f"errobj:{form}:{shape}"})
    return bs


JSON_CT_PARAMS = ["charset=utf-8", "charset=UTF-8", "charset=ISO-8859-1", "charset=us-ascii", "charset=bogus",
                  'charset="utf-8"', "profile=x"]


def behaviours_json_content_types() -> List[Dict[str, Any]]:
    """JSON bodies are UTF-8 whatever the Content-Type's parameters say (RFC 8259); a leading BOM may be ignored."""
    bs = []
    for body in ("resp", "batch"):
        for p in JSON_CT_PARAMS:
            bs.append({"status": 200, "ctype": "json", "body": body, "ct_param": p})
    for p in (None, "charset=utf-8", "charset=ISO-8859-1"):
        b = {"status": 200, "ctype": "json", "body": "resp", "bom": True}
        if p:
            b["ct_param"] = p
        bs.append(b)
    return bs


INVALID_ITEMS = ["no-result-no-error", "both-result-and-error", "error-not-an-object",
                 "scalar", "null", "string", "id-is-an-object"]
INVALID_POSITIONS = ["single", "only-member-of-a-batch", "first-of-a-batch", "last-of-a-batch"]


def behaviours_invalid_items() -> List[Dict[str, Any]]:
    """2xx answers whose body is well-formed JSON but (partly) not a JSON-RPC message."""
    return [{"status": 200, "ctype": ct, "body": f"invalid:{k}:{pos}", **({"enc": "canonical"} if ct == "sse" else {})}
            for k in INVALID_ITEMS for pos in INVALID_POSITIONS for ct in ("json", "sse")]


def invalid_item(kind: str, rid: Any) -> Any:
    j = {"jsonrpc": "2.0", "id": rid if rid is not None else "srv-x"}
    return {"no-result-no-error": j, "both-result-and-error": {**j, "result": {}, "error": {"code": -32000, "message": "x"}},
            "error-not-an-object": {**j, "error": "boom"}, "error-code-not-an-integer": {**j, "error": {"code": "E1", "message": "x"}},
            "empty-object": {}, "scalar": 17, "null": None, "string": "pong",
            "id-is-an-object": {"jsonrpc": "2.0", "id": {"v": 1}, "result": {}}}[kind]


def behaviours_after_response() -> List[Dict[str, Any]]:
    bs: List[Dict[str, Any]] = []
    encs = ["none/event-message/data-space/lf", "none/event-message/data-space/crlf", "none/no-event-field/data-no-space/lf",
            "comment-block/id-retry-fields/multi-data/crlf", "no-final-blank", "mixed"]
    for status in (200, 202):
        for body in ("resp+notifs", "notif+resp+notif", "err+notif", "resp+other-response"):
            for enc in encs:
                bs.append({"status": status, "ctype": "sse", "body": body, "enc": enc})
        bs.append({"status": status, "ctype": "sse", "body": "batch-resp-first", "enc": encs[0]})
        bs.append({"status": status, "ctype": "json", "body": "batch-resp-first"})
    return bs


BEHAVIOURS = behaviours() + behaviours_error_objects() + behaviours_json_content_types() + behaviours_invalid_items() + \
    behaviours_after_response()
OK_B = {"status": 200, "ctype": "json", "body": "resp"}
CT = {"json": "application/json", "sse": "text/event-stream", "text": "text/plain; charset=utf-8"}


# how the last event of an SSE body ends (what follows its last "data:" line)
SSE_ENDINGS = {
    "blank-line": "\n\n", "line-end-only": "\n", "nothing": "", "crlf-only": "\r\n", "crlf-blank-line": "\r\n\r\n",
    "blank-line+trailing-comment": "\n\n: bye", "line-end+trailing-comment": "\n: bye",
    "blank-line+partial-field": "\n\ndat", "blank-line+event-field-only": "\n\nevent: ping",
    "blank-line+unterminated-data-of-next-event": "\n\ndata: {\"jsonrpc\"",
}


def render(b: Dict[str, Any], rid: Any) -> Tuple[bytes, Optional[str]]:
    body = b["body"]
    ctype = CT.get(b["ctype"])
    if body == "empty":
        return b"", ctype
    if body.startswith("invalid:"):
        _, kind, pos = body.split(":")
        item = invalid_item(kind, rid)
        good = body_messages("resp", rid)[0]
        doc = {"single": item, "only-member-of-a-batch": [item], "first-of-a-batch": [item, good],
               "last-of-a-batch": [good, item]}[pos]
        text = json.dumps(doc, ensure_ascii=False)
        if b["ctype"] == "sse":
            return f"event: message\ndata: {text}\n\n".encode("utf-8"), ctype
        return text.encode("utf-8"), ctype
    if b["ctype"] == "sse" or b.get("sse_text"):
        if body == "truncated":
            return b'event: message\ndata: {"jsonrpc":"2.0","id":\n\n', ctype
        if body == "nonjson":
            return b"event: message\ndata: hello there\n\n", ctype
        if body == "comment-only":
            return b": nothing to say\n\n: bye\n\n", ctype
        msgs = body_messages(body, rid)
        if "ending" in b:
            # canonical events, the LAST one ends in the chosen way (typed: with an "event: message" line)
            head = "event: message\n" if b.get("typed", True) else ""
            texts = [json.dumps(m, ensure_ascii=False) for m in msgs]
            out = "".join(f"{head}data: {t}\n\n" for t in texts[:-1]) + f"{head}data: {texts[-1]}" + SSE_ENDINGS[b["ending"]]
            return out.encode("utf-8"), ctype
        return sse_encode(msgs, b.get("enc", "canonical"), body in ("batch", "batch-resp-first")).encode("utf-8"), ctype
    if body.startswith("errobj:"):
        _, form, shape = body.split(":")
        obj: Dict[str, Any] = {"error": ERROBJ_SHAPES[shape]}
        if form == "enveloped":
            obj = {"jsonrpc": "2.0", "id": rid if rid is not None else "srv-x", **obj}
        else:
            obj["detail"] = "see the error member"
        return json.dumps(obj).encode("utf-8"), ctype
    if body == "truncated":
        return b'{"jsonrpc":"2.0","id":', ctype
    if body == "nonjson":
        return "hello, not json é".encode("utf-8"), ctype
    if body == "nonutf8":
        return b'\xff\xfe{"jsonrpc":"2.0"', ctype
    msgs = body_messages(body, rid)
    if b.get("ct_param") and ctype:
        ctype = f"{ctype}; {b['ct_param']}"
    bom = b"\xef\xbb\xbf" if b.get("bom") else b""
    if body in ("batch", "batch-resp-first") or body.startswith("burst-"):
        return bom + json.dumps(msgs, ensure_ascii=False).encode("utf-8"), ctype
    return bom + json.dumps(msgs[0], ensure_ascii=False).encode("utf-8"), ctype


def expected(b: Dict[str, Any], rid: Any) -> Dict[str, Any]:
    """Acceptable read-stream contents for one POST: {'exact': [list, ...alternatives], 'synth': bool}."""
    if "exc" in b or b.get("status", 200) >= 400:
        return {"alts": [], "synth": True}
    raw, ctype = render(b, rid)
    if b["ctype"] == "json":
        if b.get("bom"):
            # RFC 8259: a parser MAY ignore a leading BOM - the messages or a synthesised terminal
            msgs = messages_of_json(raw[3:])
            return {"alts": [msgs], "synth": True}
        msgs = messages_of_json(raw)
        return {"alts": [msgs], "synth": False} if msgs else {"alts": [], "synth": True}
    if b["ctype"] == "sse":
        text = raw.decode("utf-8")
        a = messages_of_sse(text, True)
        c = messages_of_sse(text, False)
        alts = [a] if a == c else [a, c]
        alts = [x for x in alts if x]
        return {"alts": alts, "synth": not (a and c)}
    # other / absent content type: the statement does not say how such a body is to be read -
    # its messages (read as JSON or as SSE) or a synthesised terminal are both acceptable
    text = raw.decode("utf-8", "replace")
    alts = [m for m in (messages_of_json(raw), messages_of_sse(text, True)) if m]
    return {"alts": alts, "synth": True}


# ---------------------------------------------------------------------------
# execution
# ---------------------------------------------------------------------------
def run_one(ctl: explorer.Ctl, cfg: Dict[str, Any]) -> Dict[str, Any]:
    from chuk_mcp.protocol.messages.json_rpc_message import JSONRPCNotification, JSONRPCRequest
    from chuk_mcp.transports.http.http_client import http_client
    from chuk_mcp.transports.http.parameters import StreamableHTTPParameters

    steps = cfg["steps"]  # list of {"b": behaviour index or dict, "req": kind, "session": None|"S1"|"S2"}
    loop = new_loop(horizon=600)
    q = seams.Quiescence(loop)
    state = {"i": -1, "redirected": False}
    rids = request_ids(steps)
    beh = _beh

    def handler(rec):
        if rec.method == "GET" and state["redirected"]:
            # follow-up of the 301: answer with the plain OK response
            state["redirected"] = False
            i = state["i"]
            raw, ctype = render(OK_B, rids[i])
            return httpx.Response(200, headers={"content-type": ctype}, content=raw)
        state["i"] += 1
        i = state["i"]
        if i >= len(steps):
            return httpx.Response(500, content=b"unexpected request")
        s = steps[i]
        b = beh(s)
        if b.get("exc") == "stall":
            # the server accepts the request and then goes silent: httpx's own read timeout (taken from the
            # request, exactly as httpcore would) is what ends the wait - or nothing, if the client disabled it
            return _stall(rec)
        if "exc" in b:
            return {"connect": httpx.ConnectError("connection refused"),
                    "read-timeout": httpx.ReadTimeout("timed out"),
                    "protocol": httpx.RemoteProtocolError("server disconnected without sending a response")}[b["exc"]]
        status = b["status"]
        headers = {}
        if status == 301:
            state["redirected"] = True
            return httpx.Response(301, headers={"location": "http://mcp.test/moved"})
        raw, ctype = render(b, rids[i])
        if ctype:
            headers["content-type"] = ctype
        if s.get("session") and status < 300:
            headers["mcp-session-id"] = s["session"]
        if status == 204:
            raw = b""
        return httpx.Response(status, headers=headers, content=raw)

    async def _stall(rec):
        import asyncio as _a
        rt = (rec.timeout or {}).get("read")
        if rt is None:
            await _a.get_running_loop().create_future()  # never
        await _a.sleep(rt)
        return httpx.ReadTimeout("timed out")

    got_per_step: List[List[Any]] = []
    info: Dict[str, Any] = {}

    async def main():
        with patched_httpx(handler) as px:
            info["px"] = px
            kw = {"max_concurrent_requests": cfg["max_concurrent"]} if cfg.get("max_concurrent") else {}
            kw.update(cfg.get("params") or {})
            kw.setdefault("timeout", 5.0)
            params = StreamableHTTPParameters(url=URL, **kw)
            async with http_client(params) as (read, write):
                for n, s in enumerate(steps):
                    if rids[n] is None:
                        msg = JSONRPCNotification(method="notifications/initialized", params={})
                    else:
                        msg = JSONRPCRequest(id=rids[n], method="tools/list", params={"n": n})
                    await write.send(msg)
                    await q.settle()
                    if beh(s).get("exc") == "stall":
                        # let (virtual) time pass beyond the transport's configured timeout
                        import asyncio as _a
                        await _a.sleep(6.0)
                        await q.settle()
                    # the reader takes what is there only AFTER the POST was processed as far as it can go, then keeps
                    # draining and settling until nothing more comes (a body may hold more than the stream buffers)
                    got = []
                    for _round in range(16):
                        n0 = len(got)
                        try:
                            while True:
                                got.append(read.receive_nowait())
                        except (anyio.WouldBlock, anyio.EndOfStream):
                            pass
                        if len(got) == n0 and _round:
                            break
                        await q.settle()
                    got_per_step.append(got)

    status, val = loop.run_main(main())
    errors = loop.collect_errors()
    leftover = len(loop.leftover_tasks())
    loop.abandon()
    obs: Dict[str, Any] = {"status": status}
    viol: List[dict] = []
    if status != "ok":
        obs["outcome"] = status
        obs["violations"] = [{"sig": {"class": "did-not-finish", "status": status}, "msg": f"steps={steps}: {status} {core.clean_repr(val)}"}]
        return obs
    px = info["px"]
    posts = [r for r in px.requests if r.method == "POST"]
    if not px.requests:
        raise core.HarnessError("seam missing: no request reached httpx.AsyncHTTPTransport.handle_async_request")
    got_dumped = [[dump_msg(m) for m in g] for g in got_per_step]
    opts = cfg.get("params") or {}
    supplied = [v for k, v in (opts.get("headers") or {}).items() if k.lower() == "mcp-session-id"]
    initial = opts.get("session_id") or (supplied[0] if supplied else None)
    lines = [[v for k, v in r.raw_headers if k == "mcp-session-id"] for r in posts]
    summary, viol = judge(steps, rids, got_dumped, [(r.json(), r.headers) for r in posts], initial_session=initial,
                          session_lines=lines)
    # every request is written to the server ONCE
    per_id: Dict[str, int] = {}
    for r in posts:
        j = r.json()
        key = json.dumps(j.get("id") if isinstance(j, dict) else None)
        per_id[key] = per_id.get(key, 0) + 1
    for n, rid in enumerate(rids):
        if rid is not None and per_id.get(json.dumps(rid), 0) > 1:
            viol.append({"sig": {"class": "request-posted-twice", **_tag(_beh(steps[n]))},
                         "msg": f"steps={steps}: request {n} (id {rid!r}) was POSTed {per_id[json.dumps(rid)]} times"})
    if len(posts) > len(steps):
        obs["extra_posts"] = len(posts) - len(steps)
    for name, value in ((opts.get("headers") or {}).items()):
        if name.lower() in ("content-type", "accept", "mcp-session-id"):
            continue
        for r in posts:
            if r.headers.get(name.lower()) != value:
                viol.append({"sig": {"class": "configured-header-missing", "header": name},
                             "msg": f"steps={steps} options={opts}: a POST carried {name}={r.headers.get(name.lower())!r}"})
                break
    if errors:
        viol.append({"sig": {"class": "loop-error"}, "msg": f"steps={steps}: {errors[:2]}"})
    if leftover:
        viol.append({"sig": {"class": "leftover-tasks"}, "msg": f"steps={steps}: {leftover} tasks left after the context"})
    obs["outcome"] = "/".join(summary)
    obs["posts"] = len(posts)
    obs["steps"] = [[_tag(_beh(s)), s["req"], s.get("session")] for s in steps]
    obs["violations"] = viol
    return obs


def _beh(s):
    return BEHAVIOURS[s["b"]] if isinstance(s["b"], int) else s["b"]


def request_ids(steps) -> List[Any]:
    rids: List[Any] = []
    for n, s in enumerate(steps):
        base = REQ_KINDS[s["req"]]
        rids.append(None if base is None else (f"{base}{n}" if isinstance(base, str) else base + 10 * n))
    return rids


def judge(steps, rids, got_per_step, posts, initial_session=None, session_lines=None):
    """posts: [(json body, lower-cased headers)] of the POSTs in order.  Returns (summary, violations)."""
    viol: List[dict] = []
    beh = _beh

    def norm(m):
        return {k: v for k, v in m.items() if v is not None or k == "result"}

    summary = []
    issued = initial_session
    for n, s in enumerate(steps):
        b = beh(s)
        rid = rids[n]
        got = list(got_per_step[n]) if n < len(got_per_step) else []
        got = [norm(g) if isinstance(g, dict) else g for g in got]
        ex = expected(b, rid)
        tag = _tag(b)

        prev_end = {}
        if n and "ending" in beh(steps[n - 1]):
            prev_end = {"previous_body": _tag(beh(steps[n - 1]))["encoding"]}

        def bad(cls, msg, **extra):
            viol.append({"sig": {"class": cls, **tag, **prev_end, "request": "notification" if rid is None else
                                 ("id-0" if rid == 0 and n == 0 else "with-id"), **extra},
                         "msg": f"step {n} of {len(steps)} behaviour={b} request id={rid!r}: {msg}; delivered={got}"})

        # the POST itself
        if n >= len(posts):
            bad("request-not-posted", "this request was never POSTed (sender loop stopped?)", earlier=_tag(beh(steps[n - 1]))["body"] if n else None)
            summary.append("unposted")
            continue
        sent, hdrs = posts[n]
        want_hdr = issued
        have_hdr = hdrs.get("mcp-session-id")
        vals = session_lines[n] if session_lines is not None and n < len(session_lines) else None
        if vals is not None and len(vals) > 1:
            # several session header lines on the wire (names compared case-insensitively)
            bad("several-session-headers-on-the-wire", f"POST carried {len(vals)} Mcp-Session-Id lines: {vals}")
            if want_hdr not in vals:
                bad("session-header", f"POST carried Mcp-Session-Id lines {vals}, none is the most recently issued {want_hdr!r}")
        elif have_hdr != want_hdr:
            bad("session-header", f"POST carried Mcp-Session-Id {have_hdr!r}, most recently issued {want_hdr!r}",
                **({"carried": "the-callers-own-header"} if initial_session is not None and have_hdr == initial_session else {}))
        if not isinstance(sent, dict) or sent.get("id") != rid or (rid is not None and type(sent.get("id")) is not type(rid)):
            bad("posted-body", f"POST body {sent!r}")
        if "exc" not in b and b["status"] < 300 and s.get("session"):
            issued = s["session"]

        ok = any(len(got) == len(alt) and all(strict_eq(g, norm(a)) for g, a in zip(got, alt)) for alt in ex["alts"])
        how = "messages" if ok else None
        if not ok and ex["synth"]:
            if rid is None:
                # notification POST: nothing carrying an id may appear
                if all(isinstance(g, dict) and g.get("id") is None for g in got) and len(got) <= 1:
                    ok, how = True, "nothing" if not got else "idless-error"
                    if got and classify({**got[0], "id": 0})[0] != "error":
                        # what the TRANSPORT makes up must satisfy the envelope grammar (integer code, string message)
                        ok, how = False, None
            elif len(got) == 1 and isinstance(got[0], dict) and type(got[0].get("id")) is type(rid) and got[0].get("id") == rid \
                    and classify(got[0])[0] in ("error", "result"):
                ok, how = True, "synth-" + classify(got[0])[0]
        if rid is None and not ok and not ex["synth"]:
            pass
        if not ok:
            if not got:
                bad("no-terminal-message", f"nothing was delivered; acceptable: {ex}")
            elif rid is None and any(isinstance(g, dict) and g.get("id") is not None for g in got) and not ex["alts"]:
                bad("id-invented-for-notification", "a message carrying an id was delivered for a notification POST")
            elif ex["alts"] and len(got) < min(len(a) for a in ex["alts"]):
                bad("messages-lost", f"acceptable: {ex}")
            elif len(got) > 1 and not ex["alts"]:
                bad("several-terminals", f"acceptable: {ex}")
            else:
                bad("wrong-messages", f"acceptable: {ex}")
        summary.append(how or "bad")
    return summary, viol


def _tag(b: Dict[str, Any]) -> Dict[str, Any]:
    if "exc" in b:
        return {"body": "exception:" + b["exc"], "ctype": None, "encoding": None}
    status = b["status"]
    sc = "2xx" if status < 300 else ("3xx" if status < 400 else "error-status")
    enc = b.get("enc")
    if b.get("ct_param") or b.get("bom"):
        enc = f"content-type-parameter:{b.get('ct_param')}" + ("/leading-BOM" if b.get("bom") else "")
    if "ending" in b:
        enc = f"last-event-ends:{b['ending']}/{'typed' if b.get('typed', True) else 'untyped'}"
    return {"body": b["body"], "ctype": b["ctype"], "encoding": enc}


# ---------------------------------------------------------------------------
# pipelined requests: several written back to back, the server answers with delays
# ---------------------------------------------------------------------------
RUN_PIPE = "vf.checks.c11:run_pipelined"


def run_pipelined(ctl: explorer.Ctl, cfg: Dict[str, Any]) -> Dict[str, Any]:
    """All requests are written before any answer exists; each answer is delayed by the configured (virtual) time.
    Whether the transport posts them one after the other or concurrently, every request must get its own terminal."""
    from chuk_mcp.protocol.messages.json_rpc_message import JSONRPCNotification, JSONRPCRequest
    from chuk_mcp.transports.http.http_client import http_client
    from chuk_mcp.transports.http.parameters import StreamableHTTPParameters
    import asyncio as _a

    steps = cfg["steps"]
    rids = request_ids(steps)
    loop = new_loop(horizon=600)
    q = seams.Quiescence(loop)
    by_id = {json.dumps(r): n for n, r in enumerate(rids)}
    posts_by_step: Dict[int, Any] = {}
    got_all: List[Any] = []
    info: Dict[str, Any] = {}

    async def handler(rec):
        sent = rec.json()
        n = by_id.get(json.dumps(sent.get("id") if isinstance(sent, dict) else None))
        if n is None:
            return httpx.Response(500, content=b"unknown request")
        posts_by_step[n] = (sent, rec.headers)
        s = steps[n]
        b = _beh(s)
        await _a.sleep(s.get("delay", 0.0))
        if "exc" in b:
            return httpx.ConnectError("connection refused")
        raw, ctype = render(b, rids[n])
        headers = {"content-type": ctype} if ctype else {}
        return httpx.Response(b["status"], headers=headers, content=raw)

    async def main():
        with patched_httpx(handler) as px:
            info["px"] = px
            async with http_client(StreamableHTTPParameters(url=URL, timeout=5.0)) as (read, write):
                for n, s in enumerate(steps):
                    await write.send(JSONRPCRequest(id=rids[n], method="tools/list", params={"n": n}))
                await _a.sleep(sum(s.get("delay", 0.0) for s in steps) + 1.0)
                await q.settle()
                try:
                    while True:
                        got_all.append(read.receive_nowait())
                except (anyio.WouldBlock, anyio.EndOfStream):
                    pass

    status, val = loop.run_main(main())
    errors = loop.collect_errors()
    loop.abandon()
    if status != "ok":
        return {"outcome": status, "violations": [{"sig": {"class": "did-not-finish", "part": "pipelined"}, "msg": f"steps={steps}: {status} {core.clean_repr(val)}"}]}
    # attribute delivered messages to requests by id (notifications in a body are attributed to the request they follow)
    dumped = [dump_msg(m) for m in got_all]
    got_per_step: List[List[Any]] = [[] for _ in steps]
    for m in dumped:
        key = json.dumps(m.get("id")) if isinstance(m, dict) else None
        n = by_id.get(key)
        if n is not None and isinstance(m, dict) and "method" not in m:
            got_per_step[n].append(m)
    posts = [posts_by_step.get(n, (None, {})) for n in range(len(steps))]
    viol: List[dict] = []
    summary = []
    for n, s in enumerate(steps):
        b = _beh(s)
        ex = expected(b, rids[n])
        own = got_per_step[n]
        want_terminal = [m for alt in ex["alts"][:1] for m in alt if isinstance(m, dict) and "method" not in m and m.get("id") == rids[n]]
        if n not in posts_by_step:
            viol.append({"sig": {"class": "request-not-posted", "part": "pipelined"}, "msg": f"steps={steps}: request {n} never POSTed"})
            summary.append("unposted")
        elif len(own) != 1:
            viol.append({"sig": {"class": "no-terminal-message" if not own else "several-terminals", "part": "pipelined",
                                 "body": _tag(b)["body"]},
                         "msg": f"steps={[(_tag(_beh(x))['body'], x.get('delay')) for x in steps]}: request {n} (id {rids[n]!r}) got {own}; "
                                f"all delivered: {dumped}"})
            summary.append(f"{len(own)}-terminals")
        elif want_terminal and not strict_eq({k: v for k, v in own[0].items() if v is not None or k == 'result'}, want_terminal[0]):
            viol.append({"sig": {"class": "wrong-messages", "part": "pipelined"}, "msg": f"request {n}: {own[0]} vs {want_terminal[0]}"})
            summary.append("wrong")
        else:
            summary.append("ok")
    if errors:
        viol.append({"sig": {"class": "loop-error"}, "msg": f"{errors[:2]}"})
    return {"outcome": "/".join(summary), "steps": [[_tag(_beh(x))["body"], x.get("delay")] for x in steps], "violations": viol}


# ---------------------------------------------------------------------------
# two connections built from ONE parameters object (alive together / one after the other / control: own objects)
# ---------------------------------------------------------------------------
RUN_TWO = "vf.checks.c11:run_two_connections"
TWO_MODES = ["alive-together:one-parameters-object", "one-after-the-other:one-parameters-object",
             "alive-together:own-parameters-objects"]
TWO_HEADERS: List[Optional[Dict[str, str]]] = [None, {}, {"X-Client": "vf", "Authorization": "Bearer t0k"}]
# session ids the server issues on the 1st / 2nd request of a connection (the 3rd request only observes)
TWO_ISSUE = [[None, None], ["1", None], [None, "2"], ["1", "2"]]
TWO_REQS = 3


def run_two_connections(ctl: explorer.Ctl, cfg: Dict[str, Any]) -> Dict[str, Any]:
    from contextlib import AsyncExitStack

    from chuk_mcp.protocol.messages.json_rpc_message import JSONRPCRequest
    from chuk_mcp.transports.http.http_client import http_client
    from chuk_mcp.transports.http.parameters import StreamableHTTPParameters

    mode = TWO_MODES[cfg["mode"]]
    hdrs = TWO_HEADERS[cfg["headers"]]
    init_sid = cfg.get("init")          # parameters.session_id (reconnect to a known session) or None
    issue = {"A": TWO_ISSUE[cfg["a"]], "B": TWO_ISSUE[cfg["b"]]}
    loop = new_loop(horizon=600)
    q = seams.Quiescence(loop)
    seen: Dict[str, List[Any]] = {"A": [], "B": []}      # per connection: [(request index, headers)]
    got: Dict[str, List[Any]] = {"A": [], "B": []}
    order: List[str] = []
    info: Dict[str, Any] = {}

    def sid(conn, k):
        tag = issue[conn][k] if k < 2 else None
        return None if tag is None else f"S-{conn}{tag}"

    def handler(rec):
        sent = rec.json()
        rid = sent.get("id") if isinstance(sent, dict) else None
        if not (isinstance(rid, str) and len(rid) == 2 and rid[0] in "AB"):
            return httpx.Response(500, content=b"unknown request")
        conn, k = rid[0], int(rid[1])
        seen[conn].append((k, rec.headers))
        headers = {"content-type": "application/json"}
        if sid(conn, k):
            headers["mcp-session-id"] = sid(conn, k)
        body = {"jsonrpc": "2.0", "id": rid, "result": {"for": rid}}
        return httpx.Response(200, headers=headers, content=json.dumps(body).encode())

    def make_params():
        return StreamableHTTPParameters(url=URL, timeout=5.0, headers=None if hdrs is None else dict(hdrs),
                                        session_id=init_sid)

    async def send(conn, k, streams):
        read, write = streams[conn]
        await write.send(JSONRPCRequest(id=f"{conn}{k}", method="tools/list", params={"n": k}))
        await q.settle()
        try:
            while True:
                got[conn].append(dump_msg(read.receive_nowait()))
        except (anyio.WouldBlock, anyio.EndOfStream):
            pass

    async def main():
        with patched_httpx(handler) as px:
            info["px"] = px
            shared = make_params()
            pa = shared
            pb = shared if "one-parameters-object" in mode else make_params()
            info["params"] = [pa, pb]
            info["headers_before"] = [json.dumps(p.headers, sort_keys=True) for p in (pa, pb)]
            if mode.startswith("alive-together"):
                async with http_client(pa) as sa:
                    async with http_client(pb) as sb:
                        streams = {"A": sa, "B": sb}
                        nxt = {"A": 0, "B": 0}
                        while nxt["A"] < TWO_REQS or nxt["B"] < TWO_REQS:
                            menu = [c for c in "AB" if nxt[c] < TWO_REQS]
                            c = menu[ctl.choose(len(menu), "whose-request-next")] if len(menu) > 1 else menu[0]
                            order.append(c)
                            await send(c, nxt[c], streams)
                            nxt[c] += 1
            else:
                for c, p in (("A", pa), ("B", pb)):
                    async with http_client(p) as st:
                        for k in range(TWO_REQS):
                            order.append(c)
                            await send(c, k, {c: st})
            info["headers_after"] = [json.dumps(p.headers, sort_keys=True) for p in (pa, pb)]
            info["session_id_after"] = [p.session_id for p in (pa, pb)]

    status, val = loop.run_main(main())
    errors = loop.collect_errors()
    loop.abandon()
    viol: List[dict] = []
    ctx = {"mode": mode, "configured_headers": "none" if hdrs is None else ("empty" if not hdrs else "some"),
           "initial_session_id": init_sid is not None}

    def bad(cls, msg, **extra):
        viol.append({"sig": {"class": cls, **ctx, **extra},
                     "msg": f"{mode}, parameters.headers={hdrs!r} session_id={init_sid!r}, server issues A:{issue['A']} "
                            f"B:{issue['B']}, requests sent in order {order}: {msg}"})

    if status != "ok":
        bad("did-not-finish", f"{status} {core.clean_repr(val)}")
        return {"outcome": status, "violations": viol}
    if not info["px"].requests:
        raise core.HarnessError("seam missing: no request reached the scripted httpx transport")
    heads = []
    for c in "AB":
        # what this connection would see alone: the most recent id issued ON THIS connection (the configured one before)
        cur = init_sid
        if [k for k, _h in seen[c]] != list(range(TWO_REQS)):
            bad("requests-not-posted-in-order", f"connection {c} POSTed requests {[k for k, _h in seen[c]]}", connection=c)
            continue
        for k, h in seen[c]:
            have = h.get("mcp-session-id")
            heads.append(have)
            if have != cur:
                other = "AB".replace(c, "")
                bad("session-header-of-another-connection" if have is not None and have.startswith(f"S-{other}")
                    else "session-header", f"request {c}{k} carried Mcp-Session-Id {have!r}; the most recent id issued on "
                    f"connection {c} is {cur!r}", connection=c)
            for name, value in (hdrs or {}).items():
                if h.get(name.lower()) != value:
                    bad("configured-header-missing", f"request {c}{k} carried {name}={h.get(name.lower())!r}", connection=c)
            if sid(c, k):
                cur = sid(c, k)
        want = [{"jsonrpc": "2.0", "id": f"{c}{k}", "result": {"for": f"{c}{k}"}} for k in range(TWO_REQS)]
        if not (len(got[c]) == len(want) and all(strict_eq(a, b) for a, b in zip(got[c], want))):
            bad("wrong-messages-on-connection", f"connection {c} read {got[c]}, alone it reads {want}", connection=c)
    if info["headers_after"] != info["headers_before"]:
        bad("parameters-object-modified", f"parameters.headers was {info['headers_before']} before the connections and is "
                                          f"{info['headers_after']} afterwards")
    if info["session_id_after"] != [init_sid, init_sid]:
        bad("parameters-object-modified", f"parameters.session_id is now {info['session_id_after']}", member="session_id")
    if errors:
        bad("loop-error", f"{errors[:2]}")
    return {"outcome": "/".join(str(x) for x in heads), "order": order, "violations": viol}


# ---------------------------------------------------------------------------
# two live connections whose exchanges OVERLAP: A's POST is still in flight while B completes a round trip
# ---------------------------------------------------------------------------
RUN_OVL = "vf.checks.c11:run_two_overlapping"
OVL_A = [  # answers without any message: the transport must synthesise A's terminal message itself
    {"status": 200, "ctype": "sse", "body": "empty"},
    {"status": 200, "ctype": "sse", "body": "comment-only"},
    {"status": 200, "ctype": "json", "body": "empty"},
    {"status": 202, "ctype": "text", "body": "nonjson"},
    {"status": 202, "ctype": "absent", "body": "empty"},
    {"status": 200, "ctype": "sse", "body": "nonjson"},
    {"status": 204, "ctype": "absent", "body": "empty"},
    {"status": 500, "ctype": "text", "body": "nonjson"},
    {"exc": "connect"},
    {"status": 200, "ctype": "json", "body": "resp"},          # control: a real answer
]
OVL_B = [
    {"status": 200, "ctype": "json", "body": "resp"},
    {"status": 200, "ctype": "sse", "body": "resp", "enc": "canonical"},
    {"status": 200, "ctype": "sse", "body": "notifs+resp", "enc": "canonical"},
    {"status": 200, "ctype": "sse", "body": "empty"},          # B message-less as well
]
OVL_HOLD = ["A-held-while-B-completes", "both-held", "nobody-held"]


def run_two_overlapping(ctl: explorer.Ctl, cfg: Dict[str, Any]) -> Dict[str, Any]:
    from chuk_mcp.protocol.messages.json_rpc_message import JSONRPCRequest
    from chuk_mcp.transports.http.http_client import http_client
    from chuk_mcp.transports.http.parameters import StreamableHTTPParameters

    beh = {"A": OVL_A[cfg["a"]], "B": OVL_B[cfg["b"]]}
    hold = OVL_HOLD[cfg["hold"]]
    held = {"A": hold != "nobody-held", "B": hold == "both-held"}
    rids = {"A": "A0" if cfg.get("ids", "str") == "str" else 70, "B": "B0" if cfg.get("ids", "str") == "str" else 71}
    loop = new_loop(horizon=600)
    q = seams.Quiescence(loop)
    gates: Dict[str, Any] = {}
    posts: Dict[str, Any] = {}
    got: Dict[str, List[Any]] = {"A": [], "B": []}
    order: List[str] = []

    async def handler(rec):
        sent = rec.json()
        rid = sent.get("id") if isinstance(sent, dict) else None
        c = "A" if rid == rids["A"] else "B" if rid == rids["B"] else None
        if c is None:
            return httpx.Response(500, content=b"unknown request")
        posts[c] = (sent, rec.headers)
        if held[c]:
            gates[c] = loop.create_future()
            await gates[c]
        b = beh[c]
        if "exc" in b:
            return httpx.ConnectError("connection refused")
        raw, ctype = render(b, rids[c])
        if b["status"] == 204:
            raw = b""
        return httpx.Response(b["status"], headers={"content-type": ctype} if ctype else {}, content=raw)

    def drain(streams):
        for c in "AB":
            try:
                while True:
                    got[c].append(dump_msg(streams[c][0].receive_nowait()))
            except (anyio.WouldBlock, anyio.EndOfStream):
                pass

    async def main():
        with patched_httpx(handler):
            async with http_client(StreamableHTTPParameters(url=URL, timeout=5.0)) as sa:
                async with http_client(StreamableHTTPParameters(url=URL, timeout=5.0)) as sb:
                    streams = {"A": sa, "B": sb}
                    for c in "AB":
                        order.append(f"send{c}")
                        await streams[c][1].send(JSONRPCRequest(id=rids[c], method="tools/list", params={"from": c}))
                        await q.settle()
                        drain(streams)
                    pending = [c for c in "AB" if held[c]]
                    while pending:
                        c = pending.pop(ctl.choose(len(pending), "release-whose-answer") if len(pending) > 1 else 0)
                        order.append(f"answer{c}")
                        if c not in gates:
                            raise core.HarnessError(f"overlap: connection {c} never POSTed its request")
                        gates[c].set_result(None)
                        await q.settle()
                        drain(streams)
                    await q.settle()
                    drain(streams)

    status, val = loop.run_main(main())
    errors = loop.collect_errors()
    loop.abandon()
    if status != "ok":
        if isinstance(val, core.HarnessError):
            raise val
        return {"outcome": status, "violations": [{"sig": {"class": "did-not-finish", "part": "overlap", "hold": hold},
                                                   "msg": f"cfg={cfg} order={order}: {status} {core.clean_repr(val)}"}]}
    viol: List[dict] = []
    summary = []
    for c in "AB":
        other = "AB".replace(c, "")
        # what this connection reads ALONE (reference oracle of the single-connection parts)
        one = [{"b": beh[c], "req": "id-a", "session": None}]
        sm, vs = judge(one, [rids[c]], [got[c]], [posts[c]] if c in posts else [])
        summary.append(f"{c}:{sm[0]}")
        for v in vs:
            v["sig"] = {**v["sig"], "part": "overlap", "connection": c, "hold": hold,
                        "other_connection_answer": _tag(beh[other])["body"] + "/" + str(_tag(beh[other])["ctype"])}
            v["msg"] = f"two live connections, {hold}, order {order}, A answers {beh['A']}, B answers {beh['B']}; connection {c}: " + v["msg"]
            viol.append(v)
    if errors:
        viol.append({"sig": {"class": "loop-error", "part": "overlap"}, "msg": f"{errors[:2]}"})
    return {"outcome": "/".join(summary), "order": order, "violations": viol}


def overlapping_configs() -> List[Dict[str, Any]]:
    return [{"a": a, "b": b, "hold": h, "ids": i} for a in range(len(OVL_A)) for b in range(len(OVL_B))
            for h in range(len(OVL_HOLD)) for i in ("str", "int")]


def two_connection_configs() -> List[Dict[str, Any]]:
    return [{"mode": m, "headers": h, "init": i, "a": a, "b": b}
            for m in range(len(TWO_MODES)) for h in range(len(TWO_HEADERS)) for i in (None, "S-P0")
            for a in range(len(TWO_ISSUE)) for b in range(len(TWO_ISSUE))]


PIPE_BEHS = [
    {"status": 200, "ctype": "json", "body": "resp"},
    {"status": 200, "ctype": "sse", "body": "empty"},
    {"status": 200, "ctype": "sse", "body": "nonjson"},
    {"status": 202, "ctype": "absent", "body": "empty"},
    {"status": 500, "ctype": "text", "body": "nonjson"},
    {"exc": "connect"},
    {"status": 200, "ctype": "sse", "body": "resp", "enc": "none/no-event-field/data-space/lf"},
]


REPS = [
    {"status": 200, "ctype": "json", "body": "resp"},
    {"status": 200, "ctype": "sse", "body": "notifs+resp", "enc": "canonical"},
    {"status": 202, "ctype": "absent", "body": "empty"},
    {"status": 200, "ctype": "json", "body": "truncated"},
    {"status": 500, "ctype": "text", "body": "nonjson"},
    {"status": 404, "ctype": "absent", "body": "empty"},
    {"exc": "connect"},
    {"exc": "read-timeout"},
    {"status": 200, "ctype": "json", "body": "wrong-id"},
    {"status": 200, "ctype": "sse", "body": "err", "enc": "crlf"},
    {"status": 301, "ctype": "json", "body": "resp"},
    {"status": 200, "ctype": "json", "body": "err"},
]


REPS_MORE = [
    {"exc": "stall"},
    {"exc": "protocol"},
    {"status": 200, "ctype": "sse", "body": "resp", "enc": "typed-event-without-data/no-event-field/data-no-space/crlf"},
    {"status": 200, "ctype": "sse", "body": "batch", "enc": "comment-block/id-retry-fields/multi-data/lf"},
    {"status": 200, "ctype": "sse", "body": "empty"},
    {"status": 202, "ctype": "text", "body": "nonjson"},
    {"status": 200, "ctype": "json", "body": "batch"},
    {"status": 204, "ctype": "absent", "body": "empty"},
    {"status": 302, "ctype": "absent", "body": "empty", "noloc": True},
    {"status": 200, "ctype": "json", "body": "nonutf8"},
]


def configs_for(tier: str):
    parts = {}
    g = []
    for bi in range(len(BEHAVIOURS)):
        for rk in REQ_KINDS:
            for sess in (None, "S1"):
                g.append({"steps": [{"b": bi, "req": rk, "session": sess}, {"b": OK_B, "req": "id-a", "session": None}]})
    parts["single-behaviour-then-ok"] = g
    g = []
    maxlen = 3 if tier == "quick" else 4
    reps = REPS + REPS_MORE
    for L in range(2, maxlen + 1):
        for combo in itertools.product(range(len(reps)), repeat=L):
            kinds = ["id-a", "id-7", "note", "id-a"]
            g.append({"steps": [{"b": reps[c], "req": kinds[i % 4], "session": None} for i, c in enumerate(combo)]})
    parts[f"sequences-len<={maxlen}"] = g
    g = []
    sess_alpha = ["S1", "S2", "none", "4xx", "exc"]
    for L in range(1, 5):
        for combo in itertools.product(sess_alpha, repeat=L):
            steps = []
            for c in combo:
                if c == "4xx":
                    steps.append({"b": {"status": 401, "ctype": "absent", "body": "empty"}, "req": "id-a", "session": "S9"})
                elif c == "exc":
                    steps.append({"b": {"exc": "connect"}, "req": "id-a", "session": None})
                else:
                    steps.append({"b": OK_B, "req": "id-a", "session": None if c == "none" else c})
            steps.append({"b": OK_B, "req": "id-a", "session": None})
            g.append({"steps": steps})
    parts["session-sequences-len<=4"] = g
    g = []
    for n in (99, 100, 101, 150):
        for rk in ("id-a", "id-7", "id-0", "note"):
            for b in ({"status": 200, "ctype": "json"}, {"status": 200, "ctype": "sse", "enc": "canonical"},
                      {"status": 200, "ctype": "sse", "enc": "crlf"}, {"status": 202, "ctype": "sse", "enc": "canonical"}):
                g.append({"steps": [{"b": dict(b, body=f"burst-{n}"), "req": rk, "session": None},
                                    {"b": OK_B, "req": "id-a", "session": None}]})
    for n in (61440, 65535, 65536, 65537, 204800):
        for b in ({"status": 200, "ctype": "json"}, {"status": 200, "ctype": "sse", "enc": "canonical"},
                  {"status": 200, "ctype": "sse", "enc": "crlf"}):
            g.append({"steps": [{"b": dict(b, body=f"big-{n}"), "req": "id-a", "session": None},
                                {"b": OK_B, "req": "id-7", "session": None}]})
    parts["burst-bodies-drained-after-the-post"] = g
    # long runs of ONE failure class (whatever a failing exchange leaks adds up), then a plain request
    g = []
    fails = [{"exc": e} for e in ("connect", "read-timeout", "protocol", "stall")] + \
        [{"status": st, "ctype": "absent", "body": "empty"} for st in (400, 401, 404, 500, 503)] + \
        [{"status": 200, "ctype": "sse", "body": "empty"}, {"status": 200, "ctype": "json", "body": "empty"},
         {"status": 202, "ctype": "absent", "body": "empty"}, {"status": 200, "ctype": "sse", "body": "nonjson"},
         {"status": 200, "ctype": "json", "body": "truncated"}, {"status": 204, "ctype": "absent", "body": "empty"}]
    ks = (9, 10, 11, 12, 25) if tier == "quick" else tuple(range(1, 31))
    mcs = (None,) if tier == "quick" else (None, 1, 2)
    kinds = ["id-a", "id-7", "id-a", "note"]
    for f in fails:
        for k in ks:
            for mc in mcs:
                if mc is not None and k > 6 and k % 5:
                    continue
                for form in ("run", "alternating-with-ok"):
                    steps = []
                    for i in range(k):
                        steps.append({"b": f, "req": kinds[len(steps) % 4], "session": None})
                        if form != "run":
                            steps.append({"b": OK_B, "req": kinds[len(steps) % 4] if kinds[len(steps) % 4] != "note" else "id-a",
                                          "session": None})
                    steps.append({"b": OK_B, "req": "id-a", "session": None})
                    c = {"steps": steps}
                    if mc is not None:
                        c["max_concurrent"] = mc
                    g.append(c)
    parts["long-runs-of-one-failure"] = g
    # consecutive SSE bodies on one connection: however the first one ENDS, the next answer is read on its own
    g = []
    firsts = [{"status": 200, "ctype": "sse", "body": body, "ending": e, "typed": t}
              for e in SSE_ENDINGS for t in (True, False) for body in ("resp", "notifs+resp")]
    resp_endings = [f for f in firsts if f["body"] == "resp"]
    seconds = [{"status": 200, "ctype": "sse", "body": "resp", "enc": "canonical"},
               {"status": 200, "ctype": "sse", "body": "notifs+resp", "ending": "nothing", "typed": False},
               {"status": 200, "ctype": "sse", "body": "resp", "ending": "blank-line", "typed": False},
               {"status": 200, "ctype": "json", "body": "resp"}, {"status": 202, "ctype": "absent", "body": "empty"}]
    for a in firsts:
        for b in seconds:
            g.append({"steps": [{"b": a, "req": "id-a", "session": None}, {"b": b, "req": "id-7", "session": None}]})
    for a in firsts:
        for b in resp_endings:
            for c in seconds[:2] + seconds[3:4]:
                if tier == "quick" and a["body"] != "resp":
                    continue
                g.append({"steps": [{"b": a, "req": "id-a", "session": None}, {"b": b, "req": "id-7", "session": None},
                                    {"b": c, "req": "id-a", "session": None}]})
    parts["consecutive-sse-bodies-by-ending"] = g
    # a session header supplied by the CALLER (in parameters.headers, any spelling, or as parameters.session_id): ids the
    # server issues later still take over
    g = []
    supplied = [{"headers": {k: "S-caller"}} for k in ("Mcp-Session-Id", "mcp-session-id", "MCP-SESSION-ID", "mCp-SeSsIoN-iD")] + \
        [{"session_id": "S-caller"}, {"headers": {"X-Other": "1"}}]
    for opt in supplied:
        for issue in ([None, None, None], ["S1", None, None], [None, "S2", None], ["S1", "S2", None], ["S1", "S1", "S3"]):
            steps = [{"b": OK_B, "req": "id-a", "session": x} for x in issue] + [{"b": OK_B, "req": "id-7", "session": None}]
            g.append({"steps": steps, "params": opt})
    parts["session-header-supplied-by-the-caller"] = g
    # every constructor option the transport reads, at a non-default value, x a reduced behaviour set that holds every
    # SSE prefix / header form: what the endpoint answers decides what is delivered, not the options
    g = []
    options = [{"enable_streaming": False}, {"timeout": 0.5}, {"timeout": 120.0}, {"max_concurrent_requests": 1},
               {"bearer_token": "tok-1"}, {"headers": {"X-A": "1", "Accept-Language": "en"}},
               {"headers": {"Accept": "application/json", "Content-Type": "text/plain"}}, {"session_id": "S-P"},
               {"user_agent": "vf-agent/9"}, {"max_retries": 0, "retry_delay": 0.0},
               {"enable_streaming": False, "session_id": "S-P", "bearer_token": "t", "max_concurrent_requests": 2}]
    reduced = [{"status": 200, "ctype": "sse", "body": "resp", "enc": _enc_name(p, h, "data-space", "lf")}
               for p in PREFIXES for h in HEADERS] + \
        [{"status": 200, "ctype": "sse", "body": "notifs+resp", "enc": "canonical"},
         {"status": 200, "ctype": "sse", "body": "resp", "enc": "no-final-blank"},
         {"status": 200, "ctype": "sse", "body": "batch", "enc": "none/event-no-space/multi-data/crlf"},
         {"status": 200, "ctype": "sse", "body": "empty"}, {"status": 200, "ctype": "json", "body": "resp"},
         {"status": 200, "ctype": "json", "body": "err"}, {"status": 200, "ctype": "json", "body": "batch"},
         {"status": 202, "ctype": "absent", "body": "empty"}, {"status": 500, "ctype": "text", "body": "nonjson"},
         {"status": 401, "ctype": "json", "body": "err"}, {"exc": "connect"}, {"exc": "read-timeout"}]
    for opt in options:
        for b in reduced:
            for rk in ("id-a", "note"):
                g.append({"steps": [{"b": b, "req": rk, "session": None}, {"b": OK_B, "req": "id-7", "session": None}],
                          "params": opt})
    parts["constructor-options-x-reduced-behaviours"] = g
    return parts


def run(tier: str, only=None) -> core.Result:
    res = core.Result("C11", "fault_enumeration")
    for name, cfgs in configs_for(tier).items():
        if only and name not in only:
            continue
        out = explorer.explore(RUN, cfgs, fidelity=True)
        # (every burst body has the same right outcome: all its messages)
        sched.absorb(res, name, RUN, out, cfgs, min_outcomes=1 if name.startswith(("burst-", "session-header-")) else 2)
        sched.debug_pass(res, name, RUN, cfgs, every=7)
    pcfgs = []
    for k in (2, 3):
        for combo in itertools.product(range(len(PIPE_BEHS)), repeat=k):
            for delays in itertools.product((0.0, 0.3, 0.6), repeat=k):
                if k == 3 and tier == "quick" and (len(set(combo)) == 3 or len(set(delays)) == 1):
                    continue
                pcfgs.append({"steps": [{"b": PIPE_BEHS[c], "req": ["id-a", "id-7", "id-a"][i], "delay": d}
                                        for i, (c, d) in enumerate(zip(combo, delays))]})
    if not only or "pipelined" in only:
        out = explorer.explore(RUN_PIPE, pcfgs, fidelity=True)
        sched.absorb(res, "pipelined-requests-with-delayed-answers", RUN_PIPE, out, pcfgs)
    if not only or "two-connections-one-parameters-object" in only:
        tcfgs = two_connection_configs()
        out = explorer.explore(RUN_TWO, tcfgs, fidelity=True)
        sched.absorb(res, "two-connections-one-parameters-object", RUN_TWO, out, tcfgs)
        sched.debug_pass(res, "two-connections-one-parameters-object", RUN_TWO, tcfgs, every=9)
    if not only or "two-connections-overlapping-exchanges" in only:
        ocfgs = overlapping_configs()
        out = explorer.explore(RUN_OVL, ocfgs, fidelity=True)
        sched.absorb(res, "two-connections-overlapping-exchanges", RUN_OVL, out, ocfgs)
        sched.debug_pass(res, "two-connections-overlapping-exchanges", RUN_OVL, ocfgs, every=5)
    if not only or "conformance" in only:
        from . import c11_conf

        c11_conf.add_conformance_part(res, tier)
    res.coverage["exhaustive"] = True
    res.coverage["behaviours"] = len(BEHAVIOURS)
    res.coverage["rule"] = (
        f"{len(BEHAVIOURS)} per-request server behaviours (3 transport exceptions; status 200/202 x content-type "
        "json/event-stream/text/absent x body response/error/batch array/notifications+response/wrong id/empty/truncated/"
        "non-JSON/non-UTF-8 x 8 SSE encodings; 204; 301 followed; 302 without Location; 400/401/404/500/503 x 3 bodies; 400/401/500 with a JSON body whose "
        "'error' member has one of 16 shapes - well-typed, code string / digit string / float / bool / null / missing, message int / "
        "null / list / missing, extra members, {}, string, list, null - enveloped or bare: whatever the transport synthesises must "
        "be a valid JSON-RPC error or result carrying the request's id) x "
        "request kinds {string id, id 0, integer id, notification} x session header issued or not, each followed by a plain "
        "request; all sequences of <=3 (thorough 4) over 22 representative behaviours; all session sequences of <=4 over "
        "{issue S1, issue S2, no header, 4xx, exception}; bodies of 99/100/101/150 notifications + the response (JSON array, SSE "
        "with LF / CRLF, status 200 / 202) drained only after the POST was processed; two connections of 3 requests each built from "
        "ONE StreamableHTTPParameters object (alive together with every interleaving of their requests, one after the other) "
        "and from own objects (control) x parameters.headers None / {} / two headers x parameters.session_id None / given x the "
        "server issuing a new session id on the 1st and/or 2nd request of each connection: every request carries the most recent "
        "id issued on ITS connection, each connection reads what it reads alone, the parameters object is left as it was; two live connections whose exchanges "
        "overlap - A's POST held in flight while B completes a round trip, both held and answered in either order, nobody held - "
        "with A's answer over 8 message-less answers, an exception and a real answer, B's over JSON / SSE / notifications+response / "
        "empty: each connection gets exactly the terminal message it gets alone; "
        "distinct = distinct observation digests"
    )
    res.assumptions = [
        "exactly one session header line goes on the wire (names compared case-insensitively), carrying the most recent id issued",
        "a leading BOM in a JSON body may be ignored or rejected (RFC 8259): its messages or a synthesised terminal are accepted",
        "for a content type other than JSON/event-stream the statement does not say how the body is read: its messages or a synthesised terminal are both accepted",
        "an SSE event not terminated by a blank line at end of body may be delivered or discarded (the WHATWG grammar discards it)",
        "a synthesised terminal may be an error or an (empty) result; for a notification POST an id-less error message is accepted",
        "HTTP timeouts are modelled as httpx.ReadTimeout raised by the scripted transport (no real sockets)",
    ]
    return res
