"""C12 - SSE transport: live-or-raise setup, exactly-once delivery, chunk independence, clean exit.

Engine: E-SCHED.  Driver: the public ``sse_client()`` context on the virtual loop
over the scripted httpx transport: a long-lived event stream whose bytes are
released by the explorer and a POST endpoint whose completion is an
explorer-scheduled action.
"""
from __future__ import annotations

import asyncio
import itertools
import json
from typing import Any, Dict, List, Optional

import anyio
import httpx

from .. import core, explorer, sched, seams
from ..jsonrpc_ref import classify, dump_msg, strict_eq
from ..seams_http import ScriptedStream, patched_httpx
from ..vloop import EPS, new_loop

RUN_EST = "vf.checks.c12:run_establish"
RUN_REQ = "vf.checks.c12:run_request"
RUN_CHUNK = "vf.checks.c12:run_chunks"
RUN_EXIT = "vf.checks.c12:run_exit"
BASE = "http://sse.test"
TIMEOUT = 2.0
ENDPOINT_FORMS = {
    "abs-path": ("event: endpoint\ndata: /messages/?session_id=abc\n\n", BASE + "/messages/?session_id=abc"),
    "query-only": ("event: endpoint\ndata: session_id=abc\n\n", BASE + "/messages/?session_id=abc"),
    "full-url": ("event: endpoint\ndata: http://sse.test/mcp?session_id=abc\n\n", "http://sse.test/mcp?session_id=abc"),
    "bare-data": ("data: /messages/?session_id=abc\n\n", BASE + "/messages/?session_id=abc"),
    "abs-path-crlf": ("event: endpoint\r\ndata: /messages/?session_id=abc\r\n\r\n", BASE + "/messages/?session_id=abc"),
}
# announcements that name no endpoint at all: entering must raise (or, if it enters, the connection must be usable)
BLANK_FORMS = {
    "blank-data": "event: endpoint\ndata: \n\n",
    "blank-data-no-space": "event: endpoint\ndata:\n\n",
    "whitespace-data": "event: endpoint\ndata:    \n\n",
    "blank-data-crlf": "event: endpoint\r\ndata: \r\n\r\n",
}


def _params():
    from chuk_mcp.transports.sse.parameters import SSEParameters

    return SSEParameters(url=BASE, timeout=TIMEOUT)


# raw (unescaped) characters that str.splitlines() treats as line ends but the event-stream grammar does not
SEPS = "a\u2028b\u2029c\u0085d"
# texts that look like an endpoint announcement to a careless reader of an untyped event
PATHY = ["see /messages/ for more", "docs at /mcp", "http://x/mcp?a=1"]


def ev(obj) -> str:
    return "event: message\ndata: " + json.dumps(obj, ensure_ascii=False) + "\n\n"


class Server:
    """Scripted SSE server: GET /sse behaviour + parked POSTs."""

    def __init__(self, loop, get_behaviour: Dict[str, Any]):
        self.loop = loop
        self.gb = get_behaviour
        self.stream = ScriptedStream()
        self.posts: List[tuple] = []  # (recorded, future)
        self.gets = 0

    def handler(self, rec):
        if rec.method == "GET":
            self.gets += 1
            return self._get(rec)
        fut = self.loop.create_future()
        self.posts.append((rec, fut))
        return fut

    async def _get(self, rec):
        k = self.gb.get("kind", "ok")
        d = self.gb.get("connect_delay")
        if d:
            await asyncio.sleep(d)
        if k == "connect-error":
            return httpx.ConnectError("connection refused")
        if k in ("404", "500"):
            return httpx.Response(int(k), content=b"nope")
        return httpx.Response(200, headers={"content-type": "text/event-stream"}, stream=self.stream)

    def complete_post(self, i: int, what: Dict[str, Any]):
        rec, fut = self.posts[i]
        if fut.done():
            return
        k = what["kind"]
        if k == "exception":
            fut.set_result(httpx.ConnectError("connection lost"))
        elif k == "status":
            body = what.get("body", b"")
            headers = {"content-type": what.get("ctype", "application/json")} if body else {}
            fut.set_result(httpx.Response(what["status"], headers=headers, content=body))


def drain(read) -> List[Any]:
    got = []
    try:
        while True:
            got.append(read.receive_nowait())
    except (anyio.WouldBlock, anyio.EndOfStream, anyio.ClosedResourceError):
        pass
    return got


# ---------------------------------------------------------------------------
# (1) establishment
# ---------------------------------------------------------------------------
def run_establish(ctl: explorer.Ctl, cfg: Dict[str, Any]) -> Dict[str, Any]:
    from chuk_mcp.protocol.messages.json_rpc_message import JSONRPCRequest
    from chuk_mcp.transports.sse.sse_client import sse_client

    loop = new_loop(horizon=60)
    q = seams.Quiescence(loop)
    kind = cfg["kind"]
    srv = Server(loop, {"kind": kind if kind in ("404", "500", "connect-error") else "ok",
                        "connect_delay": cfg.get("connect_delay")})
    info: Dict[str, Any] = {}
    form = cfg.get("form", "abs-path")
    announce_at = cfg.get("announce_at")  # None = never
    if kind == "blank-announce":
        srv.stream.feed(BLANK_FORMS[form].encode())
    if kind == "announce":
        text, url = ENDPOINT_FORMS[form]
        if announce_at is None:
            pass
        elif announce_at[0] == 0:
            srv.stream.feed(text.encode())
        else:
            loop.env_call_at(announce_at[0], announce_at[1], srv.stream.feed, text.encode())
    elif kind == "empty-stream":
        srv.stream.feed_eof()
    elif kind == "never":
        pass

    async def main():
        with patched_httpx(srv.handler) as px:
            info["px"] = px
            t0 = loop.time()
            try:
                async with sse_client(_params()) as (read, write):
                    info["entered_at"] = loop.time() - t0
                    await write.send(JSONRPCRequest(id="first", method="ping"))
                    await q.settle()
                    info["posts_after_first"] = len(srv.posts)
                    if srv.posts:
                        info["post_url"] = srv.posts[0][0].url
                        srv.complete_post(0, {"kind": "status", "status": 200,
                                              "body": b'{"jsonrpc":"2.0","id":"first","result":{}}'})
                        await q.settle()
                    info["got"] = [dump_msg(m) for m in drain(read)]
            except BaseException as e:  # noqa: BLE001
                if "entered_at" in info:
                    info["body_exc"] = repr(e)[:100]
                else:
                    info["raised_at"] = loop.time() - t0
                    info["raised"] = type(e).__name__

    status, val = loop.run_main(main())
    errors = loop.collect_errors()
    left = len(loop.leftover_tasks())
    loop.abandon()
    viol: List[dict] = []
    obs: Dict[str, Any] = {"status": status, "cfg": cfg}

    def bad(cls, msg, **extra):
        viol.append({"sig": {"class": cls, "establishment": kind, **extra}, "msg": f"cfg={cfg}: {msg}; info="
                     f"{ {k: v for k, v in info.items() if k != 'px'} }"})

    if status != "ok":
        obs["outcome"] = status
        bad("did-not-finish", f"{status} {core.clean_repr(val)}")
        obs["violations"] = viol
        return obs
    if srv.gets == 0:
        raise core.HarnessError("seam missing: no GET reached the scripted httpx transport")
    if "entered_at" in info:
        obs["outcome"] = "entered"
        usable = info.get("posts_after_first", 0) >= 1
        if not usable:
            bad("entered-dead-connection", "context entered but the first request was never POSTed (no message endpoint)")
        else:
            if kind == "announce":
                want = ENDPOINT_FORMS[form][1]
                if info.get("post_url") != want:
                    bad("wrong-message-url", f"first request POSTed to {info.get('post_url')!r}, announced {want!r}", form=form)
            got = info.get("got") or []
            if not (len(got) == 1 and got[0].get("id") == "first"):
                bad("first-request-unanswered", f"read stream after the first request: {got}")
        if info["entered_at"] > TIMEOUT + 1e-3:
            bad("entered-late", f"entered after {info['entered_at']}s (timeout {TIMEOUT})")
        if kind == "announce" and announce_at is not None and info["entered_at"] < announce_at[0] - 1e-9:
            bad("entered-before-announcement", f"entered at {info['entered_at']}, endpoint announced at {announce_at[0]}")
    else:
        obs["outcome"] = "raised:" + str(info.get("raised"))
        if info.get("raised_at", 0) > TIMEOUT + 1e-3:
            bad("raised-late", f"raised after {info.get('raised_at')}s (timeout {TIMEOUT})")
        if kind == "announce" and announce_at is not None and announce_at[0] < TIMEOUT - 1e-3:
            bad("live-connection-refused", "server announced its endpoint in time but entering raised")
        if left:
            bad("tasks-left-after-failed-entry", f"{left} tasks left")
    if errors:
        bad("loop-error", f"{errors[:2]}")
    obs["violations"] = viol
    return obs


# ---------------------------------------------------------------------------
# (2) request life-cycle
# ---------------------------------------------------------------------------
RIDS = {"str": "a", "digits": "7", "int": 7, "int0": 0, "empty-str": ""}


def run_request(ctl: explorer.Ctl, cfg: Dict[str, Any]) -> Dict[str, Any]:
    from chuk_mcp.protocol.messages.json_rpc_message import JSONRPCRequest
    from chuk_mcp.transports.sse.sse_client import sse_client

    loop = new_loop(horizon=60)
    q = seams.Quiescence(loop)
    srv = Server(loop, {"kind": "ok"})
    srv.stream.feed(ENDPOINT_FORMS["abs-path"][0].encode())
    mode = cfg["mode"]
    rid = RIDS[cfg["id"]]
    resp = {"jsonrpc": "2.0", "id": rid, "result": {"ok": True, "n": None, "t": SEPS, "where": PATHY[0] + " " + PATHY[2]}}
    info: Dict[str, Any] = {"t_post_done": None, "t_event": None}
    actions: List[str] = {
        "200-body": ["post200"], "202+event": ["post202", "event"], "202-silence": ["post202"],
        "500": ["post500"], "200-nonjson": ["post200bad"], "exception": ["postexc"],
        "202+event+note": ["post202", "note", "event"],
    }[mode]
    st = {"remaining": list(actions), "scheduled": False, "active": False}

    def do(action):
        st["scheduled"] = False
        if action == "event":
            info["t_event"] = loop.time()
            text = ev(resp)
            if cfg.get("untyped"):
                text = text.replace("event: message\n", "")     # the default event type applies
            if cfg.get("serialisation") == "id-first":
                text = text.split("data: ")[0] + "data: " + json.dumps(resp, ensure_ascii=False, sort_keys=True) + "\n\n"
            elif cfg.get("serialisation") == "blank-after-brace":
                text = text.split("data: ")[0] + "data: { " + json.dumps(resp, ensure_ascii=False)[1:] + "\n\n"
            srv.stream.feed(text.encode())
        elif action == "note":
            srv.stream.feed(ev({"jsonrpc": "2.0", "method": "notifications/message", "params": {"d": 1, "t": SEPS + PATHY[1]}}).encode())
        else:
            info["t_post_done"] = loop.time()
            if action == "post200":
                srv.complete_post(0, {"kind": "status", "status": 200, "body": json.dumps(resp).encode()})
            elif action == "post202":
                srv.complete_post(0, {"kind": "status", "status": 202})
            elif action == "post500":
                srv.complete_post(0, {"kind": "status", "status": 500, "body": b"internal error", "ctype": "text/plain"})
            elif action == "post200bad":
                srv.complete_post(0, {"kind": "status", "status": 200, "body": b"<html>oops</html>", "ctype": "text/html"})
            elif action == "postexc":
                srv.complete_post(0, {"kind": "exception"})

    def idle(lp):
        if not st["active"] or st["scheduled"]:
            return
        if not st["remaining"] or not srv.posts:
            # environment has nothing left: once the library has no timer pending either, we are done
            if lp.next_timer() is None and not st["done"].done():
                st["done"].set_result(None)
            return
        i = ctl.choose(len(st["remaining"]), "next-action") if len(st["remaining"]) > 1 else 0
        action = st["remaining"].pop(i)
        menu = sched.time_menu(lp, deadline=None, rich=cfg.get("rich", False))
        label, t, rank = menu[ctl.choose(len(menu), "when")]
        st["scheduled"] = True
        if label == "now":
            lp.call_soon(do, action)
        else:
            lp.env_call_at(t, rank, do, action)

    q.chain = idle
    got: List[Any] = []

    async def main():
        with patched_httpx(srv.handler) as px:
            async with sse_client(_params()) as (read, write):
                t0 = loop.time()
                info["t0"] = t0
                st["done"] = loop.create_future()
                await write.send(JSONRPCRequest(id=rid, method="tools/list"))
                st["active"] = True
                # run until the environment has nothing left to do and no library timer is pending
                await st["done"]
                st["active"] = False
                await q.settle()
                got.extend(dump_msg(m) for m in drain(read))

    status, val = loop.run_main(main())
    errors = loop.collect_errors()
    loop.abandon()
    viol: List[dict] = []
    obs: Dict[str, Any] = {"status": status, "mode": mode, "id": cfg["id"]}

    def bad(cls, msg, **extra):
        viol.append({"sig": {"class": cls, "mode": mode, **extra},
                     "msg": f"cfg={cfg} post_done={info['t_post_done']} event={info['t_event']}: {msg}; read stream={got}"})

    if status != "ok":
        obs["outcome"] = status
        bad("did-not-finish", f"{status} {core.clean_repr(val)}")
        obs["violations"] = viol
        return obs
    mine = [m for m in got if isinstance(m, dict) and "method" not in m and m.get("id") is not None
            and str(m.get("id")) == str(rid)]
    exact = [m for m in mine if type(m.get("id")) is type(rid) and m.get("id") == rid]
    late_event = (info["t_event"] is not None and info["t_post_done"] is not None and mode.startswith("202")
                  and info["t_event"] > info["t_post_done"] + TIMEOUT - 1e-9)
    if st["remaining"]:
        obs["outcome"] = "env-incomplete"
    if len(mine) == 0:
        bad("no-terminal-message", "no message for the request reached the read stream")
    elif len(mine) > 1 and not late_event:
        bad("duplicate-terminal", f"{len(mine)} messages carry the request's id")
    if mine and len(exact) != len(mine):
        bad("id-type-changed", f"terminal message carries id {mine[0].get('id')!r} ({type(mine[0].get('id')).__name__}), "
                               f"request id was {rid!r} ({type(rid).__name__})", id_kind=cfg["id"])
    if mine:
        first = mine[0]
        expect_real = mode in ("200-body",) or (mode.startswith("202+event") and not late_event)
        if expect_real and not strict_eq({k: v for k, v in first.items() if k in ("result",)}, {"result": resp["result"]}):
            bad("wrong-terminal", f"expected the server's response, got {first}")
        if not expect_real and classify({**first, "id": rid})[0] not in ("error", "result"):
            bad("invalid-synthesised", f"{first}")
        if mode in ("202-silence", "500", "200-nonjson", "exception") and "error" not in first:
            bad("failure-reported-as-result", f"{first}")
    if mode == "202+event+note":
        notes = [m for m in got if isinstance(m, dict) and m.get("method") == "notifications/message"]
        if len(notes) != 1:
            bad("notification-count", f"{len(notes)} notifications delivered, 1 sent")
    if errors:
        bad("loop-error", f"{errors[:2]}")
    obs.setdefault("outcome", f"{len(mine)}-terminal/{'late' if late_event else 'timely'}")
    obs["t"] = [info["t_post_done"], info["t_event"]]
    obs["violations"] = viol
    return obs


# ---------------------------------------------------------------------------
# (2b) state left behind by a finished request must not swallow later server messages
# ---------------------------------------------------------------------------
RUN_AFTER = "vf.checks.c12:run_after"


def run_after(ctl: explorer.Ctl, cfg: Dict[str, Any]) -> Dict[str, Any]:
    from chuk_mcp.protocol.messages.json_rpc_message import JSONRPCRequest
    from chuk_mcp.transports.sse.sse_client import sse_client

    loop = new_loop(horizon=120)
    q = seams.Quiescence(loop)
    srv = Server(loop, {"kind": "ok"})
    srv.stream.feed(ENDPOINT_FORMS["abs-path"][0].encode())
    rid = RIDS[cfg["id"]]
    first = cfg["first"]
    later = {"server-request": {"jsonrpc": "2.0", "id": rid, "method": "ping"},
             "stray-response": {"jsonrpc": "2.0", "id": rid, "result": {"late": True}},
             "notification": {"jsonrpc": "2.0", "method": "notifications/message", "params": {"x": 1}}}[cfg["later"]]
    got1: List[Any] = []
    got2: List[Any] = []

    async def main():
        with patched_httpx(srv.handler):
            async with sse_client(_params()) as (read, write):
                await write.send(JSONRPCRequest(id=rid, method="tools/list"))
                await q.settle()
                resp = {"jsonrpc": "2.0", "id": rid, "result": {"ok": 1}}
                if first == "200-body":
                    srv.complete_post(0, {"kind": "status", "status": 200, "body": json.dumps(resp).encode()})
                elif first == "500":
                    srv.complete_post(0, {"kind": "status", "status": 500, "body": b"boom", "ctype": "text/plain"})
                elif first == "200-nonjson":
                    srv.complete_post(0, {"kind": "status", "status": 200, "body": b"<html>", "ctype": "text/html"})
                elif first == "exception":
                    srv.complete_post(0, {"kind": "exception"})
                elif first == "202+event":
                    srv.complete_post(0, {"kind": "status", "status": 202})
                    await q.settle()
                    srv.stream.feed(ev(resp).encode())
                elif first == "202-silence":
                    srv.complete_post(0, {"kind": "status", "status": 202})
                    await asyncio.sleep(TIMEOUT + 0.5)
                await q.settle()
                got1.extend(dump_msg(m) for m in drain(read))
                # later traffic on the event stream
                srv.stream.feed(ev(later).encode())
                srv.stream.feed(ev({"jsonrpc": "2.0", "method": "notifications/message", "params": {"after": True}}).encode())
                await q.settle()
                got2.extend(dump_msg(m) for m in drain(read))

    status, val = loop.run_main(main())
    errors = loop.collect_errors()
    loop.abandon()
    viol: List[dict] = []
    if status != "ok":
        return {"outcome": status, "violations": [{"sig": {"class": "did-not-finish", "part": "after"}, "msg": f"cfg={cfg}: {status} {core.clean_repr(val)}"}]}
    norm = [{k: v for k, v in m.items() if v is not None or k == "result"} for m in got2 if isinstance(m, dict)]
    want = [later, {"jsonrpc": "2.0", "method": "notifications/message", "params": {"after": True}}]
    if not (len(norm) == len(want) and all(strict_eq(a, b) for a, b in zip(norm, want))):
        viol.append({"sig": {"class": "later-server-message-lost", "first": first, "later": cfg["later"]},
                     "msg": f"cfg={cfg}: after the first request ended ({got1}), the server sent {want}; delivered {norm}"})
    if len([m for m in got1 if isinstance(m, dict) and str(m.get("id")) == str(rid)]) != 1:
        viol.append({"sig": {"class": "first-request-terminal-count", "first": first},
                     "msg": f"cfg={cfg}: first request produced {got1}"})
    if errors:
        viol.append({"sig": {"class": "loop-error"}, "msg": f"{errors[:2]}"})
    return {"outcome": f"{first}/{cfg['later']}/{len(norm)}", "violations": viol}


# ---------------------------------------------------------------------------
# (3) chunking of the event stream
# ---------------------------------------------------------------------------
def chunk_stream(variant: str) -> bytes:
    nl = "\r\n" if "crlf" in variant else "\n"
    if variant.startswith("burst"):
        n = int(variant.rsplit("-", 1)[1])
        msgs = [{"jsonrpc": "2.0", "method": "notifications/message", "params": {"i": i}} for i in range(n)]
        msgs.append({"jsonrpc": "2.0", "id": "srv-1", "result": {"after": n}})
        text = f"event: endpoint{nl}data: /messages/?session_id=abc{nl}{nl}" + "".join(
            f"event: message{nl}data: {json.dumps(m)}{nl}{nl}" for m in msgs)
        return text.encode("utf-8"), msgs
    if variant.startswith("big-"):
        # big-<kind>-<n>-lf|crlf: one event whose data line is about n characters long, between two small ones
        _, kind, n, _eol = variant.split("-")
        n = int(n)
        pad = "\u00e9" + "x" * n + "\U0001F600"
        small1 = {"jsonrpc": "2.0", "method": "notifications/message", "params": {"i": 1}}
        big = {"jsonrpc": "2.0", "id": "srv-big", "result": {"text": pad}} if kind == "resp" else \
            {"jsonrpc": "2.0", "method": "notifications/message", "params": {"data": pad}}
        small2 = {"jsonrpc": "2.0", "id": "srv-2", "result": {"after": True}}
        msgs = [small1, big, small2]
        text = f"event: endpoint{nl}data: /messages/?session_id=abc{nl}{nl}" + "".join(
            f"event: message{nl}data: {json.dumps(m, ensure_ascii=False)}{nl}{nl}" for m in msgs)
        return text.encode("utf-8"), msgs
    short = "short" in variant

    untyped = "untyped" in variant

    def e(name, data):
        if untyped and name == "message":
            return f"data: {data}{nl}{nl}"  # no event field: the default type "message" applies
        return f"event: {name}{nl}data: {data}{nl}{nl}"

    n1 = {"jsonrpc": "2.0", "method": "n/1", "params": {"t": "é\U0001F600\u2028"}} if short else \
        {"jsonrpc": "2.0", "method": "notifications/message", "params": {"data": "é€\U0001F600 first " + SEPS + " " + PATHY[0]}}
    r = {"jsonrpc": "2.0", "id": "srv-1", "result": {"x": 1}} if short else \
        {"jsonrpc": "2.0", "id": "srv-1", "result": {"text": "response ü " + SEPS, "n": None, "uri": PATHY[2]}}
    n2 = {"jsonrpc": "2.0", "method": "n/2"} if short else \
        {"jsonrpc": "2.0", "method": "notifications/progress", "params": {"progressToken": "t", "progress": 2,
                                                                          "message": PATHY[1]}}
    # the same JSON values in other serialisations a server may use: members in another order, blanks after the brace
    ser = [lambda m: json.dumps(m, ensure_ascii=False),
           lambda m: json.dumps(m, ensure_ascii=False, sort_keys=True),                       # "id" before "jsonrpc"
           lambda m: "{ " + json.dumps(m, ensure_ascii=False, separators=(" , ", " : "))[1:-1] + " }"]
    if "long" not in variant:
        ser = [ser[0]] * 3
    text = e("endpoint", "/messages/?session_id=abc") + e("message", ser[0](n1)) + \
        e("message", ser[1](r)) + e("message", ser[2](n2))
    return text.encode("utf-8"), [n1, r, n2]


def run_chunks(ctl: explorer.Ctl, cfg: Dict[str, Any]) -> Dict[str, Any]:
    from chuk_mcp.transports.sse.sse_client import sse_client

    loop = new_loop(horizon=60)
    q = seams.Quiescence(loop)
    srv = Server(loop, {"kind": "ok"})
    data, expected = chunk_stream(cfg["variant"])
    cuts = cfg["cuts"]
    bounds = [0] + list(cuts) + [len(data)]
    chunks = [data[a:b] for a, b in zip(bounds, bounds[1:])]
    got: List[Any] = []
    info: Dict[str, Any] = {}

    def feeder(lp):
        if chunks:
            srv.stream.feed(chunks.pop(0))

    q.chain = feeder

    async def main():
        with patched_httpx(srv.handler):
            try:
                async with sse_client(_params()) as (read, write):
                    info["entered"] = True
                    q.chain = None
                    while chunks:
                        srv.stream.feed(chunks.pop(0))
                        await q.settle()
                    for _ in range(10):
                        n0 = len(got)
                        await q.settle()
                        got.extend(dump_msg(m) for m in drain(read))
                        if len(got) == n0:
                            break
            except RuntimeError as e:
                info["raised"] = str(e)[:80]

    status, val = loop.run_main(main())
    errors = loop.collect_errors()
    loop.abandon()
    viol: List[dict] = []
    obs: Dict[str, Any] = {"status": status, "variant": cfg["variant"], "cuts": cuts}
    if status != "ok":
        obs["outcome"] = status
        obs["violations"] = [{"sig": {"class": "did-not-finish", "part": "chunks"}, "msg": f"cfg={cfg}: {status} {core.clean_repr(val)}"}]
        return obs
    norm = [{k: v for k, v in m.items() if v is not None or k == "result"} if isinstance(m, dict) else m for m in got]
    if not info.get("entered"):
        viol.append({"sig": {"class": "chunking-broke-establishment"}, "msg": f"cfg={cfg}: entering raised {info.get('raised')}"})
    elif not (len(norm) == len(expected) and all(strict_eq(a, b) for a, b in zip(norm, expected))):
        cls = "chunking-lost-message" if len(norm) < len(expected) else (
            "chunking-duplicated-message" if len(norm) > len(expected) else "chunking-altered-message")
        sig = {"class": cls, "cut": _cut_kind(data, cuts), "events": "untyped" if "untyped" in cfg["variant"] else "typed"}
        if cfg["variant"].startswith("big-"):
            sig["line_length"] = "over-64KiB" if int(cfg["variant"].split("-")[2]) >= 65536 else "under-64KiB"
            sig["pieces"] = "one" if not cuts else "several"
        viol.append({"sig": sig,
                     "msg": f"variant={cfg['variant']} cuts={cuts[:6]}{'...' if len(cuts) > 6 else ''}: delivered "
                            f"{core.clean_repr(norm, 400)}, expected {core.clean_repr(expected, 400)}"})
    if errors:
        viol.append({"sig": {"class": "loop-error"}, "msg": f"{errors[:2]}"})
    obs["outcome"] = f"delivered={len(norm)}/{_cut_kind(data, cuts)}"
    obs["violations"] = viol
    return obs


def _cut_kind(data: bytes, cuts: List[int]) -> str:
    kinds = set()
    for c in cuts:
        if (data[c] & 0xC0) == 0x80:
            kinds.add("inside-utf8")
        elif data[c] == 0x0A and data[c - 1] == 0x0D:
            kinds.add("inside-crlf")
        else:
            kinds.add("plain")
    return "+".join(sorted(kinds)) or "uncut"


# ---------------------------------------------------------------------------
# (3b) two connections alive at once: each must behave as it does alone
# ---------------------------------------------------------------------------
RUN_TWO = "vf.checks.c12:run_two"
TWO_SCENARIOS = ["both-answered", "x-leaves-then-y-answered", "x-leaves-then-y-silent", "x-answered-then-leaves-then-y-answered",
                 "both-silent"]
TWO_IDS = {"same-str": ("a", "a"), "same-int": (7, 7), "str-vs-digits-int": ("7", 7), "different": ("x-1", "y-1")}


def run_two(ctl: explorer.Ctl, cfg: Dict[str, Any]) -> Dict[str, Any]:
    from chuk_mcp.protocol.messages.json_rpc_message import JSONRPCRequest
    from chuk_mcp.transports.sse.parameters import SSEParameters
    from chuk_mcp.transports.sse.sse_client import sse_client

    scenario = cfg["scenario"]
    rids = dict(zip("XY", TWO_IDS[cfg["ids"]]))
    loop = new_loop(horizon=120)
    q = seams.Quiescence(loop)
    hosts = {"X": "http://sse-x.test", "Y": "http://sse-y.test"}
    srv = {c: Server(loop, {"kind": "ok"}) for c in "XY"}
    for c in "XY":
        srv[c].stream.feed(f"event: endpoint\ndata: /messages/?session_id={c.lower()}\n\n".encode())
    streams: Dict[str, Any] = {}
    entered = {c: None for c in "XY"}
    leave = {c: None for c in "XY"}
    got: Dict[str, List[Any]] = {"X": [], "Y": []}
    order: List[str] = []
    info: Dict[str, Any] = {"left": []}

    def handler(rec):
        for c in "XY":
            if rec.url.startswith(hosts[c]):
                return srv[c].handler(rec)
        return httpx.Response(500, content=b"unknown host")

    def payload(c):
        return {"jsonrpc": "2.0", "id": rids[c], "result": {"who": c, "t": SEPS}}

    async def conn(c):
        async with sse_client(SSEParameters(url=hosts[c], timeout=TIMEOUT)) as (read, write):
            streams[c] = (read, write)
            entered[c].set_result(None)
            await leave[c]
            got[c].extend(dump_msg(m) for m in drain(read))
        info["left"].append(c)

    def collect():
        for c in "XY":
            if c in streams and c not in info["left"]:
                got[c].extend(dump_msg(m) for m in drain(streams[c][0]))

    async def act(a):
        order.append(a)
        kind, c = a[:-1], a[-1]
        if kind == "ack":
            srv[c].complete_post(0, {"kind": "status", "status": 202})
        elif kind == "event":
            srv[c].stream.feed(ev(payload(c)).encode())
        elif kind == "leave":
            collect()
            leave[c].set_result(None)
            await tasks[c]
        await q.settle()
        collect()

    tasks: Dict[str, Any] = {}

    async def main():
        with patched_httpx(handler):
            for c in "XY":
                entered[c] = loop.create_future()
                leave[c] = loop.create_future()
                tasks[c] = asyncio.ensure_future(conn(c))
                await entered[c]
            for c in "XY":
                await streams[c][1].send(JSONRPCRequest(id=rids[c], method="tools/list", params={"from": c}))
            await q.settle()
            if not (srv["X"].posts and srv["Y"].posts):
                raise core.HarnessError("two-connections: a request was not POSTed")
            if scenario == "both-answered":
                # every order of {202 for X, 202 for Y, answer event on X's stream, answer event on Y's stream}
                rest = ["ackX", "ackY", "eventX", "eventY"]
                while rest:
                    a = rest.pop(ctl.choose(len(rest), "next-action") if len(rest) > 1 else 0)
                    await act(a)
            else:
                await act("ackX")
                await act("ackY")
                if scenario == "x-answered-then-leaves-then-y-answered":
                    await act("eventX")
                if scenario.startswith("x-"):
                    await act("leaveX")
                if scenario.endswith("y-answered"):
                    await act("eventY")
            # let every timer of the transports run out (a silent server ends in the transport's own timeout error)
            await asyncio.sleep(TIMEOUT + 0.5)
            await q.settle()
            collect()
            for c in "XY":
                if not leave[c].done():
                    leave[c].set_result(None)
            await asyncio.gather(*tasks.values())

    status, val = loop.run_main(main())
    errors = loop.collect_errors()
    loop.abandon()
    viol: List[dict] = []

    def bad(cls, msg, **extra):
        viol.append({"sig": {"class": cls, "scenario": scenario, "ids": cfg["ids"], **extra},
                     "msg": f"scenario={scenario} ids X={rids['X']!r} Y={rids['Y']!r} actions={order}: {msg}; "
                            f"X read {got['X']}; Y read {got['Y']}"})

    if status != "ok":
        if isinstance(val, core.HarnessError):
            raise val
        bad("did-not-finish", f"{status} {core.clean_repr(val)}")
        return {"outcome": status, "violations": viol}
    # what each connection reads when it is alone: the server's answer if its event was sent while it was alive,
    # otherwise (the server stayed silent after the 202) exactly one error carrying the request's id
    answered = {c: f"event{c}" in order for c in "XY"}
    summary = []
    for c in "XY":
        rid = rids[c]
        mine = [m for m in got[c] if isinstance(m, dict) and "method" not in m]
        own = [m for m in mine if type(m.get("id")) is type(rid) and m.get("id") == rid]
        foreign = [m for m in mine if isinstance(m.get("result"), dict) and m["result"].get("who") not in (None, c)]
        left_pending = c == "X" and scenario in ("x-leaves-then-y-answered", "x-leaves-then-y-silent")
        if foreign:
            bad("message-of-the-other-connection", f"connection {c} read the other connection's payload {foreign}", connection=c)
        if len(mine) != len(own):
            bad("foreign-or-retyped-id", f"connection {c} read responses whose id is not its request's: {mine}", connection=c)
        if left_pending:
            # the context was left with the request pending: nothing or one terminal are both fine
            if len(own) > 1:
                bad("duplicate-terminal", f"connection {c}: {own}", connection=c)
            summary.append(f"{c}:left-pending:{len(own)}")
            continue
        if len(own) != 1:
            bad("no-terminal-message" if not own else "duplicate-terminal",
                f"connection {c} got {len(own)} terminal messages for its request; alone it gets exactly one", connection=c,
                other_connection="left" if c == "Y" and "leaveX" in order else "alive")
            summary.append(f"{c}:{len(own)}")
            continue
        m = own[0]
        if answered[c]:
            if not strict_eq(m.get("result"), payload(c)["result"]):
                bad("wrong-terminal", f"connection {c} was answered {payload(c)['result']}, it read {m}", connection=c)
            summary.append(f"{c}:answer")
        else:
            if "error" not in m or classify(m)[0] != "error":
                bad("silence-not-reported-as-error", f"connection {c}: {m}", connection=c)
            summary.append(f"{c}:timeout-error")
    if errors:
        bad("loop-error", f"{errors[:2]}")
    return {"outcome": "/".join(summary), "order": order, "violations": viol}


def two_configs() -> List[Dict[str, Any]]:
    return [{"scenario": sc, "ids": i} for sc in TWO_SCENARIOS for i in TWO_IDS]


# ---------------------------------------------------------------------------
# (3c) the server processed the POST (and emits its answer on the event stream) but the HTTP reply never arrives
# ---------------------------------------------------------------------------
RUN_LOST = "vf.checks.c12:run_lost_reply"
LOST_EXC = ["RemoteProtocolError", "ReadError", "ConnectError", "ReadTimeout", "WriteError", "PoolTimeout"]
LOST_WHEN = ["answer-event-before-the-post-fails", "answer-event-after-the-post-failed", "no-answer-event"]


def run_lost_reply(ctl: explorer.Ctl, cfg: Dict[str, Any]) -> Dict[str, Any]:
    from chuk_mcp.protocol.messages.json_rpc_message import JSONRPCNotification, JSONRPCRequest
    from chuk_mcp.transports.sse.sse_client import sse_client

    exc_name, when, kind = LOST_EXC[cfg["exc"]], LOST_WHEN[cfg["when"]], cfg["kind"]
    rid = None if kind == "notification" else RIDS[kind]
    loop = new_loop(horizon=60)
    q = seams.Quiescence(loop)
    stream = ScriptedStream()
    stream.feed(ENDPOINT_FORMS["abs-path"][0].encode())
    posts: List[Any] = []
    got: List[Any] = []

    async def handler(rec):
        if rec.method == "GET":
            return httpx.Response(200, headers={"content-type": "text/event-stream"}, stream=stream)
        sent = rec.json()
        posts.append(sent)
        # the server handles EVERY POST it receives: the n-th POST of a request is answered with n
        if isinstance(sent, dict) and "id" in sent and when != "no-answer-event":
            answer = ev({"jsonrpc": "2.0", "id": sent["id"], "result": {"answer_to_post_number": len(posts), "t": SEPS}}).encode()
            if when == "answer-event-before-the-post-fails":
                stream.feed(answer)
                for _ in range(8):
                    await asyncio.sleep(0)
            else:
                loop.call_later(0.05, stream.feed, answer)
        return getattr(httpx, exc_name)("the reply to this POST was lost")

    async def main():
        with patched_httpx(handler):
            async with sse_client(_params()) as (read, write):
                if rid is None:
                    await write.send(JSONRPCNotification(method="notifications/initialized", params={}))
                else:
                    await write.send(JSONRPCRequest(id=rid, method="tools/list"))
                await asyncio.sleep(TIMEOUT + 1.0)
                await q.settle()
                got.extend(dump_msg(m) for m in drain(read))

    status, val = loop.run_main(main())
    errors = loop.collect_errors()
    loop.abandon()
    viol: List[dict] = []

    def bad(cls, msg, **extra):
        viol.append({"sig": {"class": cls, "post_fails_with": exc_name, "when": when,
                             "message": "notification" if rid is None else "request", **extra},
                     "msg": f"POST fails with httpx.{exc_name}, {when}, request id {rid!r}: {msg}; server received {len(posts)} "
                            f"POST(s); read stream={core.clean_repr(got, 400)}"})

    if status != "ok":
        bad("did-not-finish", f"{status} {core.clean_repr(val)}")
        return {"outcome": status, "violations": viol}
    if not posts:
        raise core.HarnessError("seam missing: the request was never POSTed")
    # a message is written to the server ONCE: sending it again makes the server act on it twice
    if len(posts) != 1:
        bad("message-posted-more-than-once", f"the server received the same message {len(posts)} times: {posts}", posts=len(posts))
    mine = [m for m in got if isinstance(m, dict) and "method" not in m]
    if rid is None:
        if any(m.get("id") is not None for m in mine):
            bad("id-invented-for-notification", f"{mine}")
    else:
        own = [m for m in mine if type(m.get("id")) is type(rid) and m.get("id") == rid]
        if len(own) != len(mine):
            bad("id-type-changed", f"{mine}", id_kind=kind)
        # an answer event that arrives after the transport has reported the failed POST is outside the statement's modes
        # (like one arriving after the timeout error): one or two messages are accepted then
        allowed = (1, 2) if when == "answer-event-after-the-post-failed" else (1,)
        if len(mine) not in allowed:
            bad("no-terminal-message" if not mine else "duplicate-terminal", f"{len(mine)} terminal messages")
        for m in mine:
            if classify({**m, "id": rid})[0] not in ("error", "result"):
                bad("invalid-terminal", f"{m}")
            if isinstance(m.get("result"), dict) and m["result"].get("answer_to_post_number", 1) != 1:
                bad("answer-to-a-repeated-post-delivered", f"{m}")
    if errors:
        bad("loop-error", f"{errors[:2]}")
    return {"outcome": f"posts={len(posts)}/terminals={len(mine)}", "violations": viol}


def lost_reply_configs() -> List[Dict[str, Any]]:
    return [{"exc": e, "when": w, "kind": k} for e in range(len(LOST_EXC)) for w in range(len(LOST_WHEN))
            for k in list(RIDS) + ["notification"]]


# ---------------------------------------------------------------------------
# (3d) the read stream is FULL when a silent request times out, and the answer arrives while the error waits for room
# ---------------------------------------------------------------------------
RUN_FULL = "vf.checks.c12:run_full_stream"


def run_full_stream(ctl: explorer.Ctl, cfg: Dict[str, Any]) -> Dict[str, Any]:
    from chuk_mcp.protocol.messages.json_rpc_message import JSONRPCRequest
    from chuk_mcp.transports.sse.sse_client import sse_client

    backlog, late, rid = cfg["backlog"], cfg["late"], RIDS[cfg["id"]]
    loop = new_loop(horizon=120)
    q = seams.Quiescence(loop)
    srv = Server(loop, {"kind": "ok"})
    srv.stream.feed(ENDPOINT_FORMS["abs-path"][0].encode())
    got: List[Any] = []

    async def main():
        with patched_httpx(srv.handler):
            async with sse_client(_params()) as (read, write):
                # the consumer is busy: server messages pile up in the read stream
                for i in range(backlog):
                    srv.stream.feed(ev({"jsonrpc": "2.0", "method": "notifications/message", "params": {"i": i}}).encode())
                await q.settle()
                await write.send(JSONRPCRequest(id=rid, method="tools/list"))
                await q.settle()
                srv.complete_post(0, {"kind": "status", "status": 202})
                await q.settle()
                await asyncio.sleep(TIMEOUT + 0.1)          # the server stays silent: the transport's own timeout fires
                await q.settle()
                if late != "never":
                    # ... and only now the answer comes - while the timeout error may still be waiting for room in the stream
                    srv.stream.feed(ev({"jsonrpc": "2.0", "id": rid, "result": {"late": True}}).encode())
                    await q.settle()
                if late == "answer-then-more-traffic":
                    srv.stream.feed(ev({"jsonrpc": "2.0", "method": "notifications/message", "params": {"after": True}}).encode())
                    await q.settle()
                for _ in range(12):                          # the consumer finally drains
                    n0 = len(got)
                    got.extend(dump_msg(m) for m in drain(read))
                    await q.settle()
                    if len(got) == n0:
                        break

    status, val = loop.run_main(main())
    errors = loop.collect_errors()
    loop.abandon()
    viol: List[dict] = []

    def bad(cls, msg, **extra):
        viol.append({"sig": {"class": cls, "backlog": "exactly-fills-the-read-stream" if backlog == 100 else ("overfills" if backlog > 100 else "leaves-room"),
                             "late_answer": late, **extra},
                     "msg": f"{backlog} undrained server messages, request id {rid!r} answered 202 then silence until the timeout, "
                            f"late answer: {late}: {msg}"})

    if status != "ok":
        bad("did-not-finish", f"{status} {core.clean_repr(val)}")
        return {"outcome": status, "violations": viol}
    mine = [m for m in got if isinstance(m, dict) and "method" not in m and m.get("id") is not None and str(m.get("id")) == str(rid)]
    notes = [m for m in got if isinstance(m, dict) and m.get("method") == "notifications/message" and "i" in (m.get("params") or {})]
    if [m["params"]["i"] for m in notes] != list(range(backlog)):
        bad("backlog-not-delivered-in-order", f"{len(notes)} of {backlog} backlog notifications delivered")
    blocked = backlog == 100
    # with room in the stream the error was delivered before the answer came, and with MORE than a stream-full of backlog the
    # reader itself is stuck before the answer and sees it only after the error went out: the existing rule (one or two)
    # applies; with an exactly full stream the reader takes the answer while the request is still being finished (its timeout
    # error waits for room): exactly one terminal message
    allowed = (1,) if (blocked or late == "never") else (1, 2)
    if len(mine) not in allowed:
        bad("no-terminal-message" if not mine else "duplicate-terminal", f"{len(mine)} terminal messages: {mine}")
    if errors:
        bad("loop-error", f"{errors[:2]}")
    return {"outcome": f"terminals={len(mine)}/{'blocked' if blocked else 'room'}", "violations": viol}


def full_stream_configs() -> List[Dict[str, Any]]:
    return [{"backlog": b, "late": l, "id": i} for b in (0, 50, 99, 100, 101, 150) for l in ("answer", "answer-then-more-traffic", "never")
            for i in RIDS]


# ---------------------------------------------------------------------------
# (4) exit paths
# ---------------------------------------------------------------------------
class _BodyError(Exception):
    pass


def run_exit(ctl: explorer.Ctl, cfg: Dict[str, Any]) -> Dict[str, Any]:
    from chuk_mcp.protocol.messages.json_rpc_message import JSONRPCRequest
    from chuk_mcp.transports.sse.sse_client import sse_client

    ex, mo = cfg["exit"], cfg["moment"]
    loop = new_loop(horizon=120, cancel_order=cfg.get("order", "fifo"))
    q = seams.Quiescence(loop)
    srv = Server(loop, {"kind": "ok"})
    srv.stream.feed(ENDPOINT_FORMS["abs-path"][0].encode())
    info: Dict[str, Any] = {}

    async def body(read, write):
        if mo != "before-first":
            await write.send(JSONRPCRequest(id="x1", method="tools/list"))
            await q.settle()
            if mo in ("waiting-for-event", "after-terminal"):
                srv.complete_post(0, {"kind": "status", "status": 202})
                await q.settle()
            if mo == "after-terminal":
                srv.stream.feed(ev({"jsonrpc": "2.0", "id": "x1", "result": {}}).encode())
                await q.settle()
                info["got"] = len(drain(read))
        if ex == "exception":
            info["t_begin"] = loop.time()
            raise _BodyError()
        if ex in ("task-cancel", "scope-cancel"):
            info["blocked"] = True
            await asyncio.sleep(3600)
        info["t_begin"] = loop.time()

    async def use():
        async with sse_client(_params()) as (read, write):
            await body(read, write)

    async def wait_blocked():
        for _ in range(100):
            await q.settle()
            if info.get("blocked"):
                return
            await asyncio.sleep(0.01)

    async def main():
        with patched_httpx(srv.handler) as px:
            info["px"] = px
            outcome = None
            try:
                if ex in ("normal", "exception"):
                    await use()
                elif ex == "task-cancel":
                    t = asyncio.ensure_future(use())
                    await wait_blocked()
                    info["t_begin"] = loop.time()
                    t.cancel()
                    await t
                else:
                    with anyio.CancelScope() as scope:
                        async def canceller():
                            await wait_blocked()
                            info["t_begin"] = loop.time()
                            scope.cancel()
                        ct = asyncio.ensure_future(canceller())
                        try:
                            await use()
                        finally:
                            ct.cancel()
                    outcome = "scope-cancelled" if scope.cancelled_caught else "scope-not-caught"
            except _BodyError:
                outcome = "body-error-propagated"
            except asyncio.CancelledError:
                outcome = "cancelled-propagated"
            except BaseException as e:  # noqa: BLE001
                outcome = "other:" + type(e).__name__ + ":" + str(e)[:60]
            else:
                outcome = outcome or "returned"
            info["outcome"] = outcome
            info["t_done"] = loop.time()
            await q.settle()
            info["tasks_left"] = len([t for t in asyncio.all_tasks(loop) if not t.done()]) - 1
            info["posts_pending"] = sum(1 for _, f in srv.posts if not f.done())

    status, val = loop.run_main(main())
    errors = loop.collect_errors()
    loop.abandon()
    viol: List[dict] = []
    obs: Dict[str, Any] = {"status": status, "cfg": f"{ex}/{mo}/{cfg.get('order')}"}

    def bad(cls, msg, **extra):
        viol.append({"sig": {"class": cls, "exit": ex, **extra}, "msg": f"exit={ex} moment={mo} order={cfg.get('order')}: {msg}"})

    if status != "ok":
        obs["outcome"] = status
        bad("did-not-finish", f"{status} {core.clean_repr(val)}")
        obs["violations"] = viol
        return obs
    px = info["px"]
    obs["outcome"] = info["outcome"]
    want = {"normal": "returned", "exception": "body-error-propagated", "task-cancel": "cancelled-propagated",
            "scope-cancel": "scope-cancelled"}[ex]
    if info["outcome"] != want:
        bad("wrong-exit-outcome", f"context exit ended with {info['outcome']!r}, expected {want!r}")
    if info.get("tasks_left", 0) > 0:
        bad("tasks-left", f"{info['tasks_left']} tasks still alive after leaving the context", moment=mo)
    if px.transports_closed < px.transports_created:
        bad("http-client-not-closed", f"{px.transports_created} httpx transports created, {px.transports_closed} closed", moment=mo)
    if not srv.stream.closed:
        bad("event-stream-not-closed", "the event stream response was never closed", moment=mo)
    if "t_begin" in info and info["t_done"] - info["t_begin"] > 1.0:
        bad("exit-too-slow", f"exit took {info['t_done'] - info['t_begin']}s of virtual time")
    if errors:
        bad("loop-error", f"{errors[:2]}", moment=mo)
    obs["violations"] = viol
    return obs


# ---------------------------------------------------------------------------
def configs_for(tier: str):
    est = []
    for form in ENDPOINT_FORMS:
        est.append({"kind": "announce", "form": form, "announce_at": [0, 0]})
    for t in ([0.5, 0], [TIMEOUT - EPS, 0], [TIMEOUT, -1], [TIMEOUT, 1], [TIMEOUT + EPS, 0], [TIMEOUT + 1.0, 0]):
        est.append({"kind": "announce", "form": "abs-path", "announce_at": t})
    est.append({"kind": "announce", "form": "abs-path", "announce_at": None})
    for k in ("404", "500", "connect-error", "empty-stream", "never"):
        est.append({"kind": k})
        est.append({"kind": k, "connect_delay": 0.5})
    est.append({"kind": "never", "connect_delay": TIMEOUT + 0.5})
    for f in BLANK_FORMS:
        est.append({"kind": "blank-announce", "form": f})
    req = []
    for mode in ("200-body", "202+event", "202-silence", "500", "200-nonjson", "exception", "202+event+note"):
        for idk in RIDS:
            req.append({"mode": mode, "id": idk, "rich": mode != "202+event+note" or tier == "thorough"})
            if mode == "202+event":
                req.append({"mode": mode, "id": idk, "rich": False, "untyped": True})
                for form in ("id-first", "blank-after-brace"):
                    req.append({"mode": mode, "id": idk, "rich": False, "untyped": True, "serialisation": form})
                    req.append({"mode": mode, "id": idk, "rich": False, "serialisation": form})
    chunks = []
    for variant in ("long-lf", "long-crlf", "long-lf-untyped", "long-crlf-untyped"):
        data, _ = chunk_stream(variant)
        chunks.append({"variant": variant, "cuts": []})
        for c in range(1, len(data)):
            chunks.append({"variant": variant, "cuts": [c]})
    for n in (99, 100, 101, 150):
        for variant in ("burst-lf", "burst-crlf"):
            chunks.append({"variant": f"{variant}-{n}", "cuts": []})
            chunks.append({"variant": f"{variant}-{n}", "cuts": [4096, 8192]})
    for kind in ("resp", "note"):
        for n in (61440, 65535, 65536, 65537, 204800):
            for eol in ("lf", "crlf"):
                variant = f"big-{kind}-{n}-{eol}"
                data, _ = chunk_stream(variant)
                start = data.index(b"data: {", data.index(b"srv-big") - 40 if kind == "resp" else data.index(b'"i": 1') + 10)
                L = len(data)
                cutsets = [[], list(range(16384, L, 16384)), list(range(65536, L, 65536))]
                for around in (start + 65536, start + 6 + 65536):
                    for d in (-1, 0, 1):
                        if 0 < around + d < L:
                            cutsets.append([around + d])
                cutsets.append([start + 10, L - 30])          # the head and the tail of the big line arrive separately
                for cs in cutsets:
                    # never cut inside a multi-byte character here (that is the other variants' subject)
                    cs = [c for c in cs if (data[c] & 0xC0) != 0x80]
                    chunks.append({"variant": variant, "cuts": cs})
    for variant in ("short-lf", "short-crlf"):
        data, _ = chunk_stream(variant)
        # pairs: quick = every pair with one cut inside the region after the endpoint event; thorough = all pairs
        n = len(data)
        pairs = itertools.combinations(range(1, n), 2)
        if tier == "quick":
            pairs = ((a, b) for (a, b) in pairs if (a % 3 == 0) or (data[a] & 0xC0) == 0x80 or (data[b] & 0xC0) == 0x80
                     or data[a] in (10, 13) or data[b] in (10, 13))
        for a, b in pairs:
            chunks.append({"variant": variant, "cuts": [a, b]})
    if tier == "thorough":
        for variant in ("long-lf", "long-crlf", "short-lf", "short-crlf"):
            data, _ = chunk_stream(variant)
            chunks.append({"variant": variant, "cuts": list(range(1, len(data)))})
    exits = [{"exit": e, "moment": m, "order": o} for e in ("normal", "exception", "task-cancel", "scope-cancel")
             for m in ("before-first", "post-in-flight", "waiting-for-event", "after-terminal") for o in ("fifo", "lifo")]
    return est, req, chunks, exits


def run(tier: str, only=None) -> core.Result:
    res = core.Result("C12", "fault_enumeration")
    est, req, chunks, exits = configs_for(tier)
    after = [{"first": f, "later": l, "id": i} for f in ("200-body", "500", "200-nonjson", "exception", "202+event", "202-silence")
             for l in ("server-request", "stray-response", "notification") for i in RIDS]
    for name, ref, cfgs in (("establishment", RUN_EST, est), ("request-life-cycle", RUN_REQ, req),
                            ("traffic-after-a-finished-request", RUN_AFTER, after),
                            ("event-stream-chunking", RUN_CHUNK, chunks), ("two-connections-alive", RUN_TWO, two_configs()),
                            ("post-reply-lost-after-the-server-acted", RUN_LOST, lost_reply_configs()),
                            ("timeout-with-a-full-read-stream", RUN_FULL, full_stream_configs()),
                            ("exit-paths", RUN_EXIT, exits)):
        if only and name not in only:
            continue
        out = explorer.explore(ref, cfgs, fidelity=True)
        sched.absorb(res, name, ref, out, cfgs)
        sched.debug_pass(res, name, ref, cfgs, every=(40 if name == "event-stream-chunking" else 1))
    if not only or "conformance" in only:
        from . import c12_conf

        c12_conf.add_conformance_part(res, tier)
    res.coverage["exhaustive"] = True
    res.coverage["rule"] = (
        "establishment: 5 endpoint announcement forms, announcement at {0, 0.5, timeout-1us, timeout (both tie orders), "
        "timeout+1us, later, never}, 404/500/connect error/empty stream/never-announcing with and without connect delay; "
        "request life-cycle: modes {200 body, 202+event in both orders, 202 and silence, 500, non-JSON 200, exception, 202+event+notification} "
        "x ids {string, digit string, integer} x every order of {POST completes, event arrives, notification} x every placement from the "
        "time menu (relative to the transport's own timers); chunking: every single cut of the long LF and CRLF streams, pairs of cuts on "
        "the short ones (thorough: all pairs, byte-at-a-time), payloads with raw U+2028 / U+2029 / U+0085 and endpoint-looking texts "
        "(/messages/, /mcp, http://x/mcp?a=1) in typed and untyped events, JSON serialised with members in another order ('id' first) and with blanks after the "
        "opening brace; two connections alive at once (own hosts, own event "
        "streams), one request pending on each with the same / different ids: every order of {202 for X, 202 for Y, answer event "
        "on X, answer event on Y}; X leaves while Y is pending and Y is then answered / stays silent until the timeout; both silent "
        "- each connection must read exactly what it reads alone (its own connection-specific payload or one timeout error); big data "
        "lines (60 KiB, 64 KiB +- 1, 200 KiB; response and notification) in one piece, 16 KiB pieces, 64 KiB pieces and cut 1 byte "
        "around the 64 KiB mark; the POST's reply lost (6 httpx exceptions) although the server acted on it and answers every POST "
        "it receives, the answer event before / after the failure / never: the message is POSTed once, exactly one terminal; a request answered 202 and then "
        "silence while 0 / 50 / 99 / 100 / 101 / 150 undrained server messages sit in the read stream, the answer arriving after the "
        "timeout (while the timeout error may be waiting for room), the consumer draining only afterwards; exit: 4 exit paths x 4 moments x 2 cancellation delivery orders"
    )
    res.assumptions = [
        "an answer event arriving after the transport has already reported the failed POST is outside the statement's modes: one or "
        "two messages are accepted then; the POST count (exactly one per message) is judged in every case",
        "a response event arriving after the transport already synthesised its timeout error is outside the statement's modes: one or two messages are accepted then",
        "the event stream uses the canonical 'event: x / data: y' encoding with LF or CRLF; other SSE encodings are C11's subject",
        "HTTP-level timeouts are not modelled (no sockets); the transport's own asyncio timeouts run on the virtual clock",
    ]
    return res
