"""C02 - everything the library emits is valid JSON-RPC 2.0 and survives its own parser.

Emitters are discovered, not listed:
 (a) module-level ``create_*`` callables of json_rpc_message.py and the ``create_*``
     classmethods of the classes defined there;
 (b) every ``send_*`` coroutine function of the package, called with type-directed
     arguments on harness streams against a scripted responder (vf.helpers_drive);
     everything they put on the write stream is captured;
 (c) ``MCPServer`` / ``ProtocolHandler.handle_message`` outputs for a grid of requests;
 (d) the stdio transport's serialiser (bytes reaching the scripted child's stdin for
     typed messages and plain dicts) and ``BatchProcessor.create_batch_rejection_error``.

Oracle: vf.jsonrpc_ref.classify on every *serialised* form, the inputs must be found
unchanged in it (type-strict JSON equality, nested nulls included), and
``parse_message(json.loads(wire))`` must be a message of the same kind with
identical id / method / params / result / error.
"""
from __future__ import annotations

import ast
import copy
import hashlib
import importlib
import inspect
import itertools
import json
import os
from typing import Any, Dict, List, Optional, Tuple

from .. import core, explorer, gen, sched, seams
from .. import helpers_drive as hd
from ..jsonrpc_ref import classify, strict_eq
from ..vloop import new_loop

RUN = "vf.checks.c02:run_one"
JM = "chuk_mcp.protocol.messages.json_rpc_message"

METHODS = ["tools/call", "", "méthod/ \U0001F600\"\\\n"]
IDS = list(gen.IDS)
IDS_FEW = [0, 2 ** 64 - 1, "", "007", "é"]
IDS_TWO = [2 ** 64 - 1, ""]
CODES = [-32700, 0, 1, -(2 ** 63), 2 ** 63]
MSGS = ["", "a", "méss  \U0001F600\"\\\n\x00"]
TEXTS = ["x", "", "café  \U0001F600\"\\\n"]
TOKENS = ["tok-é", 7]
KIND_OF_NAME = {"create_request": "request", "create_notification": "notification",
                "create_response": "result", "create_error_response": "error"}

_TABLES: Dict[Tuple[str, int], list] = {}


def table(what: str, depth: int) -> list:
    """Deterministic payload tables (built once per process; forked workers inherit them)."""
    key = (what, depth)
    if key not in _TABLES:
        vals = list(gen.json_values(depth))
        _TABLES[("values", depth)] = vals
        _TABLES[("objects", depth)] = [v for v in vals if isinstance(v, dict)]
    return _TABLES[key]


# ---------------------------------------------------------------------------
# the oracle
# ---------------------------------------------------------------------------
def jnorm(x: Any) -> Any:
    return json.loads(json.dumps(x))


def members(w: Dict[str, Any]) -> Dict[str, Any]:
    """id/method/params/result/error of a wire object; a top-level null equals absence (except result)."""
    return {k: w[k] for k in ("id", "method", "params", "result", "error") if k in w and not (w[k] is None and k != "result")}


def kind_by_presence(w: Dict[str, Any]) -> Optional[str]:
    m = members(w)
    if "method" in m:
        return "request" if "id" in m else "notification"
    if "error" in m:
        return "error"
    if "result" in m:
        return "result"
    return None


def forms_of(m: Any) -> Dict[str, Any]:
    """Every serialised form of an emitted object; a value that is an Exception marks a failed serialisation."""
    out: Dict[str, Any] = {}
    if isinstance(m, dict):
        try:
            out["dict"] = jnorm(m)
        except Exception as e:  # noqa: BLE001
            out["dict"] = e
        return out
    for name, fn in (("model_dump(exclude_none=True)", lambda: jnorm(m.model_dump(exclude_none=True))),
                     ("model_dump_json()", lambda: json.loads(m.model_dump_json())),
                     ("model_dump_json(exclude_none=True)", lambda: json.loads(m.model_dump_json(exclude_none=True)))):
        try:
            out[name] = fn()
        except Exception as e:  # noqa: BLE001
            out[name] = e
    return out


class Judge:
    def __init__(self, emitter: str):
        self.emitter = emitter
        self.viol: List[dict] = []
        self.cnt: Dict[str, int] = {}
        self._per: Dict[str, int] = {}
        self.h = hashlib.blake2b(digest_size=8)  # digest of everything emitted in this block (part of the observation)

    def count(self, k: str, n: int = 1):
        self.cnt[k] = self.cnt.get(k, 0) + n

    def bad(self, cls: str, msg: str, **extra):
        sig = {"class": cls, "emitter": self.emitter, **extra}
        k = json.dumps(sig, sort_keys=True)
        self._per[k] = self._per.get(k, 0) + 1
        if self._per[k] <= 2 and len(self.viol) < 12:
            self.viol.append({"sig": sig, "msg": msg[:900]})

    def wire(self, w: Any, form: str, expect_kind: Any, expect: Optional[Dict[str, Any]], ctx: str,
             allow_null_id_error: bool = False) -> Optional[str]:
        """Judge one serialised form.  expect_kind: a kind, a tuple of kinds, or None (any valid kind).
        expect: members that must be found exactly (a value of tuple type = any of these)."""
        from chuk_mcp.protocol.messages.json_rpc_message import parse_message

        self.count("forms_judged")
        try:
            self.h.update(json.dumps(w, sort_keys=True).encode())
        except Exception:  # noqa: BLE001
            self.h.update(repr(type(w)).encode())
        if isinstance(w, Exception):
            self.bad("not-serialisable", f"{form} raised {w!r}; {ctx}", form=form)
            return None
        probe = w
        if allow_null_id_error and isinstance(w, dict) and w.get("id", 0) is None and "error" in w:
            probe = dict(w, id=0)  # JSON-RPC 2.0 section 5.1: id null when the request id cannot be determined
            self.count("error-with-null-id(accepted per JSON-RPC 5.1)")
        kind, why = classify(probe)
        if kind is None:
            self.bad("invalid-envelope", f"{form} = {json.dumps(w)[:300]} is not a JSON-RPC 2.0 message: {why}; {ctx}",
                     form=form, why=why)
            return None
        kinds = (expect_kind,) if isinstance(expect_kind, str) else expect_kind
        if kinds is not None and kind not in kinds:
            self.bad("wrong-kind", f"{form} = {json.dumps(w)[:300]} is a {kind}, emitter produces {kinds}; {ctx}",
                     form=form, got=kind)
            return kind
        mw = members(w)
        for k, v in (expect or {}).items():
            alts = v if isinstance(v, tuple) else (v,)
            got = mw.get(k, _ABSENT)
            if not any((a is _ABSENT and got is _ABSENT) or (a is not _ABSENT and got is not _ABSENT and strict_eq(got, a))
                       for a in alts):
                self.bad("payload-altered",
                         f"{form}: member {k!r} is {_show(got)}, the emitter was given {_show(alts[0])}; {ctx}",
                         form=form, member=k, how=_diff_class(got, alts[0]))
        # the library's own parser
        try:
            parsed = parse_message(copy.deepcopy(w))
        except Exception as e:  # noqa: BLE001
            self.bad("own-parser-rejects", f"parse_message({json.dumps(w)[:300]}) raised {type(e).__name__}: {str(e)[:120]}; {ctx}",
                     form=form, kind=kind)
            return kind
        try:
            pw = jnorm(parsed.model_dump(exclude_none=True))
        except Exception as e:  # noqa: BLE001
            self.bad("parsed-not-dumpable", f"parsed {type(parsed).__name__} cannot be dumped: {e!r}; {ctx}", form=form)
            return kind
        pk = kind_by_presence(pw)
        if pk != kind:
            self.bad("roundtrip-kind-changed", f"{json.dumps(w)[:300]} ({kind}) parsed as {pk}: {json.dumps(pw)[:300]}; {ctx}",
                     form=form, kind=kind, parsed=str(pk))
            return kind
        mp = members(pw)
        for k in ("id", "method", "params", "result", "error"):
            a, b = mw.get(k, _ABSENT), mp.get(k, _ABSENT)
            if (a is _ABSENT) != (b is _ABSENT) or (a is not _ABSENT and not strict_eq(a, b)):
                self.bad("roundtrip-member-changed",
                         f"member {k!r}: emitted {_show(a)}, after parse_message {_show(b)}; wire {json.dumps(w)[:200]}; {ctx}",
                         form=form, member=k, how=_diff_class(b, a))
        self.count("kind:" + kind)
        return kind

    def emitted(self, m: Any, expect_kind: Any, expect: Optional[Dict[str, Any]], ctx: str, **kw) -> Optional[str]:
        self.count("emitted")
        kind = None
        for form, w in forms_of(m).items():
            kind = self.wire(w, form, expect_kind, expect, ctx, **kw) or kind
        return kind


class _Absent:
    def __repr__(self):
        return "<absent>"


_ABSENT = _Absent()


def _show(x: Any) -> str:
    if x is _ABSENT:
        return "<absent>"
    try:
        return json.dumps(x)[:160]
    except Exception:  # noqa: BLE001
        return repr(x)[:160]


def _diff_class(got: Any, want: Any) -> str:
    """Stable, payload-free description of how two JSON values differ."""
    if got is _ABSENT:
        return "member-missing"
    if want is _ABSENT:
        return "member-added"
    if type(got) is not type(want):
        return f"type {type(want).__name__}->{type(got).__name__}"
    if isinstance(got, dict):
        if got.keys() != want.keys():
            lost = [k for k in want if k not in got]
            if lost and all(want[k] is None for k in lost) and not [k for k in got if k not in want]:
                return "null-valued-key-dropped"
            return "keys-differ"
        for k in got:
            if not strict_eq(got[k], want[k]):
                return _diff_class(got[k], want[k])
    if isinstance(got, list):
        if len(got) != len(want):
            return "list-length"
        for a, b in zip(got, want):
            if not strict_eq(a, b):
                return _diff_class(a, b)
    return "value"


def contains(tree: Any, sub: Any) -> bool:
    if strict_eq(tree, sub):
        return True
    if isinstance(tree, dict):
        return any(contains(v, sub) for v in tree.values())
    if isinstance(tree, list):
        return any(contains(v, sub) for v in tree)
    return False


# ---------------------------------------------------------------------------
# (a) constructors
# ---------------------------------------------------------------------------
KNOWN_CTOR_PARAMS = {"method", "params", "id", "result", "code", "message", "data", "progress_token"}


def discover_constructors() -> List[Dict[str, Any]]:
    jm = importlib.import_module(JM)
    out = []
    for n, o in sorted(vars(jm).items()):
        if n.startswith("create_") and inspect.isfunction(o) and o.__module__ == jm.__name__:
            out.append({"name": n, "owner": None, "params": list(inspect.signature(o).parameters)})
        elif inspect.isclass(o) and o.__module__ == jm.__name__:
            for n2, o2 in sorted(vars(o).items()):
                if n2.startswith("create_") and isinstance(o2, (classmethod, staticmethod)):
                    f = getattr(o, n2)
                    out.append({"name": n2, "owner": n, "params": list(inspect.signature(f).parameters)})
    return out


def _ctor(c):
    jm = importlib.import_module(JM)
    return getattr(getattr(jm, c["owner"]), c["name"]) if c["owner"] else getattr(jm, c["name"])


def _ctor_label(c) -> str:
    return (c["owner"] + "." if c["owner"] else "") + c["name"]


def _result_is_object_only(f) -> bool:
    ann = str(inspect.signature(f).parameters["result"].annotation)
    return "Dict" in ann or "dict" in ann


def _run_ctor(cfg) -> Dict[str, Any]:
    c = cfg["ctor"]
    f = _ctor(c)
    label = _ctor_label(c)
    J = Judge(label)
    kind = KIND_OF_NAME[c["name"]]
    params = c["params"]
    fixed: Dict[str, Any] = {}
    if "id" in params:
        fixed["id"] = None if cfg["id"] is None else cfg["ids"][cfg["id"]]
    if "method" in params:
        fixed["method"] = METHODS[cfg["method"]]
    if "code" in params:
        fixed["code"] = CODES[cfg["code"]]
    if "message" in params:
        fixed["message"] = MSGS[cfg["msg"]]
    if cfg.get("token") is not None:
        fixed["progress_token"] = TOKENS[cfg["token"]]
    vary = "params" if "params" in params else "result" if "result" in params else "data"
    if vary == "params":
        payloads = [None] + table("objects", cfg["depth"])
    elif vary == "result" and _result_is_object_only(f):
        payloads = [None] + table("objects", cfg["depth"])
    else:
        payloads = table("values", cfg["depth"])
    lo, hi = cfg.get("lo", 0), cfg.get("hi", len(payloads))
    with sched.patched_uuid():
        _ctor_loop(J, f, label, kind, fixed, vary, payloads[lo:hi])
    return {"outcome": f"ctor:{kind}", "violations": J.viol, "counters": J.cnt, "emitter": label, "wire_digest": J.h.hexdigest()}


def _ctor_loop(J, f, label, kind, fixed, vary, payloads):
    for p in payloads:
        kw = dict(fixed)
        kw[vary] = copy.deepcopy(p)
        ctx = f"{label}({', '.join(f'{k}={_show(v)}' for k, v in {**fixed, vary: p}.items())})"
        J.count("cases")
        try:
            m = f(**kw)
        except Exception as e:  # noqa: BLE001
            # every input of the grid is type-correct for the constructor's signature: refusing it is a failure to emit
            J.bad("emitter-raised", f"raised {type(e).__name__}: {str(e)[:120]}; {ctx}", exc=type(e).__name__)
            continue
        expect: Dict[str, Any] = {}
        if "id" in fixed and fixed["id"] is not None:
            expect["id"] = fixed["id"]
        if "method" in fixed:
            expect["method"] = fixed["method"]
        if vary == "params":
            ep = copy.deepcopy(p)
            if "progress_token" in fixed:
                ep = ep if ep is not None else {}
                ep.setdefault("_meta", {})["progressToken"] = fixed["progress_token"]
            expect["params"] = _ABSENT if ep is None else ep
        elif vary == "result":
            if p is None:
                J.count("top-level-result-null(recorded: documented {} substitution)")
            else:
                expect["result"] = p
        else:
            base = {"code": fixed["code"], "message": fixed["message"]}
            expect["error"] = (base, {**base, "data": None}) if p is None else {**base, "data": p}
        k = J.emitted(m, kind, expect, ctx)
        if "id" in fixed and fixed["id"] is None and k is not None:
            J.count("generated-id")


# ---------------------------------------------------------------------------
# (b) send_* helpers
# ---------------------------------------------------------------------------
def _run_helper(cfg) -> Dict[str, Any]:
    name = cfg["helper"]
    func = hd.resolve(name)
    sname = hd.short(name)
    J = Judge(sname)
    objs = table("objects", cfg["depth"])
    payloads = [None] + objs[cfg["lo"]:cfg["hi"]] if cfg["lo"] == 0 else objs[cfg["lo"]:cfg["hi"]]
    if not cfg["payload"]:
        payloads = [None]
    outs = set()
    for p in payloads:
        prof = hd.Profile(rich=cfg["rich"], arm=cfg["arm"], payload=copy.deepcopy(p), text=TEXTS[cfg["text"]])
        try:
            kw = hd.build_kwargs(func, prof)
        except hd.Uncallable as e:
            raise core.HarnessError(f"discovered helper {name} cannot be called: {e}") from None

        def script(req, n):
            return [hd.incoming({"jsonrpc": "2.0", "id": req["id"], "result": hd.result_for(func, req)})]

        o = hd.drive(func, kw, script if cfg["kind"] == hd.REQUEST else None, kind=cfg["kind"], timeout=2.0)
        J.count("calls")
        ctx = f"{sname}({', '.join(f'{k}={_show_arg(v)}' for k, v in kw.items())})"
        if o["status"] != "ok":
            J.bad("helper-did-not-finish", f"{o['status']} {o.get('detail')}; {ctx}", status=o["status"])
            outs.add(o["status"])
            continue
        outs.add(o["outcome"] if o["outcome"] == "returned" else "raised-" + type(o["exc"]).__name__)
        if o["script_error"]:
            raise core.HarnessError(f"responder failed for {name}: {o['script_error']}")
        if not o["writes"]:
            if o["outcome"] == "raised":
                J.count("nothing-written(call raised before sending: " + type(o["exc"]).__name__ + ")")
                continue
            J.bad("nothing-emitted", f"helper returned without writing a message; {ctx}")
            continue
        for i, m in enumerate(o["writes"]):
            if cfg["kind"] == hd.NOTIFY:
                ek: Any = "notification"
            else:
                ek = "request" if i == 0 else ("request", "notification")
            k = J.emitted(m, ek, None, f"write #{i} of {ctx}")
            if k == "request":
                w = hd.dump(m)
                if not isinstance(w.get("id"), str) or w.get("id") == "":
                    J.count("request-id-not-nonempty-string(recorded)")
        # the payload handed to a Dict[str, Any] parameter must be on the wire unchanged
        if p and prof.payload_params and o["writes"]:
            first = forms_of(o["writes"][0])
            for form, w in first.items():
                if isinstance(w, dict) and not contains(w.get("params"), p):
                    J.bad("payload-altered",
                          f"{form}: params {_show(w.get('params'))} do not contain the object {_show(p)} passed as "
                          f"{prof.payload_params}; {ctx}", form=form, member="params", how=_find_diff(w.get("params"), p))
            J.count("payload-containment-checked")
    return {"outcome": "helper:" + "+".join(sorted(outs)), "violations": J.viol, "counters": J.cnt, "emitter": sname,
            "wire_digest": J.h.hexdigest()}


def _find_diff(tree: Any, sub: Any) -> str:
    """Best-effort class of the difference: compare with the most similar subtree (same key set ignoring nulls)."""
    best = None

    def walk(t):
        nonlocal best
        if isinstance(t, dict):
            if isinstance(sub, dict) and set(t) <= set(sub) and best is None:
                best = t
            for v in t.values():
                walk(v)
        elif isinstance(t, list):
            for v in t:
                walk(v)

    walk(tree)
    return _diff_class(best, sub) if best is not None else "not-found"


def _show_arg(v: Any) -> str:
    if hasattr(v, "model_dump"):
        return type(v).__name__ + "(...)"
    if isinstance(v, list) and v and hasattr(v[0], "model_dump"):
        return "[" + type(v[0]).__name__ + "(...)]"
    return _show(v)


# ---------------------------------------------------------------------------
# (c) server handler
# ---------------------------------------------------------------------------
SERVER_CASES = [
    ("initialize", "raw"), ("ping", "raw"), ("tools/list", "raw"),
    ("tools/call", "echo"), ("tools/call", "boom"), ("tools/call", "unknown-tool"), ("tools/call", "list-tool"),
    ("resources/list", "raw"), ("resources/read", "known"), ("resources/read", "unknown"),
    ("no/such/method", "raw"), ("", "raw"), ("méthod/ \U0001F600", "raw"), ("notifications/initialized", "raw"),
]


def _make_server():
    from chuk_mcp.server.server import MCPServer

    srv = MCPServer("srv-é", "1.0")

    async def echo(**kw):
        return kw

    async def boom(**kw):
        raise RuntimeError("tool failed: é \"\\\n")

    async def list_tool(**kw):
        return ["a", {"k": None}, 3, None]

    async def res():
        return "content é "

    srv.register_tool("echo", echo, {"type": "object"}, "echo é")
    srv.register_tool("boom", boom, {"type": "object"})
    srv.register_tool("list-tool", list_tool, {"type": "object"})
    srv.register_resource("file:///rés", res, name="r")
    return srv


def _run_server(cfg) -> Dict[str, Any]:
    from chuk_mcp.protocol.messages.json_rpc_message import parse_message

    method, variant = SERVER_CASES[cfg["case"]]
    rid = cfg["ids"][cfg["id"]]
    J = Judge("server:" + (method or "<empty-method>") + ("/" + variant if variant != "raw" else ""))
    objs = [None] + table("objects", cfg["depth"])
    srv = _make_server()
    loop = new_loop(horizon=60)
    outs = set()

    async def main():
        for p in objs[cfg["lo"]:cfg["hi"]]:
            if variant == "raw":
                params = copy.deepcopy(p)
            elif method == "tools/call":
                params = {"name": {"echo": "echo", "boom": "boom", "unknown-tool": "nope", "list-tool": "list-tool"}[variant],
                          "arguments": copy.deepcopy(p) if p is not None else {}}
            else:
                params = {"uri": "file:///rés" if variant == "known" else "file:///none", "x": copy.deepcopy(p)}
            wire = {"jsonrpc": "2.0", "id": rid, "method": method}
            if params is not None:
                wire["params"] = params
            J.count("cases")
            try:
                msg = parse_message(copy.deepcopy(wire))
            except Exception:  # noqa: BLE001
                J.count("request-not-parseable(skipped)")
                continue
            try:
                out, _sid = await srv.protocol_handler.handle_message(msg)
            except Exception as e:  # noqa: BLE001
                J.count("handler-raised(C08's subject, nothing emitted):" + type(e).__name__)
                outs.add("raised")
                continue
            if out is None:
                J.count("no-response")
                outs.add("none")
                continue
            k = J.emitted(out, ("result", "error"), None, f"response to {json.dumps(wire)[:300]}")
            outs.add(str(k))

    with sched.patched_uuid():
        status, val = loop.run_main(main())
    loop.abandon()
    if status != "ok":
        raise core.HarnessError(f"server harness did not finish: {status} {core.clean_repr(val)}")
    return {"outcome": "server:" + "+".join(sorted(outs)), "violations": J.viol, "counters": J.cnt, "emitter": J.emitter,
            "wire_digest": J.h.hexdigest()}


# ---------------------------------------------------------------------------
# (d) stdio serialiser and the batch rejection error
# ---------------------------------------------------------------------------
STDIO_KINDS = ["request-typed", "request-unified", "request-dict", "notification-typed", "notification-dict",
               "result-typed", "result-dict", "error-typed", "error-dict"]


def _stdio_message(kindname: str, rid: Any, p: Any, method: str):
    """(object to put on the write stream, expected kind, expected members)"""
    from chuk_mcp.protocol.messages import json_rpc_message as jm

    base, how = kindname.split("-")
    if base == "request":
        exp = {"id": rid, "method": method, "params": _ABSENT if p is None else p}
        if how == "typed":
            return jm.create_request(method, copy.deepcopy(p), id=rid), "request", exp
        if how == "unified":
            return jm.JSONRPCMessage.create_request(method, copy.deepcopy(p), id=rid), "request", exp
        d = {"jsonrpc": "2.0", "id": rid, "method": method}
    elif base == "notification":
        exp = {"method": method, "params": _ABSENT if p is None else p}
        if how == "typed":
            return jm.create_notification(method, copy.deepcopy(p)), "notification", exp
        d = {"jsonrpc": "2.0", "method": method}
    elif base == "result":
        exp = {"id": rid, "result": p}
        if how == "typed":
            return jm.create_response(rid, copy.deepcopy(p)), "result", exp
        return {"jsonrpc": "2.0", "id": rid, "result": copy.deepcopy(p)}, "result", exp
    else:
        err = {"code": -32000, "message": MSGS[2], "data": p}
        exp = {"id": rid, "error": err}
        if how == "typed":
            return jm.create_error_response(rid, -32000, MSGS[2], copy.deepcopy(p)), "error", exp
        return {"jsonrpc": "2.0", "id": rid, "error": copy.deepcopy(err)}, "error", exp
    if p is not None:
        d["params"] = copy.deepcopy(p)
    return d, base, exp


def stdio_values(depth: int) -> list:
    """result / error.data payloads for the transport part: every value up to depth 2, plus (thorough) every depth-3 object."""
    key = ("stdio-values", depth)
    if key not in _TABLES:
        vals = [v for v in table("values", min(depth, 2)) if v is not None]
        if depth > 2:
            vals = vals + table("objects", depth)
        _TABLES[key] = vals
    return _TABLES[key]


def _run_stdio(cfg) -> Dict[str, Any]:
    from chuk_mcp.transports.stdio.stdio_client import StdioClient

    kindname = STDIO_KINDS[cfg["kind"]]
    rid = cfg["ids"][cfg["id"]]
    method = METHODS[cfg["method"]]
    J = Judge("stdio:" + kindname)
    base = kindname.split("-")[0]
    if base in ("request", "notification"):
        payloads = [None] + table("objects", cfg["depth"])
    else:
        payloads = stdio_values(cfg["depth"])
    payloads = payloads[cfg["lo"]:cfg["hi"]]
    loop = new_loop(horizon=60)
    q = seams.Quiescence(loop)
    proc = seams.FakeProcess()
    sent: List[tuple] = []
    info: Dict[str, Any] = {}

    async def main():
        with seams.patched_open_process(lambda cmd, kw: proc) as pp:
            async with StdioClient(seams.stdio_params()) as client:
                _read, write = client.get_streams()
                for p in payloads:
                    try:
                        obj, kind, exp = _stdio_message(kindname, rid, p, method)
                    except Exception as e:  # noqa: BLE001
                        J.count("cases")
                        J.bad("emitter-raised", f"building the {kindname} message raised {type(e).__name__}: {str(e)[:120]}; "
                                                f"id={_show(rid)} method={_show(method)} payload={_show(p)}", exc=type(e).__name__)
                        continue
                    n0 = len(proc.stdin.sends)
                    await write.send(obj)
                    await q.settle()
                    sent.append((p, kind, exp, proc.stdin.sends[n0:]))
            info["spawned"] = len(pp.spawned)

    status, val = loop.run_main(main())
    errors = loop.collect_errors()
    loop.abandon()
    if status != "ok":
        raise core.HarnessError(f"stdio harness did not finish: {status} {core.clean_repr(val)}")
    if info.get("spawned") != 1:
        raise core.HarnessError("seam missing: StdioClient did not call anyio.open_process")
    for p, kind, exp, lines in sent:
        J.count("cases")
        ctx = f"{kindname} id={_show(rid)} method={_show(method)} payload={_show(p)}"
        if len(lines) != 1:
            J.bad("stdio-line-count", f"{len(lines)} writes to the child's stdin for one message; {ctx}", lines=min(len(lines), 2))
            continue
        raw = lines[0]
        if not raw.endswith(b"\n") or raw.count(b"\n") != 1:
            J.bad("stdio-framing", f"bytes {raw[:120]!r} are not one LF-terminated line; {ctx}")
            continue
        try:
            w = json.loads(raw.decode("utf-8"))
        except Exception as e:  # noqa: BLE001
            J.bad("stdio-not-json", f"bytes {raw[:120]!r}: {e!r}; {ctx}")
            continue
        J.count("emitted")
        J.wire(w, "stdin-bytes", kind, exp, ctx)
    if errors:
        J.bad("loop-error", f"{errors[:2]}")
    return {"outcome": "stdio:" + base, "violations": J.viol, "counters": J.cnt, "emitter": J.emitter,
            "wire_digest": J.h.hexdigest()}

# ---------------------------------------------------------------------------
# (e) raw-dict emitters: functions that build a {"jsonrpc": ...} literal themselves
# ---------------------------------------------------------------------------
RAW_DRIVEN = {
    "protocol/features/batching.py:BatchProcessor.create_batch_rejection_error": "part d-batch-rejection-error",
    "protocol/features/batching.py:BatchProcessor.process_message_data": "part e-raw-dict-emitters",
    "protocol/types/elicitation.py:ElicitationHandler.request_user_input": "part e-raw-dict-emitters",
    "protocol/types/elicitation.py:ElicitationClient.handle_elicitation_request": "part e-raw-dict-emitters",
}
RAW_UNDRIVEN = {
    "protocol/features/batching.py:test_version_batching_scenarios":
        "self-test helper: the literal is an input message fed to can_process_batch, nothing is emitted",
    "transports/sse/transport.py:SSETransport._send_message_via_http":
        "synthesised responses of the SSE transport: driven on the scripted HTTP seam by C12 (id/terminal-message oracle there)",
    "transports/http/transport.py:StreamableHTTPTransport._send_message_via_http":
        "synthesised responses of the Streamable-HTTP transport: driven on the scripted HTTP seam by C11",
    "transports/http/transport.py:StreamableHTTPTransport._send_message_internal":
        "synthesised responses of the Streamable-HTTP transport: driven on the scripted HTTP seam by C11",
    "transports/http/transport.py:StreamableHTTPTransport._process_sse_response":
        "synthesised responses of the Streamable-HTTP transport: driven on the scripted HTTP seam by C11",
    "transports/http/http_client.py:detect_transport_type":
        "constant probe request {id: 'transport-detect', method: 'ping'} posted to a URL; needs the network seam, no payload enters it",
}


def discover_raw_dict_emitters() -> List[str]:
    """Every function/method of the package whose body holds a dict literal with a "jsonrpc" key (AST walk)."""
    import chuk_mcp

    root = os.path.dirname(os.path.abspath(chuk_mcp.__file__))
    found = set()
    for d, _dirs, files in sorted(os.walk(root)):
        for f in sorted(files):
            if not f.endswith(".py"):
                continue
            path = os.path.join(d, f)
            rel = os.path.relpath(path, root).replace(os.sep, "/")
            try:
                tree = ast.parse(open(path, encoding="utf-8").read())
            except SyntaxError as e:
                raise core.HarnessError(f"cannot parse {rel}: {e}") from None

            def walk(node, stack):
                for ch in ast.iter_child_nodes(node):
                    if isinstance(ch, (ast.FunctionDef, ast.AsyncFunctionDef, ast.ClassDef)):
                        walk(ch, stack + [ch.name])
                    else:
                        if isinstance(ch, ast.Dict) and any(isinstance(k, ast.Constant) and k.value == "jsonrpc" for k in ch.keys):
                            found.add(f"{rel}:{'.'.join(stack) or '<module>'}")
                        walk(ch, stack)

            walk(tree, [])
    return sorted(found)


HANDLE_DRIVEN = {"ElicitationClient.handle_elicitation_request": "part e-raw-dict-emitters (user data of every JSON kind, exceptions)"}


def discover_handle_methods() -> Dict[str, str]:
    """Functions / methods named handle_*request* in the package (AST walk), with what this check does with each."""
    import chuk_mcp

    root = os.path.dirname(os.path.abspath(chuk_mcp.__file__))
    out: Dict[str, str] = {}
    for d, _dirs, files in sorted(os.walk(root)):
        for f in sorted(files):
            if not f.endswith(".py"):
                continue
            try:
                tree = ast.parse(open(os.path.join(d, f), encoding="utf-8").read())
            except SyntaxError:
                continue

            def walk(node, stack):
                for ch in ast.iter_child_nodes(node):
                    if isinstance(ch, (ast.FunctionDef, ast.AsyncFunctionDef)):
                        if ch.name.startswith("handle_") and "request" in ch.name:
                            q = ".".join(stack + [ch.name])
                            out[q] = HANDLE_DRIVEN.get(q, "listed, not driven here: builds its answer with the create_* constructors "
                                                          "(driven in part a) or returns a typed result object, not an envelope dict")
                    elif isinstance(ch, ast.ClassDef):
                        walk(ch, stack + [ch.name])

            walk(tree, [])
    return out


class _Coded(Exception):
    def __init__(self, msg, code):
        super().__init__(msg)
        self.code = code


def _exc_family() -> List[Tuple[str, Any]]:
    """(name, factory) - exceptions a message handler may raise; several carry a `code` attribute that is not a JSON integer."""
    from chuk_mcp.protocol.types.errors import NonRetryableError, RetryableError, ValidationError

    def method_code():
        e = _Coded("callable code", None)
        e.code = e.with_traceback  # a bound method
        return e

    return [
        ("plain", lambda: RuntimeError("boom é  \"\\\n")),
        ("no-text", lambda: ValueError()),
        ("code-int", lambda: _Coded("int code", -32001)),
        ("code-str", lambda: _Coded("str code", "e3q8")),
        ("code-callable", method_code),
        ("code-none", lambda: _Coded("none code", None)),
        ("code-float", lambda: _Coded("float code", 1.5)),
        ("code-true", lambda: _Coded("bool code", True)),
        ("code-huge", lambda: _Coded("huge code", 2 ** 64)),
        ("library-retryable", lambda: RetryableError("retry me", -32603)),
        ("library-nonretryable", lambda: NonRetryableError("no retry", -32601)),
        ("library-validation", lambda: ValidationError("bad params")),
        ("key-error", lambda: KeyError("missing é")),
    ]


def _run_coro(coro):
    try:
        coro.send(None)
    except StopIteration as e:
        return e.value
    coro.close()
    raise core.HarnessError("coroutine suspended: the driver expected it to finish without awaiting the loop")


def _run_raw(cfg) -> Dict[str, Any]:
    which = cfg["which"]
    if which == "process_message_data":
        return _run_pmd(cfg)
    if which == "elicitation-client":
        return _run_elicit_client(cfg)
    if which == "elicitation-handler":
        return _run_elicit_handler(cfg)
    raise core.HarnessError(which)


def _run_pmd(cfg) -> Dict[str, Any]:
    """BatchProcessor.process_message_data with handlers that answer, stay silent or raise."""
    from chuk_mcp.protocol.features.batching import BatchProcessor

    J = Judge("BatchProcessor.process_message_data")
    version = cfg["version"]
    ids = cfg["ids"]
    fam = _exc_family()
    behaviours = ["ok", "none"] + ["raise:" + n for n, _ in fam]
    members = [("req", b) for b in behaviours] + [("notif", b) for b in behaviours] + [("nondict", "raise:type")]
    outs = set()

    def handler(item):
        if not isinstance(item, dict):
            raise TypeError("item is not an object")
        do = (item.get("params") or {}).get("do")
        if do == "ok":
            return {"jsonrpc": "2.0", "id": item.get("id"), "result": {"echo": item.get("params"), "n": None}} if "id" in item else None
        if do == "none":
            return None
        name = do.split(":", 1)[1]
        raise dict(fam)[name]()

    def build(shape, beh, rid):
        if shape == "nondict":
            return 42
        m = {"jsonrpc": "2.0", "method": "m/é", "params": {"do": beh, "n": None}}
        if shape == "req":
            m["id"] = rid
        return m

    bp = BatchProcessor(version)
    combos = [(a,) for a in members] + list(itertools.product(members, repeat=2))
    for combo in combos:
        rids = [ids[(cfg["id"] + i) % len(ids)] for i in range(len(combo))]
        batch = [build(sh, b, rid) for (sh, b), rid in zip(combo, rids)]
        ctx = f"process_message_data(version={version!r}, batch={json.dumps(batch)[:260]})"
        J.count("cases")
        try:
            out = bp.process_message_data(copy.deepcopy(batch), handler)
        except Exception as e:  # noqa: BLE001
            J.bad("emitter-raised", f"raised {type(e).__name__}: {str(e)[:100]}; {ctx}")
            outs.add("raised")
            continue
        if not bp.batching_enabled:
            outs.add("rejected")
            if not isinstance(out, dict):
                J.bad("wrong-kind", f"a rejected batch returned {type(out).__name__}; {ctx}", got=type(out).__name__)
                continue
            k = J.emitted(out, "error", {}, ctx, allow_null_id_error=True)
            if k == "error" and out["error"].get("code") != -32600:
                J.bad("rejection-code", f"code {out['error'].get('code')} is not -32600; {ctx}")
            continue
        # expected responses, member by member
        exp = []
        for (sh, b), rid, item in zip(combo, rids, batch):
            if b.startswith("raise"):
                exp.append(("error", rid if sh == "req" else _ABSENT, b))
            elif b == "ok" and sh == "req":
                exp.append(("result", rid, item))
        got = out if isinstance(out, list) else ([] if out is None else [out])
        if out is not None and not isinstance(out, list):
            J.bad("wrong-kind", f"a batch returned {type(out).__name__} instead of a list; {ctx}", got=type(out).__name__)
            continue
        if len(got) != len(exp):
            J.bad("batch-response-count", f"{len(got)} responses for {len(exp)} answerable members: {_show(got)}; {ctx}")
            outs.add("count-mismatch")
            continue
        outs.add("responses" if got else "none")
        for (ek, rid, how), g in zip(exp, got):
            if ek == "result":
                J.emitted(g, "result", {"id": rid, "result": {"echo": how.get("params"), "n": None}}, f"handler's own answer in {ctx}")
                continue
            if not isinstance(g, dict):
                J.bad("wrong-kind", f"member response is {type(g).__name__}; {ctx}", got=type(g).__name__)
                continue
            if rid is _ABSENT:
                J.count("error-for-id-less-member(recorded)")
                J.emitted(g, "error", {}, f"error for {how} in {ctx}", allow_null_id_error=True)
            else:
                J.emitted(g, "error", {"id": rid}, f"error for {how} in {ctx}")
    return {"outcome": "pmd:" + "+".join(sorted(outs)), "violations": J.viol, "counters": J.cnt, "emitter": J.emitter,
            "wire_digest": J.h.hexdigest()}


def _run_elicit_client(cfg) -> Dict[str, Any]:
    from chuk_mcp.protocol.types.elicitation import ElicitationClient

    J = Judge("ElicitationClient.handle_elicitation_request")
    rid = cfg["ids"][cfg["id"]]
    fam = _exc_family()
    objs = table("objects", cfg["depth"])
    outs = set()
    cases: List[Tuple[str, Any]] = [("data", o) for o in objs[cfg["lo"]:cfg["hi"]]]
    if cfg["lo"] == 0:
        cases += [("raise", n) for n, _ in fam]
        # the user callback may hand back ANY value (a dismissed dialog: None; a number, a flag, text, a list)
        cases += [("data", x) for x in table("values", 1) if not isinstance(x, dict)]
    for kind, x in cases:
        async def user_input(message, schema, title, kind=kind, x=x):
            if kind == "raise":
                raise dict(fam)[x]()
            return copy.deepcopy(x)

        msg = {"jsonrpc": "2.0", "id": rid, "method": "elicitation/create",
               "params": {"message": "pléase ", "schema": {"type": "object", "k": None}, "title": None}}
        ctx = f"handle_elicitation_request(id={_show(rid)}) with user function {'raising ' + x if kind == 'raise' else 'returning ' + _show(x)}"
        J.count("cases")
        try:
            out = _run_coro(ElicitationClient(user_input).handle_elicitation_request(copy.deepcopy(msg)))
        except core.HarnessError:
            raise
        except Exception as e:  # noqa: BLE001
            J.bad("emitter-raised", f"raised {type(e).__name__}: {str(e)[:100]}; {ctx}")
            continue
        if kind == "data":
            J.emitted(out, "result", {"id": rid, "result": {"data": x, "cancelled": False}}, ctx)
            outs.add("result")
        else:
            J.emitted(out, "error", {"id": rid}, ctx)
            outs.add("error")
    return {"outcome": "elicit-client:" + "+".join(sorted(outs)), "violations": J.viol, "counters": J.cnt, "emitter": J.emitter,
            "wire_digest": J.h.hexdigest()}


def _run_elicit_handler(cfg) -> Dict[str, Any]:
    from chuk_mcp.protocol.types.elicitation import ElicitationHandler, ElicitationParams

    J = Judge("ElicitationHandler.request_user_input")
    objs = table("objects", cfg["depth"])[cfg["lo"]:cfg["hi"]]
    text = TEXTS[cfg["text"]]
    loop = new_loop(horizon=60)
    sent: List[tuple] = []

    async def main():
        for o in objs:
            for title in (None, text):
                box: Dict[str, Any] = {}

                async def send(request, box=box):
                    box["request"] = request
                    await box["handler"].handle_elicitation_response(
                        {"jsonrpc": "2.0", "id": request.get("id") if isinstance(request, dict) else None, "result": {"data": {}}})

                h = ElicitationHandler(send)
                box["handler"] = h
                try:
                    params = ElicitationParams.model_validate({"message": text, "schema": copy.deepcopy(o), **({"title": title} if title is not None else {})})
                except Exception:  # noqa: BLE001
                    sent.append((o, title, "params-rejected", None))
                    continue
                try:
                    await h.request_user_input(params, timeout=5.0)
                    sent.append((o, title, "ok", box.get("request")))
                except Exception as e:  # noqa: BLE001
                    sent.append((o, title, "raised-" + type(e).__name__, box.get("request")))

    with sched.patched_uuid():
        status, val = loop.run_main(main())
    loop.abandon()
    if status != "ok":
        raise core.HarnessError(f"elicitation harness did not finish: {status} {core.clean_repr(val)}")
    outs = set()
    for o, title, st, req in sent:
        J.count("cases")
        outs.add(st)
        if st == "params-rejected":
            J.count("input-rejected-by-constructor:ElicitationParams")
            continue
        ctx = f"request_user_input(message={_show(text)}, schema={_show(o)}, title={_show(title)}) [{st}]"
        if req is None:
            J.bad("nothing-emitted", f"no request was handed to the send function; {ctx}")
            continue
        exp_params = {"message": text, "schema": o}
        if title is not None:
            exp_params["title"] = title
        J.emitted(req, "request", {"method": "elicitation/create", "params": exp_params}, ctx)
    return {"outcome": "elicit-handler:" + "+".join(sorted(outs)), "violations": J.viol, "counters": J.cnt, "emitter": J.emitter,
            "wire_digest": J.h.hexdigest()}

# ---------------------------------------------------------------------------
# (d') lines the stdio client writes on its own: the batch rejection, whatever ids the peer's batch carries
# ---------------------------------------------------------------------------
PEER_IDS = [("fraction", 1.5), ("true", True), ("false", False), ("null", None), ("array", []), ("array-of-id", [7]),
            ("object", {}), ("object-with-id", {"id": 1}), ("string", "s"), ("empty-string", ""), ("int", 7), ("zero", 0),
            ("big", 2 ** 64), ("negative-fraction", -0.5), ("absent", "__absent__")]
PEER_SHAPES = ["request", "response", "error", "bare"]


def _peer_member(shape: str, rid: Any) -> Any:
    m: Dict[str, Any] = {"jsonrpc": "2.0"}
    if rid != "__absent__":
        m["id"] = copy.deepcopy(rid)
    if shape == "request":
        m["method"] = "tools/list"
    elif shape == "response":
        m["result"] = {}
    elif shape == "error":
        m["error"] = {"code": -32000, "message": "x"}
    return m

# ---------------------------------------------------------------------------
# (b') emitters that add a progress token to the caller's params
# ---------------------------------------------------------------------------
def _meta_params() -> List[Any]:
    base = [None, {}, {"k": None}, {"_meta": {}}, {"_meta": {"other": 1}}, {"_meta": {"progressToken": "stale", "x": None}},
            {"_meta": {"nested": {"n": None}, "list": [None]}, "a": [None]},
            {"_meta": {"other": "é \U0001F600"}, "arguments": {"n": None}},
            {"_meta": {"progressToken": 5}}, {"_meta": {"": None, "a b": {}}, "": {}}]
    for o in table("objects", 1):
        base.append({**copy.deepcopy(o), "_meta": {"other": copy.deepcopy(o), "n": None}})
    return base


def _strip_token(params: Any) -> Any:
    """params without _meta.progressToken (and without an _meta left empty by that)."""
    if not isinstance(params, dict):
        return params
    p = copy.deepcopy(params)
    m = p.get("_meta")
    if isinstance(m, dict):
        m.pop("progressToken", None)
        if not m:
            del p["_meta"]
    return p


def discover_progress_emitters(disc) -> List[Dict[str, Any]]:
    out = []
    for h in disc["helpers"]:
        f = hd.resolve(h["name"])
        if "progress_callback" in inspect.signature(f).parameters:
            out.append({"what": "helper", "name": h["name"], "kind": h["kind"]})
    for c in discover_constructors():
        if "progress_token" in c["params"]:
            out.append({"what": "ctor", "ctor": c})
    return out


def _run_progress(cfg) -> Dict[str, Any]:
    em = cfg["emitter"]
    cases = _meta_params()[cfg["lo"]:cfg["hi"]]
    outs = set()
    if em["what"] == "ctor":
        f = _ctor(em["ctor"])
        J = Judge(_ctor_label(em["ctor"]) + "+progress_token")
        for p in cases:
            for tok in TOKENS:
                J.count("cases")
                ctx = f"{J.emitter}(params={_show(p)}, progress_token={_show(tok)})"
                try:
                    m = f("tools/call", copy.deepcopy(p), 7, progress_token=tok)
                except Exception as e:  # noqa: BLE001
                    J.bad("emitter-raised", f"raised {type(e).__name__}: {str(e)[:100]}; {ctx}", exc=type(e).__name__)
                    continue
                want = copy.deepcopy(p) if isinstance(p, dict) else {}
                want.setdefault("_meta", {})
                want["_meta"] = {**want["_meta"], "progressToken": tok}
                J.emitted(m, "request", {"id": 7, "method": "tools/call", "params": want}, ctx)
                outs.add("ctor")
        return {"outcome": "progress:ctor", "violations": J.viol, "counters": J.cnt, "emitter": J.emitter, "wire_digest": J.h.hexdigest()}
    func = hd.resolve(em["name"])
    sname = hd.short(em["name"])
    J = Judge(sname + "+progress_callback")

    async def on_progress(progress, total, message):
        return None

    for p in cases:
        prof = hd.Profile(rich=False, payload=copy.deepcopy(p) if isinstance(p, dict) else None)
        fixed: Dict[str, Any] = {"progress_callback": on_progress}
        if "params" in inspect.signature(func).parameters:
            fixed["params"] = copy.deepcopy(p)
        try:
            kw = hd.build_kwargs(func, prof, fixed=fixed)
        except hd.Uncallable as e:
            raise core.HarnessError(f"helper {em['name']} (takes a progress callback) cannot be called: {e}") from None

        def script(req, n):
            return [hd.incoming({"jsonrpc": "2.0", "id": req["id"], "result": hd.result_for(func, req)})]

        o = hd.drive(func, kw, script, timeout=2.0)
        J.count("calls")
        ctx = f"{sname}(params={_show(p)}, progress_callback=<callback>)"
        if o["status"] != "ok" or not o["writes"]:
            J.bad("nothing-emitted", f"{o['status']} / {o.get('outcome')}: no request written; {ctx}")
            continue
        outs.add(o["outcome"])
        for form, w in forms_of(o["writes"][0]).items():
            if isinstance(w, Exception) or not isinstance(w, dict):
                J.wire(w, form, "request", None, ctx)
                continue
            got = w.get("params")
            tok = got.get("_meta", {}).get("progressToken") if isinstance(got, dict) and isinstance(got.get("_meta"), dict) else _ABSENT
            if tok is _ABSENT or isinstance(tok, bool) or not isinstance(tok, (str, int)) or tok == "":
                J.bad("progress-token-missing", f"{form}: params {_show(got)} carry no usable _meta.progressToken; {ctx}", form=form)
            if "params" in fixed:
                a, b = _strip_token(got), _strip_token(p if isinstance(p, dict) else {})
                a = a if a else {}
                if not strict_eq(a, b):
                    J.bad("payload-altered", f"{form}: emitted params {_show(got)}; apart from the token the caller gave {_show(p)}; {ctx}",
                          form=form, member="params", how=_diff_class(a, b))
            J.wire(w, form, "request", None, ctx)
    return {"outcome": "progress:" + "+".join(sorted(outs)), "violations": J.viol, "counters": J.cnt, "emitter": J.emitter,
            "wire_digest": J.h.hexdigest()}


# ---------------------------------------------------------------------------
# (d'') what the three transports put on the wire, for messages built every way
# ---------------------------------------------------------------------------
WAYS = ["create", "unified-classmethod", "class+jsonrpc", "class-default-jsonrpc", "unified+jsonrpc", "unified-default-jsonrpc",
        "parse_message", "model_validate", "model_validate-without-jsonrpc", "dict"]
POST_TRANSPORTS = ["stdio", "streamable-http", "sse"]
POST_KINDS = ["request", "notification", "result", "error"]


def _post_payloads() -> List[Any]:
    objs = table("objects", 1)
    return [None] + objs[:24] + [objs[i] for i in range(24, len(objs), 7)]


def _big_payloads() -> List[Any]:
    """Payloads around and beyond a pipe buffer / typical chunk sizes (64 KiB, 1 MiB)."""
    return [{"pad": "p" * 65000}, {"pad": "é" * 33000, "n": None}, {"pad": "x" * (65536 - 40)}, {"pad": ["y" * 70000, None]},
            {"pad": "z" * 1100000, "tail": {"k": None}}]


def _built(way: str, kind: str, rid: Any, p: Any):
    """(message object or dict, expected members) - or None when this way cannot express the case."""
    from chuk_mcp.protocol.messages import json_rpc_message as jm

    m = METHODS[0]
    if kind == "request":
        wire = {"jsonrpc": "2.0", "id": rid, "method": m}
        exp = {"id": rid, "method": m, "params": _ABSENT if p is None else p}
        cls, args = jm.JSONRPCRequest, {"id": rid, "method": m, "params": copy.deepcopy(p)}
    elif kind == "notification":
        wire = {"jsonrpc": "2.0", "method": m}
        exp = {"method": m, "params": _ABSENT if p is None else p}
        cls, args = jm.JSONRPCNotification, {"method": m, "params": copy.deepcopy(p)}
    elif kind == "result":
        if p is None:
            return None
        wire = {"jsonrpc": "2.0", "id": rid, "result": copy.deepcopy(p)}
        exp = {"id": rid, "result": p}
        cls, args = jm.JSONRPCResponse, {"id": rid, "result": copy.deepcopy(p)}
    else:
        err = {"code": -32000, "message": MSGS[2]}
        if p is not None:
            err["data"] = copy.deepcopy(p)
        wire = {"jsonrpc": "2.0", "id": rid, "error": err}
        exp = {"id": rid, "error": copy.deepcopy(err)}
        cls, args = jm.JSONRPCError, {"id": rid, "error": copy.deepcopy(err)}
    if kind in ("request", "notification") and p is not None:
        wire["params"] = copy.deepcopy(p)
    uargs = {k: v for k, v in wire.items() if k != "jsonrpc"}
    if way == "create":
        if kind == "request":
            return jm.create_request(m, copy.deepcopy(p), id=rid), exp
        if kind == "notification":
            return jm.create_notification(m, copy.deepcopy(p)), exp
        if kind == "result":
            return jm.create_response(rid, copy.deepcopy(p)), exp
        return jm.create_error_response(rid, -32000, MSGS[2], copy.deepcopy(p)), exp
    if way == "unified-classmethod":
        if kind == "request":
            return jm.JSONRPCMessage.create_request(m, copy.deepcopy(p), id=rid), exp
        if kind == "notification":
            return jm.JSONRPCMessage.create_notification(m, copy.deepcopy(p)), exp
        if kind == "result":
            return jm.JSONRPCMessage.create_response(rid, copy.deepcopy(p)), exp
        return jm.JSONRPCMessage.create_error_response(rid, -32000, MSGS[2], copy.deepcopy(p)), exp
    if way == "class+jsonrpc":
        return cls(jsonrpc="2.0", **args), exp
    if way == "class-default-jsonrpc":
        return cls(**args), exp
    if way == "unified+jsonrpc":
        return jm.JSONRPCMessage(jsonrpc="2.0", **copy.deepcopy(uargs)), exp
    if way == "unified-default-jsonrpc":
        return jm.JSONRPCMessage(**copy.deepcopy(uargs)), exp
    if way == "parse_message":
        return jm.parse_message(copy.deepcopy(wire)), exp
    if way == "model_validate":
        return cls.model_validate(copy.deepcopy(wire)), exp
    if way == "model_validate-without-jsonrpc":
        return cls.model_validate(copy.deepcopy(uargs)), exp
    return copy.deepcopy(wire), exp


def _run_posts(cfg) -> Dict[str, Any]:
    transport = POST_TRANSPORTS[cfg["transport"]]
    way = WAYS[cfg["way"]]
    rid = cfg["ids"][cfg["id"]]
    J = Judge(f"{transport}:{way}")
    msgs: List[tuple] = []
    for kind in POST_KINDS:
        for p in (_big_payloads() if cfg.get("big") else _post_payloads()):
            ctx = f"{transport} <- {kind} built by {way}, id={_show(rid)}, payload={_show(p)}"
            try:
                b = _built(way, kind, rid, p)
            except Exception as e:  # noqa: BLE001
                J.count("cases")
                J.bad("emitter-raised", f"building the message raised {type(e).__name__}: {str(e)[:100]}; {ctx}", exc=type(e).__name__)
                continue
            if b is not None:
                msgs.append((kind, b[0], b[1], ctx))
    loop = new_loop(horizon=900)
    q = seams.Quiescence(loop)
    wires: List[Any] = []
    info: Dict[str, Any] = {}

    async def drain_forever(read):
        try:
            while True:
                await read.receive()
        except BaseException:  # noqa: BLE001
            return

    async def send_all(write, count, read=None):
        import asyncio

        dt = asyncio.ensure_future(drain_forever(read)) if read is not None else None
        try:
            await _send_all(write, count)
        finally:
            if dt is not None:
                dt.cancel()
                try:
                    await dt
                except BaseException:  # noqa: BLE001
                    pass

    async def _send_all(write, count):
        for kind, obj, exp, ctx in msgs:
            n0 = count()
            await write.send(obj)
            await q.settle()
            wires.append((kind, exp, ctx, n0, count()))

    async def main():
        import httpx

        from ..seams_http import ScriptedStream, patched_httpx

        if transport == "stdio":
            from chuk_mcp.transports.stdio.stdio_client import StdioClient

            proc = seams.FakeProcess()
            with seams.patched_open_process(lambda cmd, kw: proc):
                async with StdioClient(seams.stdio_params()) as client:
                    _r, write = client.get_streams()
                    await send_all(write, lambda: len(proc.stdin.sends))
            info["bodies"] = [bytes(x) for x in proc.stdin.sends]
            return
        if transport == "streamable-http":
            from chuk_mcp.transports.http.http_client import http_client
            from chuk_mcp.transports.http.parameters import StreamableHTTPParameters

            def handler(rec):
                return httpx.Response(202, content=b"")

            with patched_httpx(handler) as px:
                async with http_client(StreamableHTTPParameters(url="http://mcp.test/mcp", timeout=5.0)) as (_r, write):
                    await send_all(write, lambda: len([r for r in px.requests if r.method == "POST"]), _r)
                info["bodies"] = [r.body for r in px.requests if r.method == "POST"]
            return
        from chuk_mcp.transports.sse.parameters import SSEParameters
        from chuk_mcp.transports.sse.sse_client import sse_client

        stream = ScriptedStream()
        stream.feed(b"event: endpoint\ndata: /messages/?session_id=abc\n\n")

        def handler(rec):
            if rec.method == "GET":
                return httpx.Response(200, headers={"content-type": "text/event-stream"}, stream=stream)
            body = rec.json()
            if isinstance(body, dict) and body.get("id") is not None:
                # anything that bears an id is answered at once, so that the transport moves on to the next message
                return httpx.Response(200, headers={"content-type": "application/json"},
                                      content=json.dumps({"jsonrpc": "2.0", "id": body["id"], "result": {}}).encode())
            return httpx.Response(202, content=b"")

        with patched_httpx(handler) as px:
            async with sse_client(SSEParameters(url="http://sse.test", timeout=2.0)) as (_r, write):
                await send_all(write, lambda: len([r for r in px.requests if r.method == "POST"]), _r)
            info["bodies"] = [r.body for r in px.requests if r.method == "POST"]

    with sched.patched_uuid():
        status, val = loop.run_main(main())
    loop.abandon()
    if status != "ok":
        raise core.HarnessError(f"{transport} harness did not finish: {status} {val!r}")
    bodies = info["bodies"]
    for kind, exp, ctx, n0, n1 in wires:
        J.count("cases")
        if transport == "stdio":
            # the child reads a byte stream: how many writes one line took is the transport's business
            raw = b"".join(bodies[n0:n1])
            if n1 == n0 or not raw.endswith(b"\n") or raw.count(b"\n") != 1:
                J.bad("stdio-framing", f"{n1 - n0} writes giving {raw[:60]!r}...{raw[-30:]!r}: not exactly one LF-terminated line; {ctx}")
                continue
        elif n1 - n0 != 1:
            J.bad("transport-write-count", f"{n1 - n0} POSTs for one message; {ctx}", writes=min(n1 - n0, 2))
            continue
        else:
            raw = bodies[n0]
        try:
            w = json.loads(raw.decode("utf-8"))
        except Exception as e:  # noqa: BLE001
            J.bad("body-not-json", f"bytes {raw[:100]!r}: {e!r}; {ctx}")
            continue
        J.count("emitted")
        J.wire(w, "wire-bytes", kind, exp, ctx)
    return {"outcome": f"posts:{transport}", "violations": J.viol, "counters": J.cnt, "emitter": J.emitter, "wire_digest": J.h.hexdigest()}

# ---------------------------------------------------------------------------
# (d''') the same object handed to the stdio write stream again after it was changed
# ---------------------------------------------------------------------------
def _resend_cases() -> List[Dict[str, Any]]:
    """Each case: how to build object A (and B), and the mutations applied between sends."""
    muts = {
        "request": [("id-value", "id", 8), ("id-type", "id", "7"), ("method", "method", "other/method"),
                    ("params-member", "params", {"a": 1, "b": None}), ("params-removed", "params", None)],
        "notification": [("method", "method", "other/method"), ("params-member", "params", {"a": 1, "b": None})],
        "result": [("id-value", "id", 8), ("id-type", "id", "7"), ("result", "result", {"changed": [None]})],
        "error": [("id-value", "id", 8), ("error", "error", {"code": -32001, "message": "changed"})],
    }
    out = []
    for carrier in ("typed", "unified", "dict"):
        for kind, ms in muts.items():
            for name, member, value in ms:
                for seq in ("A,A'", "A,B,A'", "A,A,A'"):
                    out.append({"carrier": carrier, "kind": kind, "mutation": name, "member": member, "value": value, "seq": seq})
    return out


def _resend_build(carrier: str, kind: str, rid: Any):
    from chuk_mcp.protocol.messages import json_rpc_message as jm

    p = {"a": 0, "n": None}
    if carrier == "dict":
        base = {"request": {"jsonrpc": "2.0", "id": rid, "method": "tools/call", "params": p},
                "notification": {"jsonrpc": "2.0", "method": "tools/call", "params": p},
                "result": {"jsonrpc": "2.0", "id": rid, "result": {"r": 0}},
                "error": {"jsonrpc": "2.0", "id": rid, "error": {"code": -32000, "message": "m"}}}[kind]
        return copy.deepcopy(base)
    J_ = jm.JSONRPCMessage if carrier == "unified" else jm
    if kind == "request":
        return J_.create_request("tools/call", copy.deepcopy(p), id=rid)
    if kind == "notification":
        return J_.create_notification("tools/call", copy.deepcopy(p))
    if kind == "result":
        return J_.create_response(rid, {"r": 0})
    return J_.create_error_response(rid, -32000, "m")


def _state_of(obj: Any) -> Dict[str, Any]:
    w = jnorm(obj if isinstance(obj, dict) else obj.model_dump(exclude_none=True))
    return {k: v for k, v in w.items() if v is not None or k == "result"}


def _run_resend(cfg) -> Dict[str, Any]:
    from chuk_mcp.transports.stdio.stdio_client import StdioClient

    J = Judge("stdio:same-object-sent-again")
    cases = _resend_cases()[cfg["lo"]:cfg["hi"]]
    loop = new_loop(horizon=60)
    q = seams.Quiescence(loop)
    proc = seams.FakeProcess()
    record: List[tuple] = []

    async def main():
        with seams.patched_open_process(lambda cmd, kw: proc):
            async with StdioClient(seams.stdio_params()) as client:
                _r, write = client.get_streams()
                for case in cases:
                    a = _resend_build(case["carrier"], case["kind"], 7)
                    b = _resend_build(case["carrier"], "notification" if case["kind"] != "notification" else "request", 99)
                    steps = []
                    for tok in case["seq"].split(","):
                        obj = b if tok == "B" else a
                        if tok == "A'":
                            try:
                                if isinstance(a, dict):
                                    if case["value"] is None:
                                        a.pop(case["member"], None)
                                    else:
                                        a[case["member"]] = copy.deepcopy(case["value"])
                                else:
                                    setattr(a, case["member"], copy.deepcopy(case["value"]))
                            except Exception as e:  # noqa: BLE001
                                steps.append(("mutation-refused", type(e).__name__, None, None))
                                break
                        want = _state_of(obj)
                        n0 = len(proc.stdin.sends)
                        await write.send(obj)
                        await q.settle()
                        steps.append((tok, want, n0, len(proc.stdin.sends)))
                    record.append((case, steps))

    status, val = loop.run_main(main())
    errors = loop.collect_errors()
    loop.abandon()
    if status != "ok":
        raise core.HarnessError(f"stdio harness did not finish: {status} {val!r}")
    lines = list(proc.stdin.sends)
    outs = set()
    for case, steps in record:
        J.count("cases")
        label = f"{case['carrier']} {case['kind']}, sequence {case['seq']}, A' = A with {case['mutation']} changed to {_show(case['value'])}"
        for tok, want, n0, n1 in steps:
            if tok == "mutation-refused":
                J.count("mutation-refused-by-the-model:" + str(want))
                outs.add("refused")
                continue
            ctx = f"send #{tok} of: {label}"
            if n1 - n0 != 1:
                J.bad("stdio-line-count", f"{n1 - n0} lines for one message; {ctx}", lines=min(n1 - n0, 2))
                continue
            try:
                w = json.loads(lines[n0].decode("utf-8"))
            except Exception as e:  # noqa: BLE001
                J.bad("stdio-not-json", f"{lines[n0][:100]!r}: {e!r}; {ctx}")
                continue
            J.count("emitted")
            exp = {k: want.get(k, _ABSENT) for k in ("id", "method", "params", "result", "error")}
            before = len(J.viol)
            J.wire(w, "stdin-bytes", None, exp, ctx)
            for v in J.viol[before:]:
                if v["sig"].get("class") == "payload-altered":
                    v["sig"] = {**v["sig"], "scenario": "object-changed-between-sends", "send": tok, "mutation": case["mutation"]}
            outs.add("sent")
    if errors:
        J.bad("loop-error", f"{errors[:2]}")
    tags = sorted({f"{c['carrier']}/{c['kind']}" for c in cases})
    return {"outcome": "resend:" + ",".join(tags) + ":" + "+".join(sorted(outs)), "violations": J.viol, "counters": J.cnt, "emitter": J.emitter,
            "wire_digest": J.h.hexdigest()}


# ---------------------------------------------------------------------------
# (a') payload-less success responses: every emission owns its (empty) result
# ---------------------------------------------------------------------------
EMPTY_EMITTERS = ["create_response(id)", "create_response(id, None)", "JSONRPCMessage.create_response(id)",
                  "JSONRPCMessage.create_response(id, None)", "JSONRPCMessage.create_response(id, {})",
                  "server:ping", "server:ping(other server object)", "server:notifications/initialized-with-id", "ProtocolHandler.create_response(id, {})"]


def _emit_empty(which: str, rid: Any, servers: Dict[str, Any]):
    from chuk_mcp.protocol.messages import json_rpc_message as jm

    if which == "create_response(id)":
        return jm.create_response(rid)
    if which == "create_response(id, None)":
        return jm.create_response(rid, None)
    if which == "JSONRPCMessage.create_response(id)":
        return jm.JSONRPCMessage.create_response(rid)
    if which == "JSONRPCMessage.create_response(id, None)":
        return jm.JSONRPCMessage.create_response(rid, None)
    if which == "JSONRPCMessage.create_response(id, {})":
        return jm.JSONRPCMessage.create_response(rid, {})
    if which == "ProtocolHandler.create_response(id, {})":
        return servers.setdefault("a", _make_server()).protocol_handler.create_response(rid, {})
    key = "b" if "other server" in which else "a"
    srv = servers.get(key) or servers.setdefault(key, _make_server())
    method = "ping" if "ping" in which else "notifications/initialized"
    msg = jm.parse_message({"jsonrpc": "2.0", "id": rid, "method": method})
    out, _sid = _run_coro(srv.protocol_handler.handle_message(msg))
    return out


def _run_empty(cfg) -> Dict[str, Any]:
    first, second = EMPTY_EMITTERS[cfg["first"]], EMPTY_EMITTERS[cfg["second"]]
    J = Judge("payload-less-response:" + second)
    servers: Dict[str, Any] = {}
    touched: List[tuple] = []
    key = f"annotated-by-holder-{cfg['first']}-{cfg['second']}"
    try:
        for rid in (0, "x"):
            J.count("cases")
            ctx = f"{first} emitted, its holder writes result[{key!r}] = {{'nested': [1]}}, then {second} emits (id {_show(rid)})"
            m1 = _emit_empty(first, rid, servers)
            r1 = getattr(m1, "result", None)
            J.emitted(m1, "result", {"id": rid, "result": {}}, "first emission of: " + ctx)
            if not isinstance(r1, dict):
                J.bad("wrong-kind", f"first emission carries result {r1!r}; {ctx}", got=type(r1).__name__)
                continue
            r1[key] = {"nested": [1]}
            touched.append((r1, key))
            m2 = _emit_empty(second, rid, servers)
            r2 = getattr(m2, "result", None)
            before = len(J.viol)
            J.emitted(m2, "result", {"id": rid, "result": {}}, "second emission of: " + ctx)
            for v in J.viol[before:]:
                v["sig"] = {**v["sig"], "scenario": "earlier-result-was-written-to", "first": first}
            if r2 is r1:
                J.bad("emissions-share-one-result-object", f"the two emitted results are the same object; {ctx}", first=first)
            r1.pop(key, None)
    finally:
        # undo this execution's writes, so that an object shared behind the scenes cannot leak into the next execution
        for r, k in touched:
            r.pop(k, None)
    return {"outcome": "empty:" + ("ok" if not J.viol else "polluted"), "violations": J.viol, "counters": J.cnt, "emitter": J.emitter,
            "wire_digest": J.h.hexdigest()}


def _run_stdio_own(cfg) -> Dict[str, Any]:
    from chuk_mcp.transports.stdio.stdio_client import StdioClient

    version = cfg["version"]
    shape = PEER_SHAPES[cfg["shape"]]
    J = Judge("stdio:batch-rejection-line")
    batches = []
    for n1, i1 in PEER_IDS:
        batches.append(([n1], [_peer_member(shape, i1)]))
        for n2, i2 in PEER_IDS:
            batches.append(([n1, n2], [_peer_member(shape, i1), _peer_member("request", i2)]))
        batches.append((["non-object", n1], [42, _peer_member(shape, i1)]))
    loop = new_loop(horizon=60)
    q = seams.Quiescence(loop)
    proc = seams.FakeProcess()
    seen: List[tuple] = []
    info: Dict[str, Any] = {}

    async def main():
        with seams.patched_open_process(lambda cmd, kw: proc) as pp:
            async with StdioClient(seams.stdio_params()) as client:
                client.set_protocol_version(version)
                await q.settle()
                for names, b in batches:
                    n0 = len(proc.stdin.sends)
                    proc.stdout.feed((json.dumps(b) + "\n").encode())
                    await q.settle()
                    seen.append((names, b, proc.stdin.sends[n0:]))
            info["spawned"] = len(pp.spawned)

    status, val = loop.run_main(main())
    errors = loop.collect_errors()
    loop.abandon()
    if status != "ok":
        raise core.HarnessError(f"stdio harness did not finish: {status} {val!r}")
    if info.get("spawned") != 1:
        raise core.HarnessError("seam missing: StdioClient did not call anyio.open_process")
    for names, b, lines in seen:
        J.count("cases")
        ctx = f"version {version}: peer sent the batch {json.dumps(b)[:200]} (member ids: {names})"
        if not lines:
            J.count("no-line-written(C13's subject)")
            continue
        for raw in lines:
            if not raw.endswith(b"\n") or raw.count(b"\n") != 1:
                J.bad("stdio-framing", f"bytes {raw[:120]!r} are not one LF-terminated line; {ctx}")
                continue
            try:
                w = json.loads(raw.decode("utf-8"))
            except Exception as e:  # noqa: BLE001
                J.bad("stdio-not-json", f"bytes {raw[:120]!r}: {e!r}; {ctx}")
                continue
            J.count("emitted")
            J.wire(w, "stdin-bytes", "error", {}, ctx, allow_null_id_error=True)
    if errors:
        J.bad("loop-error", f"{errors[:2]}")
    return {"outcome": "stdio-own:" + shape, "violations": J.viol, "counters": J.cnt, "emitter": J.emitter, "wire_digest": J.h.hexdigest()}


# ---------------------------------------------------------------------------
# (f) converters between the unified and the specific message classes, and the wrapper view
# ---------------------------------------------------------------------------
CONVERT_SOURCES = ["request", "notification", "result", "error"]


def convert_values(depth: int) -> list:
    """result / error.data payloads of the converter part: every value of depth <= 1 plus every object of the given depth."""
    key = ("convert-values", depth)
    if key not in _TABLES:
        _TABLES[key] = list(table("values", 1)) + table("objects", depth)
    return _TABLES[key]


def _run_convert(cfg) -> Dict[str, Any]:
    from chuk_mcp.protocol.messages import json_rpc_message as jm

    kind = CONVERT_SOURCES[cfg["kind"]]
    rid = cfg["ids"][cfg["id"]]
    method = METHODS[cfg["method"]]
    J = Judge("convert:" + kind)
    if kind in ("request", "notification"):
        payloads = [None] + table("objects", cfg["depth"])
    else:
        payloads = convert_values(cfg["depth"])
    outs = set()
    for p in payloads[cfg["lo"]:cfg["hi"]]:
        J.count("cases")
        if kind == "request":
            exp = {"id": rid, "method": method, "params": _ABSENT if p is None else p}
            typed = jm.create_request(method, copy.deepcopy(p), id=rid)
            unified = jm.JSONRPCMessage.create_request(method, copy.deepcopy(p), id=rid)
        elif kind == "notification":
            exp = {"method": method, "params": _ABSENT if p is None else p}
            typed = jm.create_notification(method, copy.deepcopy(p))
            unified = jm.JSONRPCMessage.create_notification(method, copy.deepcopy(p))
        elif kind == "result":
            if p is None:
                continue
            exp = {"id": rid, "result": p}
            typed = jm.create_response(rid, copy.deepcopy(p))
            unified = jm.JSONRPCMessage.create_response(rid, copy.deepcopy(p)) if isinstance(p, dict) else None
        else:
            err = {"code": -32000, "message": MSGS[2]} if p is None else {"code": -32000, "message": MSGS[2], "data": p}
            exp = {"id": rid, "error": err}
            typed = jm.create_error_response(rid, -32000, MSGS[2], copy.deepcopy(p))
            unified = jm.JSONRPCMessage.create_error_response(rid, -32000, MSGS[2], copy.deepcopy(p))
        ctx = f"{kind} id={_show(rid)} method={_show(method)} payload={_show(p)}"
        # specific -> unified
        try:
            u2 = jm.JSONRPCMessage.from_specific_type(typed)
        except Exception as e:  # noqa: BLE001
            if kind == "result" and not isinstance(p, dict):
                # the unified class documents result: Optional[Dict]; it cannot hold another JSON type and says so
                J.count("from_specific_type-refuses-non-object-result(recorded: unified result is typed Optional[Dict])")
                outs.add("refused")
            else:
                J.bad("converter-raised", f"from_specific_type raised {type(e).__name__}: {str(e)[:100]}; {ctx}", converter="from_specific_type")
        else:
            J.emitted(u2, kind, exp, "JSONRPCMessage.from_specific_type(" + ctx + ")")
            outs.add("converted")
        # unified -> specific
        if unified is not None:
            try:
                t2 = unified.to_specific_type()
            except Exception as e:  # noqa: BLE001
                J.bad("converter-raised", f"to_specific_type raised {type(e).__name__}: {str(e)[:100]}; {ctx}", converter="to_specific_type")
            else:
                J.emitted(t2, kind, exp, "to_specific_type(" + ctx + ")")
                want_cls = {"request": "JSONRPCRequest", "notification": "JSONRPCNotification", "result": "JSONRPCResponse",
                            "error": "JSONRPCError"}[kind]
                if type(t2).__name__ != want_cls:
                    J.bad("wrong-kind", f"to_specific_type returned {type(t2).__name__} for a {kind}; {ctx}", got=type(t2).__name__)
        # the wrapper view over both carriers
        for carrier, m in (("typed", typed), ("unified", unified)):
            if m is None:
                continue
            try:
                wv = jm.JSONRPCMessageWrapper(m)
                forms = {"wrapper.model_dump(exclude_none=True)": jnorm(wv.model_dump(exclude_none=True)),
                         "wrapper.model_dump_json(exclude_none=True)": json.loads(wv.model_dump_json(exclude_none=True)),
                         "wrapper.model_dump_json()": json.loads(wv.model_dump_json())}
                view = {k: getattr(wv, k) for k in ("id", "method", "params", "result", "error")}
            except Exception as e:  # noqa: BLE001
                J.bad("converter-raised", f"JSONRPCMessageWrapper over the {carrier} message raised {type(e).__name__}: {str(e)[:100]}; {ctx}",
                      converter="wrapper")
                continue
            for form, w in forms.items():
                J.wire(w, form, kind, exp, f"wrapper over the {carrier} message; {ctx}")
            for k, want in exp.items():
                got = view.get(k)
                got = _ABSENT if got is None and k != "result" else got
                try:
                    got_n = got if got is _ABSENT else jnorm(got)
                except Exception:  # noqa: BLE001
                    got_n = repr(got)
                if (want is _ABSENT) != (got_n is _ABSENT) or (want is not _ABSENT and not strict_eq(got_n, want)):
                    J.bad("payload-altered", f"wrapper.{k} is {_show(got_n)}, the message holds {_show(want)}; {carrier}; {ctx}",
                          form="wrapper-property", member=k, how=_diff_class(got_n, want))
    return {"outcome": "convert:" + "+".join(sorted(outs)), "violations": J.viol, "counters": J.cnt, "emitter": J.emitter,
            "wire_digest": J.h.hexdigest()}


def _run_rejection(cfg) -> Dict[str, Any]:
    from chuk_mcp.protocol.features.batching import BatchProcessor

    J = Judge("BatchProcessor.create_batch_rejection_error")
    for v in ["2025-06-18", "2025-06-19", "2099-01-01", None, "2024-11-05"]:
        bp = BatchProcessor(v)
        for rid in [None] + IDS:
            J.count("cases")
            try:
                d = bp.create_batch_rejection_error() if rid is None else bp.create_batch_rejection_error(rid)
            except Exception as e:  # noqa: BLE001
                J.bad("emitter-raised", f"create_batch_rejection_error({rid!r}) raised {e!r}")
                continue
            exp = {} if rid is None else {"id": rid}
            k = J.emitted(d, "error", exp, f"version={v!r} message_id={_show(rid)}", allow_null_id_error=(rid is None))
            if k == "error" and d["error"].get("code") != -32600:
                J.bad("rejection-code", f"code {d['error'].get('code')} is not -32600")
    return {"outcome": "rejection", "violations": J.viol, "counters": J.cnt, "emitter": J.emitter, "wire_digest": J.h.hexdigest()}


def run_one(ctl: explorer.Ctl, cfg: Dict[str, Any]) -> Dict[str, Any]:
    # every part runs under the deterministic uuid stub: an id the library generates on its own
    # (also where it should not) is then reproducible, so the observation and any violation replay exactly
    with sched.patched_uuid():
        return _run_part(cfg)


def _run_part(cfg: Dict[str, Any]) -> Dict[str, Any]:
    part = cfg["part"]
    if part == "ctor":
        return _run_ctor(cfg)
    if part == "helper":
        return _run_helper(cfg)
    if part == "server":
        return _run_server(cfg)
    if part == "stdio":
        return _run_stdio(cfg)
    if part == "rejection":
        return _run_rejection(cfg)
    if part == "raw":
        return _run_raw(cfg)
    if part == "resend":
        return _run_resend(cfg)
    if part == "empty":
        return _run_empty(cfg)
    if part == "progress":
        return _run_progress(cfg)
    if part == "posts":
        return _run_posts(cfg)
    if part == "stdio-own":
        return _run_stdio_own(cfg)
    if part == "convert":
        return _run_convert(cfg)
    raise core.HarnessError(f"unknown part {part}")


# ---------------------------------------------------------------------------
def _pick(part, cfgs):
    out = []
    for i in sorted({0, len(cfgs) // 2, len(cfgs) - 1}):
        c = dict(cfgs[i])
        if "ids" in c:
            ids = c.pop("ids")
            c["id"] = None if c.get("id") is None else _show(ids[c["id"]])[:40]
        if "ctor" in c:
            c["ctor"] = _ctor_label(c["ctor"])
        if c.get("method") is not None and c["part"] in ("ctor", "stdio"):
            c["method"] = METHODS[c["method"]]
        if c["part"] == "server":
            c["case"] = list(SERVER_CASES[c["case"]])
        if c["part"] == "stdio":
            c["kind"] = STDIO_KINDS[c["kind"]]
        if c["part"] == "helper":
            c["helper"] = hd.short(c["helper"])
            c["text"] = TEXTS[c["text"]]
        c["payloads"] = f"payload table entries [{c.pop('lo', 0)}, {c.pop('hi', 0)}) at depth {c.get('depth')}"
        out.append({"part": part, "index": i, "case": c})
    return out


def _ranges(n: int, step: int) -> List[Tuple[int, int]]:
    return [(a, min(n, a + step)) for a in range(0, n, step)]


def run(tier: str, only=None) -> core.Result:
    res = core.Result("C02", "exploration")
    depth = 2 if tier == "quick" else 3
    n_obj = len(table("objects", depth)) + 1
    n_val = len(table("values", depth))
    BLOCK = 100 if tier == "quick" else 400

    # ---- discovery -------------------------------------------------------------------------
    ctors = discover_constructors()
    for c in ctors:
        if c["name"] not in KIND_OF_NAME:
            res.harness_errors.append(f"new constructor {_ctor_label(c)}: the check does not know which kind of message it builds")
        unknown = [p for p in c["params"] if p not in KNOWN_CTOR_PARAMS]
        if unknown:
            res.harness_errors.append(f"constructor {_ctor_label(c)} has parameters {unknown} the driver cannot fill")
    if not ctors:
        res.harness_errors.append("no create_* constructor found in json_rpc_message.py")
    disc = hd.discover()
    for e in disc["import_errors"]:
        res.harness_errors.append(f"module could not be imported while discovering emitters: {e}")
    profiles = [(False, 0), (True, 0), (True, 1)]
    helper_cfg = []
    for h in disc["helpers"]:
        if h["kind"] == "unknown":
            res.harness_errors.append(f"discovered coroutine {h['name']}({', '.join(h['params'])}) takes no write_stream: cannot be driven")
            continue
        f = hd.resolve(h["name"])
        for rich, arm in profiles:
            prof = hd.Profile(rich=rich, arm=arm, payload={"k": 1})
            try:
                hd.build_kwargs(f, prof)
            except hd.Uncallable as e:
                res.harness_errors.append(f"discovered helper {h['name']} cannot be called with type-directed arguments: {e}")
                break
            takes_payload = bool(prof.payload_params)
            for ti in range(len(TEXTS)):
                if takes_payload:
                    if ti != 0 and not (rich is False and arm == 0):
                        continue
                    rng = _ranges(n_obj - 1, BLOCK) if ti == 0 else [(0, 40)]
                    for lo, hi in rng:
                        helper_cfg.append({"part": "helper", "helper": h["name"], "kind": h["kind"], "rich": rich, "arm": arm,
                                           "text": ti, "payload": True, "lo": lo, "hi": hi, "depth": depth})
                else:
                    helper_cfg.append({"part": "helper", "helper": h["name"], "kind": h["kind"], "rich": rich, "arm": arm,
                                       "text": ti, "payload": False, "lo": 0, "hi": 0, "depth": depth})
    raw = discover_raw_dict_emitters()
    for r in raw:
        if r not in RAW_DRIVEN and r not in RAW_UNDRIVEN:
            res.harness_errors.append(f"new raw-dict emitter {r} (builds a {{'jsonrpc': ...}} literal): neither driven by this check nor listed "
                                      f"as undriven with a reason")
    known_methods = {"chuk_mcp.transports.stdio.stdio_client:StdioClient.send_json"}
    for m in disc["methods"]:
        if m not in known_methods:
            res.harness_errors.append(f"new send_* method {m}: not covered by the transport part of this check")
    if res.harness_errors:
        res.coverage.update({"evaluations": 0, "distinct_nontrivial": 0, "rule": "discovery failed", "samples": []})
        return res

    # ---- (a) constructors ------------------------------------------------------------------
    ids_big = IDS if tier == "quick" else IDS_TWO  # thorough: depth-3 payloads x 2 ids, and depth-2 payloads x all ids below
    cfgs = []

    def ctor_cfgs(c, d, ids, idxs_extra=True):
        f = _ctor(c)
        ps = c["params"]
        vary = "params" if "params" in ps else "result" if "result" in ps else "data"
        n = (len(table("objects", d)) + 1) if (vary == "params" or (vary == "result" and _result_is_object_only(f))) \
            else len(table("values", d))
        id_list = list(range(len(ids))) if "id" in ps else [None]
        if tier == "quick" and n > 1000 and len(ids) == len(IDS):
            # the large value tables (result / error.data) with 9 of the 17 ids in quick: 0, -1, 2^63, 2^64-1, "", "0", "007", 200 chars, non-ASCII
            id_list = [0, 2, 5, 6, 7, 8, 12, 15, 16]
        if "id" in ps and inspect.signature(f).parameters["id"].default is None:
            id_list = id_list + [None]
        out = []
        for i in id_list:
            meths = range(len(METHODS)) if "method" in ps else [None]
            for mi in meths:
                if "code" in ps:
                    combos = [(ci, si) for ci in range(len(CODES)) for si in range(len(MSGS))]
                else:
                    combos = [(None, None)]
                for ci, si in combos:
                    # the full payload table for the first (code, message); a depth-1 table for the others
                    dd = d if (ci, si) in ((None, None), (0, 2)) else 1
                    if dd == 1 and dd != d and i is not None and i >= 5 and tier == "quick":
                        continue  # the other (code, message) pairs with the first five ids only
                    nn = n if dd == d else len(table("values", 1))
                    for lo, hi in _ranges(nn, BLOCK):
                        out.append({"part": "ctor", "ctor": c, "ids": ids, "id": i, "method": mi, "code": ci, "msg": si,
                                    "depth": dd, "lo": lo, "hi": hi})
            if "progress_token" in ps and i is not None:
                for ti in range(len(TOKENS)):
                    out.append({"part": "ctor", "ctor": c, "ids": ids, "id": i, "method": 0, "code": None, "msg": None,
                                "token": ti, "depth": 1, "lo": 0, "hi": len(table("objects", 1)) + 1})
        return out

    for c in ctors:
        cfgs += ctor_cfgs(c, depth, ids_big)
        if tier == "thorough":
            cfgs += ctor_cfgs(c, 2, IDS)
    out = explorer.explore(RUN, cfgs)
    sched.absorb(res, "a-constructors", RUN, out, cfgs)
    sched.debug_pass(res, "a-constructors", RUN, cfgs, every=(61 if tier == "quick" else 301))
    samples = _pick("a-constructors", cfgs)

    # ---- (b) helpers -----------------------------------------------------------------------
    out = explorer.explore(RUN, helper_cfg)
    sched.absorb(res, "b-send-helpers", RUN, out, helper_cfg)
    sched.debug_pass(res, "b-send-helpers", RUN, helper_cfg, every=(15 if tier == "quick" else 11))
    samples += _pick("b-send-helpers", helper_cfg)

    # ---- (b') progress-token emitters ----------------------------------------------------------
    pem = discover_progress_emitters(disc)
    nmeta = len(_meta_params())
    cfgs = [{"part": "progress", "emitter": e, "lo": lo, "hi": min(nmeta, lo + 12)} for e in pem for lo in range(0, nmeta, 12)]
    if cfgs:
        out = explorer.explore(RUN, cfgs)
        sched.absorb(res, "b-progress-token-emitters", RUN, out, cfgs)
        sched.debug_pass(res, "b-progress-token-emitters", RUN, cfgs, every=3)

    # ---- (c) server ------------------------------------------------------------------------
    ids_srv = (IDS_FEW + [-1, "0", 2 ** 53 + 1]) if tier == "quick" else IDS_FEW
    cfgs = [{"part": "server", "case": ci, "ids": ids_srv, "id": ii, "depth": depth, "lo": lo, "hi": hi}
            for ci in range(len(SERVER_CASES)) for ii in range(len(ids_srv)) for lo, hi in _ranges(n_obj, BLOCK)]
    if tier == "thorough":
        cfgs += [{"part": "server", "case": ci, "ids": IDS, "id": ii, "depth": 2, "lo": 0, "hi": len(table("objects", 2)) + 1}
                 for ci in range(len(SERVER_CASES)) for ii in range(len(IDS))]
    out = explorer.explore(RUN, cfgs)
    sched.absorb(res, "c-server-handler", RUN, out, cfgs)
    sched.debug_pass(res, "c-server-handler", RUN, cfgs, every=(29 if tier == "quick" else 59))
    samples += _pick("c-server-handler", cfgs)

    # ---- (d) transports ----------------------------------------------------------------------
    cfgs = []
    for ki, kn in enumerate(STDIO_KINDS):
        n = n_obj if kn.split("-")[0] in ("request", "notification") else len(stdio_values(depth))
        for ii in range(len(ids_srv)):
            for mi in (range(len(METHODS)) if kn.split("-")[0] in ("request", "notification") else [0]):
                for lo, hi in _ranges(n, BLOCK):
                    if mi != 0 and lo != 0:
                        continue  # the other methods with the first block of payloads only
                    cfgs.append({"part": "stdio", "kind": ki, "ids": ids_srv, "id": ii, "method": mi, "depth": depth,
                                 "lo": lo, "hi": hi})
    out = explorer.explore(RUN, cfgs)
    sched.absorb(res, "d-stdio-serialiser", RUN, out, cfgs)
    sched.debug_pass(res, "d-stdio-serialiser", RUN, cfgs, every=(53 if tier == "quick" else 41))
    samples += _pick("d-stdio-serialiser", cfgs)
    cfgs = [{"part": "rejection"}]
    out = explorer.explore(RUN, cfgs)
    sched.absorb(res, "d-batch-rejection-error", RUN, out, cfgs, min_outcomes=1)

    pids = [0, 2 ** 64 - 1, "", "007", "é"]
    cfgs = [{"part": "posts", "transport": ti, "way": wi, "ids": pids, "id": ii}
            for ti in range(len(POST_TRANSPORTS)) for wi in range(len(WAYS)) for ii in range(len(pids))]
    cfgs += [{"part": "posts", "transport": ti, "way": wi, "ids": pids, "id": 1, "big": True}
             for ti in range(len(POST_TRANSPORTS)) for wi in (3, 9)]
    out = explorer.explore(RUN, cfgs)
    sched.absorb(res, "d-transport-wire-forms", RUN, out, cfgs)
    samples += [{"part": "d-transport-wire-forms", "index": i, "case": {"transport": POST_TRANSPORTS[cfgs[i]["transport"]], "way": WAYS[cfgs[i]["way"]],
                 "id": _show(pids[cfgs[i]["id"]])}} for i in (0, len(cfgs) // 2, len(cfgs) - 1)]
    sched.debug_pass(res, "d-transport-wire-forms", RUN, cfgs, every=7)
    nres = len(_resend_cases())
    cfgs = [{"part": "resend", "lo": lo, "hi": min(nres, lo + 9)} for lo in range(0, nres, 9)]
    out = explorer.explore(RUN, cfgs)
    sched.absorb(res, "d-stdio-same-object-sent-again", RUN, out, cfgs)
    samples += [{"part": "d-stdio-same-object-sent-again", "index": i, "case": _resend_cases()[i]} for i in (0, nres // 2, nres - 1)]
    sched.debug_pass(res, "d-stdio-same-object-sent-again", RUN, cfgs, every=3)
    cfgs = [{"part": "empty", "first": a, "second": b} for a in range(len(EMPTY_EMITTERS)) for b in range(len(EMPTY_EMITTERS))]
    out = explorer.explore(RUN, cfgs)
    sched.absorb(res, "a-payload-less-responses-own-their-result", RUN, out, cfgs, min_outcomes=1)
    samples += [{"part": "a-payload-less-responses-own-their-result", "index": i,
                 "case": {"first": EMPTY_EMITTERS[cfgs[i]["first"]], "second": EMPTY_EMITTERS[cfgs[i]["second"]]}} for i in (0, len(cfgs) // 2, len(cfgs) - 1)]
    sched.debug_pass(res, "a-payload-less-responses-own-their-result", RUN, cfgs, every=5)
    cfgs = [{"part": "stdio-own", "version": v, "shape": si} for v in ("2025-06-18", "2025-06-19", "2030-01-01")
            for si in range(len(PEER_SHAPES))]
    out = explorer.explore(RUN, cfgs)
    sched.absorb(res, "d-stdio-own-lines", RUN, out, cfgs)
    samples += _pick("d-stdio-own-lines", cfgs)
    sched.debug_pass(res, "d-stdio-own-lines", RUN, cfgs, every=4)

    # ---- (f) converters and the wrapper view -----------------------------------------------------
    cfgs = []
    for ki, kn in enumerate(CONVERT_SOURCES):
        n = n_obj if kn in ("request", "notification") else len(convert_values(min(depth, 2)))
        for ii in range(len(IDS_FEW)):
            for mi in (range(len(METHODS)) if kn in ("request", "notification") else [0]):
                for lo, hi in _ranges(n, BLOCK):
                    if mi != 0 and lo != 0:
                        continue
                    if kn == "notification" and ii != 0:
                        continue
                    cfgs.append({"part": "convert", "kind": ki, "ids": IDS_FEW, "id": ii, "method": mi, "depth": min(depth, 2), "lo": lo, "hi": hi})
    out = explorer.explore(RUN, cfgs)
    sched.absorb(res, "f-converters-and-wrapper", RUN, out, cfgs)
    samples += _pick("f-converters-and-wrapper", cfgs)
    sched.debug_pass(res, "f-converters-and-wrapper", RUN, cfgs, every=37)

    # ---- (e) raw-dict emitters -----------------------------------------------------------------
    cfgs = []
    if "protocol/features/batching.py:BatchProcessor.process_message_data" in raw:
        cfgs += [{"part": "raw", "which": "process_message_data", "version": v, "ids": IDS, "id": ii}
                 for v in (None, "2024-11-05", "2025-06-17", "2025-06-18") for ii in range(0, len(IDS), 2)]
    if "protocol/types/elicitation.py:ElicitationClient.handle_elicitation_request" in raw:
        cfgs += [{"part": "raw", "which": "elicitation-client", "ids": ids_srv, "id": ii, "depth": depth, "lo": lo, "hi": hi}
                 for ii in range(len(ids_srv)) for lo, hi in _ranges(n_obj - 1, BLOCK)]
    if "protocol/types/elicitation.py:ElicitationHandler.request_user_input" in raw:
        cfgs += [{"part": "raw", "which": "elicitation-handler", "text": ti, "depth": depth, "lo": lo, "hi": hi}
                 for ti in range(len(TEXTS)) for lo, hi in _ranges(n_obj - 1, BLOCK)]
    if cfgs:
        out = explorer.explore(RUN, cfgs)
        sched.absorb(res, "e-raw-dict-emitters", RUN, out, cfgs)
        sched.debug_pass(res, "e-raw-dict-emitters", RUN, cfgs, every=(19 if tier == "quick" else 23))
        samples += _pick("e-raw-dict-emitters", cfgs)

    # ---- measured counts -----------------------------------------------------------------
    cnt: Dict[str, int] = {}
    dbg_exec = 0
    for pname, p in res.parts.items():
        if pname.endswith("+debug-logging"):
            dbg_exec += p["executions"]  # re-runs of cases already counted: kept out of the headline numbers
            continue
        for k, v in p["counters"].items():
            cnt[k] = cnt.get(k, 0) + v
    cov = res.coverage
    cov["debug_logging_reruns"] = dbg_exec
    cov["samples"] = samples  # chosen by position in the enumeration, so identical from run to run
    cov["evaluations"] = cnt.get("cases", 0) + cnt.get("calls", 0)
    cov["messages_emitted_and_judged"] = cnt.get("emitted", 0)
    cov["serialised_forms_judged"] = cnt.get("forms_judged", 0)
    cov["by_kind"] = {k[5:]: v for k, v in cnt.items() if k.startswith("kind:")}
    cov["recorded_not_judged"] = {k: v for k, v in cnt.items()
                                  if "recorded" in k or k.startswith(("input-rejected", "handler-raised", "nothing-written",
                                                                        "request-not-parseable", "no-response", "error-with-null-id"))}
    cov["raw_dict_emitters_discovered"] = {r: ("driven: " + RAW_DRIVEN[r]) if r in RAW_DRIVEN else ("undriven: " + RAW_UNDRIVEN.get(r, "?"))
                                           for r in raw}
    cov["progress_token_emitters_discovered"] = [hd.short(e["name"]) if e["what"] == "helper" else _ctor_label(e["ctor"]) for e in pem]
    cov["handle_request_methods_discovered"] = discover_handle_methods()
    cov["constructors_discovered"] = [_ctor_label(c) for c in ctors]
    cov["send_helpers_discovered"] = [h["name"] for h in disc["helpers"]]
    cov["send_methods_covered_by_transport_part"] = disc["methods"]
    cov["payload_depth"] = depth
    cov["payload_objects"] = n_obj - 1
    cov["payload_values"] = n_val
    cov["ids"] = [_show(i)[:24] for i in IDS]
    cov["exhaustive"] = True
    cov["rule"] = (
        f"payloads = vf.gen.json_values(depth<={depth}) ({n_val} values, {n_obj - 1} objects; boundary scalars incl. 2^53+1, 2^63, 2^64-1, -0.0, "
        "1e308, 5e-324, NUL, U+0085, U+2028/9, U+FFFF, U+1F600; containers with <=2 children, empty and non-ASCII keys); ids = vf.gen.IDS (17); "
        "methods = {tools/call, empty, Unicode}. (a) every discovered constructor x id x method x every object as params / every value as "
        "result / every value as error.data (quick: these two value tables with 9 of the 17 ids) (x 5 codes x 3 messages at depth 1; progress tokens at depth 1); (b) every discovered send_* helper x "
        "argument profiles {required only, all optionals, second Union arm} x 3 texts for str parameters x every object for Dict[str, Any] "
        "parameters; (c) MCPServer handler: 14 method cases x id x every object as params/arguments; the server, stdio and elicitation parts use the 8 ids "
        "{0, 2^64-1, empty, 007, non-ASCII, -1, '0', 2^53+1} in quick; (d) stdio: 9 message kinds (typed, unified, "
        "dict) x id x payload through the real StdioClient to the scripted child's stdin; create_batch_rejection_error x 5 versions x 18 ids. "
        "every emitter that adds a progress token (helpers taking progress_callback, constructors taking progress_token - discovered by signature) x params that "
        "already carry _meta {empty, other members, a stale token, nested nulls, every depth-1 object}: the emitted params must equal the given ones plus exactly the "
        "token. What the three transports put on the wire (stdio stdin bytes, Streamable-HTTP POST body, legacy SSE POST body via the scripted httpx seam) for "
        "messages built 10 ways (create_*, unified classmethods, classes with and WITHOUT jsonrpc=, unified class with and without, parse_message, model_validate "
        "with and without the member, plain dict) x 4 kinds x 5 ids x 32 payloads, and 2 ways (class without jsonrpc=, dict) x 5 LARGE payloads (65,000 bytes ... 1.1 MB, around and beyond a 64 KiB pipe buffer): the bytes must be a valid envelope (jsonrpc exactly '2.0') with the given members. "
        "the same object handed to the stdio write stream again after a change (typed / unified / dict x 4 kinds x id value, id JSON type, method, params member, "
        "params removed, result, error x sequences A,A' / A,B,A' / A,A,A'): every line must equal the object as it is when handed over. Payload-less success "
        "responses from 9 emitters (create_response with and without None, the unified classmethod three ways, server ping on two server objects, "
        "initialized-with-id, ProtocolHandler.create_response) in every ordered pair: the holder of the first writes into its result, the second emission must be {} "
        "again and must not be the same object. "
        "the lines the stdio client writes on its own: at 3 versions without batching, every batch of 1-2 members (request / response / error / bare object, "
        "a non-object in front) whose ids range over every JSON type (1.5, -0.5, true, false, null, [], [7], {}, {id:1}, strings, 0, 7, 2^64, absent) - every line "
        "written to the child must pass the envelope reference and the library's own parser. (f) JSONRPCMessage.to_specific_type / from_specific_type and "
        "JSONRPCMessageWrapper (model_dump(exclude_none=True), model_dump_json(exclude_none=True), the default model_dump_json() and the id/method/params/result/error properties) over both carriers x 5 ids (0, 2^64-1, empty string, digit string, non-ASCII) x method x every "
        "object as params / every depth-1 value and every depth-2 object as result / error.data. "
        "(e) every function with a {'jsonrpc': ...} dict literal (AST walk) is driven or listed with a reason: BatchProcessor.process_message_data x 4 versions x 17 ids x "
        "every batch of 1..2 members over {request, notification, non-object} x handler behaviour {answers, silent, raises one of 13 exceptions incl. "
        "`code` attributes str / callable / None / float / bool / 2^64}; ElicitationClient.handle_elicitation_request x id x every object AND every non-object JSON value (null, numbers, booleans, strings, "
        "lists) as user data and the exception family; ElicitationHandler.request_user_input x every object as schema x 3 texts x title present/absent. "
        + "stdio: the second and third method only with the first block of payloads. "
        + ("" if tier == "quick" else "thorough: constructors with depth-3 payloads x ids {2^64-1, empty string} plus depth-2 payloads x all 17 ids; "
           "server and stdio with 5 ids; stdio result/error payloads = every value of depth<=2 plus every depth-3 object. ")
        + "every emitted message is judged in each serialised form (model_dump(exclude_none=True), model_dump_json(), model_dump_json(exclude_none=True) "
        "or the stdin bytes). distinct_nontrivial = distinct observation digests of the blocks (one block = one emitter x id x method x <=100/400 payloads)"
    )
    res.assumptions = [
        "default (Pydantic) backend only; backend agreement is C09's subject",
        "a top-level null and an absent member are the same for params/id/error (JSON-RPC: params MAY be omitted); nulls nested inside are compared strictly",
        "top-level result None passed to create_response / JSONRPCMessage.create_response is substituted by {} (documented): recorded, not judged",
        "create_error_response(data=None) may omit 'data' or emit null",
        "BatchProcessor.create_batch_rejection_error() without an id emits id null - allowed for Invalid Request by JSON-RPC 2.0 section 5.1; with an id it is judged like any error",
        "every constructor input of the grid is type-correct for its signature (the unified classmethod gets objects only as result), so a constructor that raises is reported (emitter-raised)",
        "helpers: the emitted request must contain every non-empty object passed for a Dict[str, Any] parameter unchanged; how other arguments map to params is not judged",
        "server: handle_message raising for id-less input is C08's subject (nothing is emitted); id echo is C08's subject",
        "process_message_data: an error emitted for a member without an id (a failing notification or a non-object) carries id null - accepted per JSON-RPC 5.1 and recorded; "
        "whether such a member should be answered at all is not C02's subject. The batch array as a whole is not fed to parse_message (it classifies only single messages reliably); every member is",
        "raw-dict emitters of the HTTP/SSE transports are listed as undriven here with the property that drives them (C11/C12)",
        "HTTP and SSE request bodies (model_dump(exclude_none=True) + httpx json=) are the first serialised form judged in (a)/(b); the POST itself is exercised by C11/C12",
        "from_specific_type on a response whose result is not an object raises (the unified class types result as Optional[Dict]): recorded as refused, not judged; "
        "when it converts, the conversion must be faithful",
        "JSONRPCMessageWrapper: its JSON forms (model_dump_json() with and without arguments) are emissions and are judged; the dict form model_dump() "
        "without exclude_none is a Python-side view, not an emission",
        "a slice of every part is re-run with the library's logging enabled at DEBUG (parts named +debug-logging; not counted in the headline numbers)",
        "seeded deep JSON of the quantifier is replaced by the bounded-exhaustive depth-" + str(depth) + " enumeration",
    ]
    return res
