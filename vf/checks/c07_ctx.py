"""C07, context-manager part: a classified error raised inside ``async with stdio_client(...)`` (and the
initializing variant) must also LEAVE the with-block as that classified error - whatever words the server put
into its message (the wrappers treat some texts specially when they look at exceptions passing through)."""
from __future__ import annotations

import json
from typing import Any, Dict, List

from .. import core, explorer, sched, seams
from ..vloop import new_loop

RUN = "vf.checks.c07_ctx:run_one"
TEXTS = ["plain failure", "cancel scope", "Attempted to exit cancel scope in a different task", "CANCEL SCOPE exceeded",
         "the JSON object must be str, bytes or bytearray, not dict", "json object must be str", "Event loop is closed",
         "", "cancel  scope", "scope cancel"]
CODES = [-32601, -32603, -32000, 0]
ENTRIES = ["stdio_client", "stdio_client_with_initialize", "StdioClient", "StdioTransport"]
HTTP_ENTRIES = ["sse_client", "SSETransport", "http_client", "StreamableHTTPTransport"]
# server texts that look like a transport-level diagnosis (status codes, 'not found', migration hints)
HTTP_TEXTS = ["plain failure", "Method not found", "Resource not found: file:///x", "upstream said 404", "405 Method Not Allowed",
              "method not allowed", "cancel scope", "connection refused", "timed out", "SSE endpoint not found", ""]
HTTP_CODES = [-32601, -32603, -32002, -32000, 1404, -32405, 0]
# members a server may put into the error object besides code and message (Node servers add stack / name, others details ...)
EXTRAS = {"none": {}, "data": {"data": {"k": [1, None]}}, "data-null": {"data": None}, "stack": {"stack": "Error: boom\n    at f (x.js:1)"},
          "name+details": {"name": "McpError", "details": {"retriable": False}, "data": "d"}, "text": {"text": "shadow"},
          "many": {"stack": "s", "cause": {"code": 1}, "retriable": True, "errno": -2, "_meta": {}}}


def run_one(ctl: explorer.Ctl, cfg: Dict[str, Any]) -> Dict[str, Any]:
    from chuk_mcp.protocol.messages.send_message import send_message
    from chuk_mcp.protocol.types.errors import NonRetryableError, RetryableError, is_retryable_error

    loop = new_loop(horizon=60)
    proc = seams.FakeProcess()
    buf = {"b": b""}
    text, code = cfg["text"], cfg["code"]

    def on_stdin(data: bytes):
        buf["b"] += data
        while b"\n" in buf["b"]:
            line, buf["b"] = buf["b"].split(b"\n", 1)
            try:
                d = json.loads(line.decode("utf-8"))
            except Exception:  # noqa: BLE001
                continue
            if d.get("method") == "initialize":
                proc.stdout.feed((json.dumps({"jsonrpc": "2.0", "id": d["id"], "result": {
                    "protocolVersion": d["params"]["protocolVersion"], "capabilities": {},
                    "serverInfo": {"name": "s", "version": "1"}}}) + "\n").encode())
            elif "id" in d and d.get("method"):
                proc.stdout.feed((json.dumps({"jsonrpc": "2.0", "id": d["id"],
                                              "error": {"code": code, "message": text, **EXTRAS[cfg.get("extra", "none")]}}) + "\n").encode())

    proc.on_stdin = on_stdin
    info: Dict[str, Any] = {}

    async def body(read, write):
        info["entered"] = True
        kw = {}
        opts = cfg.get("opts", "none")
        if opts in ("token", "both"):
            from chuk_mcp.protocol.messages.send_message import CancellationToken
            kw["cancellation_token"] = CancellationToken()   # never triggered

        async def on_progress(progress, total, message):
            info.setdefault("progress", []).append(progress)

        if opts in ("progress", "both"):
            kw["progress_callback"] = on_progress
        await send_message(read, write, "tools/list", timeout=1.5, message_id="q1", **kw)
        info["returned_normally"] = True

    err_body = {"jsonrpc": "2.0", "id": "q1", "error": {"code": code, "message": text, **EXTRAS[cfg.get("extra", "none")]}}
    if cfg["entry"] in HTTP_ENTRIES:
        import httpx

        from ..seams_http import patched_httpx
        from .c12 import ENDPOINT_FORMS, Server, ev
        from .c12 import _params as sse_params

        srv = Server(loop, {"kind": "ok"})
        srv.stream.feed(ENDPOINT_FORMS["abs-path"][0].encode())

        def idle(lp):
            # the scripted SSE server: accept each POST, answer a request with the error event on the stream
            for i, (rec, fut) in enumerate(srv.posts):
                if not fut.done():
                    d = rec.json() or {}
                    srv.complete_post(i, {"kind": "status", "status": 202})
                    if d.get("method") and d.get("id") is not None:
                        srv.stream.feed(ev(err_body).encode())
                    return

        def http_handler(rec):
            d = rec.json() or {}
            if rec.method != "POST":
                return httpx.Response(405, content=b"")
            if d.get("method") and d.get("id") is not None:
                return httpx.Response(200, headers={"content-type": "application/json"}, content=json.dumps(err_body).encode())
            return httpx.Response(202, content=b"")

    async def main():
        with seams.patched_open_process(lambda cmd, kw: proc):
            try:
                e = cfg["entry"]
                if e == "stdio_client":
                    from chuk_mcp.transports.stdio.stdio_client import stdio_client
                    async with stdio_client(seams.stdio_params()) as (r, w):
                        await body(r, w)
                elif e == "stdio_client_with_initialize":
                    from chuk_mcp.transports.stdio.stdio_client import stdio_client_with_initialize
                    async with stdio_client_with_initialize(seams.stdio_params(), timeout=2.0) as (r, w, _init):
                        await body(r, w)
                elif e == "StdioClient":
                    from chuk_mcp.transports.stdio.stdio_client import StdioClient
                    async with StdioClient(seams.stdio_params()) as c:
                        await body(*c.get_streams())
                elif e == "sse_client":
                    from chuk_mcp.transports.sse.sse_client import sse_client
                    loop.idle_hook = idle
                    with patched_httpx(srv.handler):
                        async with sse_client(sse_params()) as (r, w):
                            await body(r, w)
                elif e == "SSETransport":
                    from chuk_mcp.transports.sse.transport import SSETransport
                    loop.idle_hook = idle
                    with patched_httpx(srv.handler):
                        async with SSETransport(sse_params()) as t:
                            await body(*(await t.get_streams()))
                elif e == "http_client":
                    from chuk_mcp.transports.http.http_client import http_client
                    from chuk_mcp.transports.http.parameters import StreamableHTTPParameters
                    with patched_httpx(http_handler):
                        async with http_client(StreamableHTTPParameters(url="http://mcp.test/mcp", timeout=2.0)) as (r, w):
                            await body(r, w)
                elif e == "StreamableHTTPTransport":
                    from chuk_mcp.transports.http.parameters import StreamableHTTPParameters
                    from chuk_mcp.transports.http.transport import StreamableHTTPTransport
                    with patched_httpx(http_handler):
                        async with StreamableHTTPTransport(StreamableHTTPParameters(url="http://mcp.test/mcp", timeout=2.0)) as t:
                            await body(*(await t.get_streams()))
                else:
                    from chuk_mcp.transports.stdio.transport import StdioTransport
                    async with StdioTransport(seams.stdio_params()) as t:
                        await body(*(await t.get_streams()))
                return ("left-normally", None, None)
            except (RetryableError, NonRetryableError) as ex:
                return ("classified", type(ex).__name__, getattr(ex, "code", None))
            except BaseException as ex:  # noqa: BLE001
                return ("other", type(ex).__name__, None)

    status, val = loop.run_main(main())
    errors = loop.collect_errors()
    loop.abandon()
    viol: List[dict] = []
    if status != "ok":
        return {"outcome": status, "violations": [{"sig": {"class": "did-not-finish", "part": "context-exit"},
                                                   "msg": f"cfg={cfg}: {status} {core.clean_repr(val)}"}]}
    kind, cls, got_code = val
    want_cls = "RetryableError" if is_retryable_error(code) else "NonRetryableError"
    if not info.get("entered"):
        raise core.HarnessError(f"context not entered: {val}")
    if kind != "classified" or cls != want_cls or got_code != code:
        sig = {"class": "error-did-not-leave-the-context-as-the-classified-exception", "entry": cfg["entry"],
               **({"call_options": cfg["opts"]} if cfg.get("opts") else {}),
               **({"error_object_members": cfg["extra"]} if cfg.get("extra") else {}),
               "left_as": kind if kind != "classified" else f"{cls}/{got_code}",
               "text_kind": "mentions-cancel-scope" if "cancel" in text.lower() and "scope" in text.lower() else
               ("mentions-json-object" if "json object" in text.lower() else
                ("looks-like-a-transport-diagnosis" if cfg["entry"] in HTTP_ENTRIES and text in HTTP_TEXTS[1:] else "other"))}
        viol.append({"sig": sig, "msg": f"cfg={cfg}: the server answered error {code} {text!r}; the with-block ended with "
                                        f"{val} (expected {want_cls} carrying {code})"})
    if errors:
        viol.append({"sig": {"class": "loop-error", "part": "context-exit"}, "msg": f"{errors[:2]}"})
    return {"outcome": kind, "violations": viol}


def add_part(res: core.Result, tier: str) -> None:
    cfgs = [{"entry": e, "text": t, "code": c} for e in ENTRIES for t in TEXTS for c in CODES]
    cfgs += [{"entry": e, "text": t, "code": c} for e in HTTP_ENTRIES for t in HTTP_TEXTS for c in HTTP_CODES]
    # the call's optional arguments (a token that never fires, a progress callback) do not change how the error surfaces
    cfgs += [{"entry": e, "text": t, "code": c, "opts": o} for e in ("stdio_client", "http_client", "sse_client")
             for t in ("plain failure", "Method not found") for c in CODES + [-32002] for o in ("token", "progress", "both")]
    # what else the error object carries does not change how it surfaces
    cfgs += [{"entry": e, "text": t, "code": c, "extra": x} for e in ("stdio_client", "http_client", "sse_client")
             for t in ("plain failure", "") for c in CODES + [-32002] for x in EXTRAS if x != "none"]
    out = explorer.explore(RUN, cfgs, fidelity=True)
    sched.absorb(res, "iv-classified-error-leaves-the-client-context", RUN, out, cfgs, min_outcomes=1)
