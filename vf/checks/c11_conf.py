"""C11 seam conformance: the scripted httpx transport vs real sockets.

Every single-request behaviour of C11 is executed twice - once through the
scripted transport on the virtual loop (the deciding configuration), once
against a real HTTP/1.1 server on a loopback socket with httpx's real transport
on a real event loop - and the judged outcomes (which class of read-stream
content each step produced, and every violation signature) must be identical.
This is not a deciding step (the kernel schedules the sockets); it is evidence
that the environment model the deciding step relies on is faithful.
"""
from __future__ import annotations

import asyncio
import json
from typing import Any, Dict, List

import anyio

from .. import core, explorer, sched
from ..jsonrpc_ref import dump_msg
from . import c11

RUN = "vf.checks.c11_conf:run_one"
REAL_TIMEOUT = 0.4


async def _serve(state, steps, rids):
    """Minimal HTTP/1.1 server speaking just enough for the behaviours of c11."""

    async def handle(reader: asyncio.StreamReader, writer: asyncio.StreamWriter):
        try:
            head = await reader.readuntil(b"\r\n\r\n")
            lines = head.decode("latin-1").split("\r\n")
            method, path, _ = lines[0].split(" ", 2)
            headers = {}
            for ln in lines[1:]:
                if ":" in ln:
                    k, v = ln.split(":", 1)
                    headers[k.strip().lower()] = v.strip()
            n = int(headers.get("content-length", "0") or 0)
            body = await reader.readexactly(n) if n else b""
            if method == "GET" and state["redirected"]:
                state["redirected"] = False
                raw, ctype = c11.render(c11.OK_B, rids[state["i"]])
                await _reply(writer, 200, {"content-type": ctype}, raw)
                return
            state["i"] += 1
            i = state["i"]
            try:
                sent = json.loads(body.decode("utf-8"))
            except Exception:
                sent = None
            state["posts"].append((sent, headers))
            if i >= len(steps):
                await _reply(writer, 500, {}, b"unexpected request")
                return
            s = steps[i]
            b = c11._beh(s)
            if "exc" in b:
                if b["exc"] in ("stall", "read-timeout"):
                    await asyncio.sleep(REAL_TIMEOUT * 4)  # say nothing: the client's read timeout ends the wait
                # "protocol": close without a response
                writer.close()
                return
            status = b["status"]
            if status == 301:
                state["redirected"] = True
                await _reply(writer, 301, {"location": f"http://127.0.0.1:{state['port']}/moved"}, b"")
                return
            raw, ctype = c11.render(b, rids[i])
            hdrs = {}
            if ctype:
                hdrs["content-type"] = ctype
            if s.get("session") and status < 300:
                hdrs["mcp-session-id"] = s["session"]
            if status == 204:
                raw = b""
            await _reply(writer, status, hdrs, raw)
        except (asyncio.IncompleteReadError, ConnectionError):
            pass
        finally:
            try:
                writer.close()
            except Exception:
                pass

    return await asyncio.start_server(handle, "127.0.0.1", 0)


async def _reply(writer, status, headers, body):
    reason = {200: "OK", 202: "Accepted", 204: "No Content", 301: "Moved Permanently", 302: "Found", 400: "Bad Request",
              401: "Unauthorized", 404: "Not Found", 500: "Internal Server Error", 503: "Service Unavailable"}.get(status, "X")
    out = [f"HTTP/1.1 {status} {reason}"]
    for k, v in headers.items():
        out.append(f"{k}: {v}")
    if status != 204:
        out.append(f"content-length: {len(body)}")
    out.append("connection: close")
    writer.write(("\r\n".join(out) + "\r\n\r\n").encode("latin-1") + (b"" if status == 204 else body))
    await writer.drain()


def execute_real(cfg) -> Dict[str, Any]:
    from chuk_mcp.protocol.messages.json_rpc_message import JSONRPCNotification, JSONRPCRequest
    from chuk_mcp.transports.http.http_client import http_client
    from chuk_mcp.transports.http.parameters import StreamableHTTPParameters

    steps = cfg["steps"]
    rids = c11.request_ids(steps)
    state: Dict[str, Any] = {"i": -1, "redirected": False, "posts": [], "port": None}
    got_per_step: List[List[Any]] = []

    async def main():
        srv = await _serve(state, steps, rids)
        state["port"] = srv.sockets[0].getsockname()[1]
        url = f"http://127.0.0.1:{state['port']}/mcp"
        try:
            async with http_client(StreamableHTTPParameters(url=url, timeout=REAL_TIMEOUT)) as (read, write):
                for n, s in enumerate(steps):
                    b = c11._beh(s)
                    msg = JSONRPCNotification(method="notifications/initialized", params={}) if rids[n] is None else \
                        JSONRPCRequest(id=rids[n], method="tools/list", params={"n": n})
                    posts_before = len(state["posts"])
                    await write.send(msg)
                    got: List[Any] = []
                    # wait until the POST was seen (or refused) and the transport had time to route the answer
                    deadline = asyncio.get_running_loop().time() + REAL_TIMEOUT * 6
                    quiet = 0
                    while asyncio.get_running_loop().time() < deadline:
                        await asyncio.sleep(0.02)
                        try:
                            while True:
                                got.append(read.receive_nowait())
                                quiet = 0
                        except (anyio.WouldBlock, anyio.EndOfStream):
                            pass
                        done_post = len(state["posts"]) > posts_before
                        slow = b.get("exc") in ("stall", "read-timeout")
                        quiet += 1
                        if done_post and not slow and quiet >= 6:
                            break
                        if slow and got and quiet >= 4:
                            break
                    got_per_step.append([dump_msg(m) for m in got])
        finally:
            srv.close()

    try:
        asyncio.run(asyncio.wait_for(main(), 30))
        status = "ok"
    except BaseException as e:  # noqa: BLE001
        status = "exc:" + type(e).__name__
    return {"status": status, "got": got_per_step, "posts": state["posts"], "rids": rids}


def run_one(ctl, cfg):
    virt = c11.run_one(explorer.Ctl(), cfg)
    real = execute_real(cfg)
    viol: List[dict] = []
    steps = cfg["steps"]
    if real["status"] != "ok":
        viol.append({"sig": {"class": "real-run-did-not-finish", "status": real["status"]}, "msg": f"steps={steps}"})
        return {"outcome": "real-failed", "violations": viol}
    posts = real["posts"]
    # a connect failure has no recorded POST on the server side; judge() needs one entry per step
    fixed = []
    for n, s in enumerate(steps):
        if n < len(posts) and posts[n][0] is None:
            fixed.append(({"id": real["rids"][n]} if real["rids"][n] is not None else {}, {}))
        elif n < len(posts):
            fixed.append(posts[n])
    summary, rviol = c11.judge(steps, real["rids"], real["got"], fixed)
    rsigs = sorted(json.dumps(v["sig"], sort_keys=True) for v in rviol)
    vsigs = sorted(json.dumps(v["sig"], sort_keys=True) for v in (virt.get("violations") or []))
    if "/".join(summary) != virt.get("outcome") or rsigs != vsigs:
        viol.append({"sig": {"class": "seam-disagrees-with-real-sockets", "virtual": virt.get("outcome"), "real": "/".join(summary)},
                     "msg": f"steps={[c11._tag(c11._beh(s)) for s in steps]}: scripted transport judged {virt.get('outcome')} {vsigs}, "
                            f"real sockets judged {'/'.join(summary)} {rsigs}; real delivered {real['got']}"})
    return {"outcome": "/".join(summary), "violations": viol}


def add_conformance_part(res: core.Result, tier: str) -> None:
    cfgs = []
    for bi, b in enumerate(c11.BEHAVIOURS):
        if b.get("exc") == "connect":
            continue  # needs a closed port between two steps on one transport; covered by the first-step variant below
        kinds = ["id-a", "note"]
        for rk in kinds:
            cfgs.append({"steps": [{"b": bi, "req": rk, "session": "S1"}, {"b": c11.OK_B, "req": "id-a", "session": None}]})
    if tier == "quick":
        # quick: every 25th case in a fixed order (the thorough tier runs all of them)
        cfgs = cfgs[::25]
    out = explorer.explore(RUN, cfgs, workers=8)
    sched.absorb(res, "seam-conformance-real-sockets", RUN, out, cfgs, real_world=True, min_outcomes=1)
    res.coverage["seam_conformance_cases"] = res.coverage.get("seam_conformance_cases", 0) + len(cfgs)
    res.assumptions.append(
        "seam conformance: single behaviours are replayed against a real loopback HTTP/1.1 server with httpx's real transport; "
        "timeouts are shortened to 0.4 s there; connection refusal is not replayed (needs a closed port mid-connection)"
    )
