"""C12 seam conformance: scripted SSE server (virtual loop) vs a real loopback server.

Establishment outcomes and single-request life-cycles are replayed against a real
HTTP/1.1 server that keeps a streaming text/event-stream response open and answers
POSTs on a second connection, through httpx's real transport on a real loop.  The
canonical outcome (entered / raised; which messages carrying the request's id reach
the read stream) must equal that of the scripted run with default choices."""
from __future__ import annotations

import asyncio
import json
from typing import Any, Dict, List

import anyio

from .. import core, explorer, sched
from ..jsonrpc_ref import dump_msg
from . import c12

RUN = "vf.checks.c12_conf:run_one"
RT = 0.6  # real transport timeout (seconds)


class RealServer:
    def __init__(self, cfg):
        self.cfg = cfg
        self.events: asyncio.Queue = asyncio.Queue()
        self.posts: List[dict] = []
        self.port = None
        self.srv = None

    async def start(self):
        self.srv = await asyncio.start_server(self.handle, "127.0.0.1", 0)
        self.port = self.srv.sockets[0].getsockname()[1]

    async def handle(self, reader, writer):
        try:
            head = await reader.readuntil(b"\r\n\r\n")
            lines = head.decode("latin-1").split("\r\n")
            method, path, _ = lines[0].split(" ", 2)
            headers = {}
            for ln in lines[1:]:
                if ":" in ln:
                    k, v = ln.split(":", 1)
                    headers[k.strip().lower()] = v.strip()
            n = int(headers.get("content-length", "0") or 0)
            body = await reader.readexactly(n) if n else b""
            if method == "GET":
                await self.get(writer)
            else:
                await self.post(writer, path, body)
        except (asyncio.IncompleteReadError, ConnectionError, asyncio.CancelledError):
            pass
        finally:
            try:
                writer.close()
            except Exception:
                pass

    async def get(self, writer):
        est = self.cfg.get("est", {"kind": "announce", "form": "abs-path"})
        k = est["kind"]
        if k in ("404", "500"):
            writer.write(f"HTTP/1.1 {k} X\r\ncontent-length: 4\r\nconnection: close\r\n\r\nnope".encode())
            await writer.drain()
            return
        writer.write(b"HTTP/1.1 200 OK\r\ncontent-type: text/event-stream\r\ncache-control: no-cache\r\nconnection: close\r\n\r\n")
        await writer.drain()
        if k == "empty-stream":
            return
        if k == "announce":
            text = c12.ENDPOINT_FORMS[est["form"]][0].replace("http://sse.test", f"http://127.0.0.1:{self.port}")
            writer.write(text.encode())
            await writer.drain()
        elif k == "blank-announce":
            writer.write(c12.BLANK_FORMS[est["form"]].encode())
            await writer.drain()
        # k == "never": say nothing
        while True:
            data = await self.events.get()
            if data is None:
                return
            writer.write(data)
            await writer.drain()

    async def post(self, writer, path, body):
        try:
            sent = json.loads(body.decode("utf-8"))
        except Exception:
            sent = None
        self.posts.append({"path": path, "json": sent})
        mode = self.cfg.get("mode", "200-body")
        rid = sent.get("id") if isinstance(sent, dict) else None
        resp = {"jsonrpc": "2.0", "id": rid, "result": {"ok": True, "n": None}}

        async def reply(status, ctype=None, payload=b""):
            hdr = f"HTTP/1.1 {status} X\r\ncontent-length: {len(payload)}\r\nconnection: close\r\n"
            if ctype:
                hdr += f"content-type: {ctype}\r\n"
            writer.write(hdr.encode() + b"\r\n" + payload)
            await writer.drain()

        if rid is None or mode == "200-body":
            await reply(200, "application/json", json.dumps(resp).encode())
        elif mode == "202-then-event":
            await reply(202)
            await asyncio.sleep(0.05)
            await self.events.put(c12.ev(resp).encode())
        elif mode == "event-then-202":
            await self.events.put(c12.ev(resp).encode())
            await asyncio.sleep(0.05)
            await reply(202)
        elif mode == "202-silence":
            await reply(202)
        elif mode == "500":
            await reply(500, "text/plain", b"internal error")
        elif mode == "200-nonjson":
            await reply(200, "text/html", b"<html>oops</html>")
        elif mode == "exception":
            return  # close without answering


def execute_real(cfg) -> Dict[str, Any]:
    from chuk_mcp.protocol.messages.json_rpc_message import JSONRPCRequest
    from chuk_mcp.transports.sse.parameters import SSEParameters
    from chuk_mcp.transports.sse.sse_client import sse_client

    out: Dict[str, Any] = {"entered": False, "raised": None, "got": [], "posts": 0}
    rid = c12.RIDS[cfg.get("id", "str")]

    async def main():
        srv = RealServer(cfg)
        await srv.start()
        try:
            try:
                async with sse_client(SSEParameters(url=f"http://127.0.0.1:{srv.port}", timeout=RT)) as (read, write):
                    out["entered"] = True
                    await write.send(JSONRPCRequest(id=rid, method="tools/list"))
                    deadline = asyncio.get_running_loop().time() + RT * 3
                    quiet = 0
                    while asyncio.get_running_loop().time() < deadline:
                        await asyncio.sleep(0.03)
                        n0 = len(out["got"])
                        try:
                            while True:
                                out["got"].append(dump_msg(read.receive_nowait()))
                        except (anyio.WouldBlock, anyio.EndOfStream, anyio.ClosedResourceError):
                            pass
                        quiet = quiet + 1 if len(out["got"]) == n0 else 0
                        if out["got"] and quiet >= 5 and cfg.get("mode") != "202-silence":
                            break
                    out["posts"] = len(srv.posts)
                    out["post_path"] = srv.posts[0]["path"] if srv.posts else None
            except BaseException as e:  # noqa: BLE001
                if not out["entered"]:
                    out["raised"] = type(e).__name__
                else:
                    out["body_exc"] = repr(e)[:100]
        finally:
            await srv.events.put(None)
            srv.srv.close()

    try:
        asyncio.run(asyncio.wait_for(main(), 30))
        out["status"] = "ok"
    except BaseException as e:  # noqa: BLE001
        out["status"] = "exc:" + type(e).__name__
    return out


def canon(got: List[dict], rid) -> List[list]:
    res = []
    for m in got:
        if isinstance(m, dict) and "method" not in m and m.get("id") is not None and str(m.get("id")) == str(rid):
            res.append(["error" if m.get("error") is not None else "result", type(m.get("id")).__name__])
    return res


def run_one(ctl, cfg):
    viol: List[dict] = []
    real = execute_real(cfg)
    if real.get("status") != "ok":
        return {"outcome": "real-failed", "violations": [{"sig": {"class": "real-run-did-not-finish", "status": real.get("status")},
                                                          "msg": f"cfg={cfg}"}]}
    rid = c12.RIDS[cfg.get("id", "str")]
    if "est" in cfg and cfg["est"]["kind"] != "announce" or cfg.get("part") == "establish":
        v = c12.run_establish(explorer.Ctl(), dict(cfg["est"], announce_at=[0, 0]) if cfg["est"]["kind"] == "announce" else cfg["est"])
        vo = v.get("outcome")
        ro = "entered" if real["entered"] else "raised:" + str(real["raised"])
        if vo != ro:
            viol.append({"sig": {"class": "seam-disagrees-with-real-sockets", "part": "establishment", "virtual": vo, "real": ro},
                         "msg": f"cfg={cfg}: scripted server: {vo}; real server: {ro}"})
        if real["entered"] and not real["posts"]:
            viol.append({"sig": {"class": "real-entered-dead-connection"}, "msg": f"cfg={cfg}: {real}"})
        return {"outcome": ro, "violations": viol + list(v.get("violations") or [])}
    # request life-cycle with the default schedule
    vmode = {"202-then-event": "202+event", "event-then-202": "202+event"}.get(cfg["mode"], cfg["mode"])
    pre = [1, 0] if cfg["mode"] == "event-then-202" else []
    v = c12.run_request(explorer.Ctl(pre), {"mode": vmode, "id": cfg["id"], "rich": False})
    # the virtual observation keeps only a summary; recompute the canonical form from a dedicated run
    vsum = v.get("outcome")
    rc = canon(real["got"], rid)
    rsum = f"{len(rc)}-terminal/timely"
    if not real["entered"]:
        viol.append({"sig": {"class": "real-run-did-not-enter"}, "msg": f"cfg={cfg}: {real}"})
    elif rsum != vsum:
        viol.append({"sig": {"class": "seam-disagrees-with-real-sockets", "part": "request", "virtual": vsum, "real": rsum},
                     "msg": f"cfg={cfg}: scripted server judged {vsum}; real server delivered {real['got']}"})
    elif any(t[1] != type(rid).__name__ for t in rc):
        viol.append({"sig": {"class": "id-type-changed", "part": "real"}, "msg": f"cfg={cfg}: {real['got']}"})
    return {"outcome": rsum + "/" + cfg["mode"], "violations": viol + list(v.get("violations") or [])}


def add_conformance_part(res: core.Result, tier: str) -> None:
    cfgs: List[dict] = []
    for form in c12.ENDPOINT_FORMS:
        cfgs.append({"part": "establish", "est": {"kind": "announce", "form": form}})
    for k in ("404", "500", "empty-stream", "never"):
        cfgs.append({"part": "establish", "est": {"kind": k}})
    for f in c12.BLANK_FORMS:
        cfgs.append({"part": "establish", "est": {"kind": "blank-announce", "form": f}})
    ids = list(c12.RIDS) if tier == "thorough" else ["str", "int"]
    for mode in ("200-body", "202-then-event", "event-then-202", "202-silence", "500", "200-nonjson", "exception"):
        for i in ids:
            cfgs.append({"mode": mode, "id": i})
    out = explorer.explore(RUN, cfgs, workers=8)
    sched.absorb(res, "seam-conformance-real-sockets", RUN, out, cfgs, real_world=True, min_outcomes=1)
    res.coverage["seam_conformance_cases"] = res.coverage.get("seam_conformance_cases", 0) + len(cfgs)
    res.assumptions.append(
        "seam conformance: establishment outcomes and single-request life-cycles are replayed against a real loopback server "
        "streaming text/event-stream (transport timeout shortened to 0.6 s); connection refusal is not replayed"
    )
