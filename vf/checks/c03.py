"""C03 - client initialization never settles on a protocol version it did not offer.

Engine: E-SCHED.  Driver: the real ``send_initialize`` and
``send_initialize_with_client_tracking`` (with a real, un-entered StdioClient as
tracked client) on the virtual loop against a scripted server.  The whole
configuration grid (supported list x preferred x server answer x distractor x
answer time x tracked) is enumerated.
"""
from __future__ import annotations

import itertools
import math
from typing import Any, Dict, List

import anyio

from .. import core, explorer, sched, seams
from ..vloop import EPS, new_loop

RUN = "vf.checks.c03:run_one"
T = 1.0
REAL = ["2025-06-18", "2025-03-26", "2024-11-05"]
U = REAL + ["2099-01-01", "1999-12-31", "bogus"]
PREFERRED = U + [None, "not-in-U"]
CAPS = {"capabilities": {"tools": {"listChanged": True}}, "serverInfo": {"name": "srv", "version": "1.0"}}

ERROR_CODES = [-32700, -32600, -32601, -32602, -32603, -32000, -32001, -32002, -32003, -32004, -32005, -32006,
               -32007, -32008, 0, 1]


def answers() -> List[Dict[str, Any]]:
    out: List[Dict[str, Any]] = []
    for v in U:
        out.append({"kind": "version", "v": v})
    out.append({"kind": "version-extras", "v": REAL[1]})
    # strings that are NOT offered but are textually related to the offered list
    for frag in ("empty", "year", "year-month", "month-day", "first+space", "first+newline", "space+first",
                 "first-two-joined", "comma-space", "last-year"):
        out.append({"kind": "version-fragment", "frag": frag})
    for m in ("missing", "null", "int", "list", "result-list", "result-string", "no-serverinfo", "empty-result"):
        out.append({"kind": "malformed", "m": m})
    for c in ERROR_CODES:
        out.append({"kind": "error", "code": c, "phrase": False})
    out.append({"kind": "error", "code": -32602, "phrase": True})
    out.append({"kind": "error", "code": -32603, "phrase": True})
    out.append({"kind": "silence"})
    return out


ANSWERS = answers()
TIMES = ["now", "poll-tie-after", "deadline-eps"]


def lists(maxlen: int) -> List[List[str]]:
    out = []
    for L in range(1, maxlen + 1):
        for p in itertools.permutations(U, L):
            out.append(list(p))
    return out


def fragment(frag: str, sup: List[str]) -> str:
    first, last = sup[0], sup[-1]
    return {"empty": "", "year": first[:4], "year-month": first[:7], "month-day": first[5:], "first+space": first + " ",
            "first+newline": first + "\n", "space+first": " " + first, "first-two-joined": ", ".join(sup[:2]),
            "comma-space": ", ", "last-year": last[:4]}[frag]


def build_answer(a: Dict[str, Any], rid: Any, sup: List[str] = None) -> Any:
    j = {"jsonrpc": "2.0", "id": rid}
    k = a["kind"]
    if k == "version-fragment":
        return {**j, "result": {"protocolVersion": fragment(a["frag"], sup), **CAPS}}
    if k == "version":
        return {**j, "result": {"protocolVersion": a["v"], **CAPS}}
    if k == "version-extras":
        return {**j, "result": {"protocolVersion": a["v"], **CAPS, "instructions": "hi", "x-extra": {"a": None}}}
    if k == "malformed":
        m = a["m"]
        if m == "missing":
            return {**j, "result": dict(CAPS)}
        if m == "null":
            return {**j, "result": {"protocolVersion": None, **CAPS}}
        if m == "int":
            return {**j, "result": {"protocolVersion": 20250618, **CAPS}}
        if m == "list":
            return {**j, "result": {"protocolVersion": ["2025-06-18"], **CAPS}}
        if m == "result-list":
            return {**j, "result": [1, 2]}
        if m == "result-string":
            return {**j, "result": "2025-06-18"}
        if m == "no-serverinfo":
            return {**j, "result": {"protocolVersion": "2025-06-18", "capabilities": {}}}
        if m == "empty-result":
            return {**j, "result": {}}
    if k == "error":
        msg = "Unsupported protocol version" if a["phrase"] else "nope"
        return {**j, "error": {"code": a["code"], "message": msg}}
    return None


class RecordingSend:
    def __init__(self, inner, log, loop):
        self._inner, self._log, self._loop = inner, log, loop
        self.completed = []

    async def send(self, item):
        self._log.append((self._loop.time(), item))
        await self._inner.send(item)
        self.completed.append(item)

    def send_nowait(self, item):
        self._log.append((self._loop.time(), item))
        return self._inner.send_nowait(item)

    def __getattr__(self, n):
        return getattr(self._inner, n)


def run_one(ctl: explorer.Ctl, cfg: Dict[str, Any]) -> Dict[str, Any]:
    from chuk_mcp.protocol.messages.initialize.send_messages import (send_initialize,
                                                                     send_initialize_with_client_tracking)
    from chuk_mcp.protocol.messages.json_rpc_message import parse_message
    from chuk_mcp.protocol.types.errors import NonRetryableError, RetryableError, VersionMismatchError
    from chuk_mcp.transports.stdio.stdio_client import StdioClient

    sup = cfg["list"]
    pref = cfg["pref"]
    a = ANSWERS[cfg["answer"]]
    when = cfg["when"]
    loop = new_loop(horizon=4 * T + 5)
    writes: List[tuple] = []
    st: Dict[str, Any] = {"answered": False, "t_answer": None}
    client = StdioClient(seams.stdio_params()) if cfg["tracked"] else None
    if client is not None and cfg.get("preset"):
        # the tracked client already went through an earlier handshake that settled on this version
        client.set_protocol_version(cfg["preset"])

    def deliver(wire):
        st["t_answer"] = loop.time()
        st["send_r"].send_nowait(parse_message(wire))

    def idle(lp):
        if st["answered"] or not writes:
            return
        st["answered"] = True
        req = writes[0][1]
        rid = getattr(req, "id", None)
        st["rid"] = rid
        if cfg["distractor"]:
            st["send_r"].send_nowait(parse_message(
                {"jsonrpc": "2.0", "method": "notifications/message", "params": {"data": "hello"}}))
        wire = build_answer(a, rid, sup)
        if wire is None:
            return
        if when == "now":
            lp.call_soon(deliver, wire)
        elif when == "poll-tie-after":
            lp.env_call_at(0.5, 1, deliver, wire)
        else:
            lp.env_call_at(T - EPS, 0, deliver, wire)

    async def main():
        stall = cfg.get("write") == "unbuffered-stall"
        send_w, recv_w = anyio.create_memory_object_stream(0 if stall else math.inf)
        send_r, recv_r = anyio.create_memory_object_stream(math.inf)
        st["send_r"] = send_r
        w = RecordingSend(send_w, writes, loop)
        st["w"] = w
        if stall:
            # the peer takes the initialize request, then does not read again for longer than the caller's timeout
            async def slow_consumer():
                import asyncio as _a
                n = 0
                async for m in recv_w:
                    n += 1
                    if n == 1:
                        await _a.sleep(cfg.get("stall", 2.5 * T))

            import asyncio as _asyncio
            st["consumer"] = _asyncio.ensure_future(slow_consumer())
        kw = {"timeout": T, "supported_versions": list(sup), "preferred_version": pref}
        try:
            if client is not None:
                r = await send_initialize_with_client_tracking(recv_r, w, client=client, **kw)
            else:
                r = await send_initialize(recv_r, w, **kw)
            return ("ok", getattr(r, "protocolVersion", None), type(r).__name__)
        except VersionMismatchError as e:
            return ("version-mismatch", str(e)[:80], None)
        except TimeoutError:
            return ("timeout", None, None)
        except (RetryableError, NonRetryableError) as e:
            return ("rpc-error", getattr(e, "code", None), type(e).__name__)
        except BaseException as e:  # noqa: BLE001
            return ("exception", type(e).__name__, None)

    loop.idle_hook = idle
    status, val = loop.run_main(main())
    t_done = loop.time()
    errors = loop.collect_errors()
    loop.abandon()
    obs: Dict[str, Any] = {"status": status}
    viol: List[dict] = []
    if status != "ok":
        obs["outcome"] = status
        obs["violations"] = [{"sig": {"class": "did-not-finish", "status": status}, "msg": f"cfg={cfg} answer={a}: {status} {core.clean_repr(val)}"}]
        return obs
    okind, oval, oextra = val
    obs["outcome"] = okind

    def bad(cls, msg, **extra):
        viol.append({"sig": {"class": cls, **extra},
                     "msg": f"list={sup} preferred={pref!r} answer={a} when={when} distractor={cfg['distractor']} "
                            f"tracked={cfg['tracked']} preset={cfg.get('preset')}: {msg} [outcome={okind} {oval!r}]"})

    wd = []
    for t, m in writes:
        try:
            wd.append((t, m.model_dump(exclude_none=True)))
        except Exception:
            wd.append((t, {"repr": repr(m)}))
    inits = [(t, w) for t, w in wd if w.get("method") == "initialize"]
    notes = [(t, w) for t, w in wd if w.get("method") == "notifications/initialized"]
    others = [(t, w) for t, w in wd if w.get("method") not in ("initialize", "notifications/initialized")]
    proposed_expected = pref if (pref is not None and pref in sup) else sup[0]
    if len(inits) != 1:
        bad("initialize-count", f"{len(inits)} initialize requests written")
    else:
        got = (inits[0][1].get("params") or {}).get("protocolVersion")
        if got != proposed_expected:
            bad("wrong-proposal", f"proposed {got!r}, expected {proposed_expected!r}")
        if "id" not in inits[0][1] or wd[0][1].get("method") != "initialize":
            bad("initialize-not-first", f"writes={wd}")
    if others:
        bad("unexpected-write", f"{others[:2]}")

    if a["kind"] == "version-fragment":
        a = dict(a, v=fragment(a["frag"], sup))
    success_expected = a["kind"] in ("version", "version-extras", "version-fragment") and a["v"] in sup
    if success_expected:
        if okind != "ok":
            bad("valid-answer-rejected", "server answered with an offered version but initialization failed")
        else:
            if oval != a["v"]:
                bad("wrong-version-returned", f"returned {oval!r}, server answered {a['v']!r}")
            handed_over = [m for m in st["w"].completed if getattr(m, "method", None) == "notifications/initialized"]
            if len(notes) != 1:
                bad("initialized-count", f"{len(notes)} initialized notifications on success")
            elif len(handed_over) != 1:
                bad("initialized-not-delivered", "initialization reported success but the initialized notification was never "
                                                 "handed to the write stream (send abandoned)", write=cfg.get("write"))
            else:
                tn = notes[0][0]
                if st["t_answer"] is None or tn < st["t_answer"] - 1e-12 or tn > t_done + 1e-12:
                    bad("initialized-at-wrong-time", f"initialized written at {tn}, answer at {st['t_answer']}, returned at {t_done}")
                if "id" in notes[0][1]:
                    bad("initialized-has-id", f"{notes[0][1]}")
            if client is not None:
                info = client.get_batching_info()
                want = {"protocol_version": a["v"], "batching_enabled": a["v"] < "2025-06-18"}
                well_formed = len(a["v"]) == 10 and a["v"][4] == "-" and a["v"][7] == "-" and \
                    a["v"].replace("-", "").isdigit()
                # the mode "belonging to" a string that is not a date is not defined by the statement
                if info.get("protocol_version") != want["protocol_version"] or \
                        (well_formed and bool(info.get("batching_enabled")) != want["batching_enabled"]):
                    bad("tracked-client-mode", f"batching info {info}, expected {want}")
    else:
        if okind == "ok":
            cls = "accepted-unoffered-version" if a["kind"].startswith("version") else "accepted-" + a["kind"]
            bad(cls, "initialization succeeded although the server did not answer with an offered version")
        if notes:
            bad("initialized-sent-on-failure", f"{len(notes)} initialized notifications although initialization failed ({okind})")
        if client is not None and client.get_batching_info().get("protocol_version") != cfg.get("preset"):
            bad("tracked-client-set-on-failure", f"{client.get_batching_info()}")
        if a["kind"].startswith("version") and okind != "version-mismatch" and not (
                cfg.get("write") == "unbuffered-stall" and okind == "timeout"):
            bad("wrong-failure-kind", "an unoffered version must raise VersionMismatchError")
        if a["kind"] == "silence" and okind != "timeout":
            bad("wrong-failure-kind", "silence must end in TimeoutError", answer="silence")
        if a["kind"] == "error":
            if a["code"] == -32602 and a["phrase"]:
                if okind != "version-mismatch":
                    bad("wrong-failure-kind", "-32602 'protocol version' must raise VersionMismatchError", answer="error-32602-phrase")
            elif okind != "rpc-error" or oval != a["code"]:
                bad("wrong-failure-kind", f"error {a['code']} must surface as a classified error carrying the code", answer="error")
    if errors:
        bad("loop-error", f"{errors[:2]}")
    obs["writes"] = [w.get("method") for _, w in wd]
    obs["proposed"] = proposed_expected
    obs["returned"] = oval
    obs["answer"] = a
    obs["violations"] = viol
    return obs


def run(tier: str, only=None) -> core.Result:
    res = core.Result("C03", "model_checking")
    ls = lists(2 if tier == "quick" else 3)
    cfgs = []
    for li, sup in enumerate(ls):
        for pref in PREFERRED:
            for ai in range(len(ANSWERS)):
                # answer times and distractor: full product for the short lists, reduced for length 3
                times = TIMES if (len(sup) <= 2 or (tier == "thorough" and len(sup) == 3 and pref in (None, sup[-1], "not-in-U"))) else ["now"]
                for when in (times if ANSWERS[ai]["kind"] != "silence" else ["now"]):
                    for d in (False, True):
                        for tr in (False, True):
                            cfgs.append({"list": sup, "pref": pref, "answer": ai, "when": when, "distractor": d, "tracked": tr})
                # a tracked client that is re-initialised: it still carries the version of its previous handshake
                if pref is None and ANSWERS[ai]["kind"] in ("version", "silence", "error"):
                    for preset in sorted({sup[-1], "1999-12-31", "2024-11-05"}):
                        cfgs.append({"list": sup, "pref": pref, "answer": ai, "when": "now", "distractor": False,
                                     "tracked": True, "preset": preset})
                # slow peer: unbuffered write stream whose consumer stalls after taking the request
                if len(sup) == 1 and ANSWERS[ai]["kind"] in ("version", "version-fragment"):
                    for stall in (0.5 * T, 2.5 * T):
                        for tr in (False, True):
                            cfgs.append({"list": sup, "pref": pref, "answer": ai, "when": "now", "distractor": False,
                                         "tracked": tr, "write": "unbuffered-stall", "stall": stall})
    out = explorer.explore(RUN, cfgs, fidelity=True)
    sched.absorb(res, f"grid-lists<={2 if tier == 'quick' else 3}", RUN, out, cfgs)
    res.coverage["exhaustive"] = True
    res.coverage["rule"] = (
        f"all {len(ls)} non-empty repetition-free ordered supported lists of length <= {2 if tier == 'quick' else 3} over "
        f"U={U} x preferred in U+{{None,'not-in-U'}} x {len(ANSWERS)} server answers (each version of U, extras, 8 malformed "
        "results, 18 JSON-RPC errors incl. -32602 with/without the phrase 'protocol version', silence) x answer time "
        "{immediately, tie with the 0.5 s poll, 1 us before the deadline} x distractor notification x tracked client"
    )
    res.assumptions = [
        "which of RetryableError/NonRetryableError a code maps to belongs to C07; here only 'classified error carrying the code'",
        "a malformed result must make initialization fail with some exception (the statement does not name the type)",
    ]
    return res
