"""C03 - client initialization never settles on a protocol version it did not offer.

Engine: E-SCHED.  Driver: the real ``send_initialize`` and
``send_initialize_with_client_tracking`` (with a real, un-entered StdioClient as
tracked client) on the virtual loop against a scripted server.  The whole
configuration grid (supported list x preferred x server answer x distractor x
answer time x tracked) is enumerated.
"""
from __future__ import annotations

import itertools
import math
from typing import Any, Dict, List

import anyio

from .. import core, explorer, sched, seams
from ..vloop import EPS, new_loop

RUN = "vf.checks.c03:run_one"
T = 1.0
REAL = ["2025-06-18", "2025-03-26", "2024-11-05"]
U = REAL + ["2099-01-01", "1999-12-31", "bogus"]
PREFERRED = U + [None, "not-in-U"]
CAPS = {"capabilities": {"tools": {"listChanged": True}}, "serverInfo": {"name": "srv", "version": "1.0"}}

ERROR_CODES = [-32700, -32600, -32601, -32602, -32603, -32000, -32001, -32002, -32003, -32004, -32005, -32006,
               -32007, -32008, 0, 1]


def answers() -> List[Dict[str, Any]]:
    out: List[Dict[str, Any]] = []
    for v in U:
        out.append({"kind": "version", "v": v})
    out.append({"kind": "version-extras", "v": REAL[1]})
    # strings that are NOT offered but are textually related to the offered list
    for frag in ("empty", "year", "year-month", "month-day", "first+space", "first+newline", "space+first",
                 "first-two-joined", "comma-space", "last-year"):
        out.append({"kind": "version-fragment", "frag": frag})
    for m in ("missing", "null", "int", "list", "result-list", "result-string", "no-serverinfo", "empty-result"):
        out.append({"kind": "malformed", "m": m})
    for c in ERROR_CODES:
        out.append({"kind": "error", "code": c, "phrase": False})
    out.append({"kind": "error", "code": -32602, "phrase": True})
    out.append({"kind": "error", "code": -32603, "phrase": True})
    # a refusal that ALSO serialises a result body (only deliverable as an object, the parser refuses it): still a refusal
    out.append({"kind": "error", "code": -32602, "phrase": True, "with_result": True})
    out.append({"kind": "error", "code": -32000, "phrase": False, "with_result": True})
    out.append({"kind": "silence"})
    return out


ANSWERS = answers()
TIMES = ["now", "poll-tie-after", "deadline-eps"]


def lists(maxlen: int) -> List[List[str]]:
    out = []
    for L in range(1, maxlen + 1):
        for p in itertools.permutations(U, L):
            out.append(list(p))
    return out


def fragment(frag: str, sup: List[str]) -> str:
    first, last = sup[0], sup[-1]
    return {"empty": "", "year": first[:4], "year-month": first[:7], "month-day": first[5:], "first+space": first + " ",
            "first+newline": first + "\n", "space+first": " " + first, "first-two-joined": ", ".join(sup[:2]),
            "comma-space": ", ", "last-year": last[:4]}[frag]


def build_answer(a: Dict[str, Any], rid: Any, sup: List[str] = None) -> Any:
    j = {"jsonrpc": "2.0", "id": rid}
    k = a["kind"]
    if k == "version-fragment":
        return {**j, "result": {"protocolVersion": fragment(a["frag"], sup), **CAPS}}
    if k == "version":
        return {**j, "result": {"protocolVersion": a["v"], **CAPS}}
    if k == "version-extras":
        return {**j, "result": {"protocolVersion": a["v"], **CAPS, "instructions": "hi", "x-extra": {"a": None}}}
    if k == "malformed":
        m = a["m"]
        if m == "missing":
            return {**j, "result": dict(CAPS)}
        if m == "null":
            return {**j, "result": {"protocolVersion": None, **CAPS}}
        if m == "int":
            return {**j, "result": {"protocolVersion": 20250618, **CAPS}}
        if m == "list":
            return {**j, "result": {"protocolVersion": ["2025-06-18"], **CAPS}}
        if m == "result-list":
            return {**j, "result": [1, 2]}
        if m == "result-string":
            return {**j, "result": "2025-06-18"}
        if m == "no-serverinfo":
            return {**j, "result": {"protocolVersion": "2025-06-18", "capabilities": {}}}
        if m == "empty-result":
            return {**j, "result": {}}
    if k == "error":
        msg = "Unsupported protocol version" if a["phrase"] else "nope"
        if a.get("with_result"):
            return {**j, "error": {"code": a["code"], "message": msg},
                    "result": {"protocolVersion": (sup or REAL)[0], **CAPS}}
        return {**j, "error": {"code": a["code"], "message": msg}}
    return None


class RecordingSend:
    def __init__(self, inner, log, loop):
        self._inner, self._log, self._loop = inner, log, loop
        self.completed = []

    async def send(self, item):
        self._log.append((self._loop.time(), item))
        await self._inner.send(item)
        self.completed.append(item)

    def send_nowait(self, item):
        self._log.append((self._loop.time(), item))
        return self._inner.send_nowait(item)

    def __getattr__(self, n):
        return getattr(self._inner, n)


def run_one(ctl: explorer.Ctl, cfg: Dict[str, Any]) -> Dict[str, Any]:
    from chuk_mcp.protocol.messages.initialize.send_messages import (send_initialize,
                                                                     send_initialize_with_client_tracking)
    from chuk_mcp.protocol.messages.json_rpc_message import parse_message
    from chuk_mcp.protocol.types.errors import NonRetryableError, RetryableError, VersionMismatchError
    from chuk_mcp.transports.stdio.stdio_client import StdioClient

    sup = cfg["list"]
    pref = cfg["pref"]
    a = ANSWERS[cfg["answer"]]
    when = cfg["when"]
    loop = new_loop(horizon=4 * T + 5)
    writes: List[tuple] = []
    st: Dict[str, Any] = {"answered": False, "t_answer": None}
    client = StdioClient(seams.stdio_params()) if cfg["tracked"] else None
    if client is not None and cfg.get("preset") and cfg.get("reenter") != "second-connection":
        # the tracked client already went through an earlier handshake that settled on this version
        client.set_protocol_version(cfg["preset"])

    def deliver(wire):
        st["t_answer"] = loop.time()
        if "error" in wire and "result" in wire:
            from chuk_mcp.protocol.messages.json_rpc_message import JSONRPCResponse
            st["send_r"].send_nowait(JSONRPCResponse(id=wire["id"], result=wire["result"], error=wire["error"]))
            return
        st["send_r"].send_nowait(parse_message(wire))

    def idle(lp):
        if st["answered"] or not writes:
            return
        st["answered"] = True
        req = writes[0][1]
        rid = getattr(req, "id", None)
        st["rid"] = rid
        if cfg["distractor"]:
            st["send_r"].send_nowait(parse_message(
                {"jsonrpc": "2.0", "method": "notifications/message", "params": {"data": "hello"}}))
        wire = build_answer(a, rid, sup)
        if wire is None:
            return
        if when == "now":
            lp.call_soon(deliver, wire)
        elif when == "poll-tie-after":
            lp.env_call_at(0.5, 1, deliver, wire)
        else:
            lp.env_call_at(T - EPS, 0, deliver, wire)

    async def main():
        stall = cfg.get("write") == "unbuffered-stall"
        send_w, recv_w = anyio.create_memory_object_stream(0 if stall else math.inf)
        send_r, recv_r = anyio.create_memory_object_stream(math.inf)
        st["send_r"] = send_r
        w = RecordingSend(send_w, writes, loop)
        st["w"] = w
        if stall:
            # the peer takes the initialize request, then does not read again for longer than the caller's timeout
            async def slow_consumer():
                import asyncio as _a
                n = 0
                async for m in recv_w:
                    n += 1
                    if n == 1:
                        await _a.sleep(cfg.get("stall", 2.5 * T))

            import asyncio as _asyncio
            st["consumer"] = _asyncio.ensure_future(slow_consumer())
        if cfg.get("write") == "peer-closes":
            # the peer takes the initialize request, answers, and is gone: its end of the client's write stream is closed
            async def one_then_gone():
                await recv_w.receive()
                await recv_w.aclose()

            import asyncio as _asyncio2
            st["consumer"] = _asyncio2.ensure_future(one_then_gone())
        kw = {"timeout": T, "supported_versions": list(sup), "preferred_version": pref}
        try:
            if client is not None and cfg.get("reenter"):
                # the tracked client object is really connected (scripted process): either the version was preset before
                # its first connection, or it went through one connection that settled on it and is now connected again
                procs = iter([seams.FakeProcess(), seams.FakeProcess()])
                with seams.patched_open_process(lambda cmd, kw_: next(procs)):
                    if cfg["reenter"] == "second-connection":
                        async with client:
                            client.set_protocol_version(cfg["preset"])
                    async with client:
                        try:
                            r = await send_initialize_with_client_tracking(recv_r, w, client=client, **kw)
                        finally:
                            st["info"] = dict(client.get_batching_info())
            elif client is not None:
                r = await send_initialize_with_client_tracking(recv_r, w, client=client, **kw)
            else:
                r = await send_initialize(recv_r, w, **kw)
            return ("ok", getattr(r, "protocolVersion", None), type(r).__name__)
        except VersionMismatchError as e:
            return ("version-mismatch", str(e)[:80], None)
        except TimeoutError:
            return ("timeout", None, None)
        except (RetryableError, NonRetryableError) as e:
            return ("rpc-error", getattr(e, "code", None), type(e).__name__)
        except BaseException as e:  # noqa: BLE001
            return ("exception", type(e).__name__, None)

    loop.idle_hook = idle
    status, val = loop.run_main(main())
    t_done = loop.time()
    errors = loop.collect_errors()
    loop.abandon()
    obs: Dict[str, Any] = {"status": status}
    viol: List[dict] = []
    if status != "ok":
        obs["outcome"] = status
        obs["violations"] = [{"sig": {"class": "did-not-finish", "status": status}, "msg": f"cfg={cfg} answer={a}: {status} {core.clean_repr(val)}"}]
        return obs
    okind, oval, oextra = val
    obs["outcome"] = okind

    def bad(cls, msg, **extra):
        viol.append({"sig": {"class": cls, **extra},
                     "msg": f"list={sup} preferred={pref!r} answer={a} when={when} distractor={cfg['distractor']} "
                            f"tracked={cfg['tracked']} preset={cfg.get('preset')}: {msg} [outcome={okind} {oval!r}]"})

    wd = []
    for t, m in writes:
        try:
            wd.append((t, m.model_dump(exclude_none=True)))
        except Exception:
            wd.append((t, {"repr": repr(m)}))
    inits = [(t, w) for t, w in wd if w.get("method") == "initialize"]
    notes = [(t, w) for t, w in wd if w.get("method") == "notifications/initialized"]
    others = [(t, w) for t, w in wd if w.get("method") not in ("initialize", "notifications/initialized")]
    proposed_expected = pref if (pref is not None and pref in sup) else sup[0]
    if len(inits) != 1:
        bad("initialize-count", f"{len(inits)} initialize requests written")
    else:
        got = (inits[0][1].get("params") or {}).get("protocolVersion")
        if got != proposed_expected:
            bad("wrong-proposal", f"proposed {got!r}, expected {proposed_expected!r}")
        if "id" not in inits[0][1] or wd[0][1].get("method") != "initialize":
            bad("initialize-not-first", f"writes={wd}")
    if others:
        bad("unexpected-write", f"{others[:2]}")

    if a["kind"] == "version-fragment":
        a = dict(a, v=fragment(a["frag"], sup))
    success_expected = a["kind"] in ("version", "version-extras", "version-fragment") and a["v"] in sup
    if success_expected and cfg.get("write") == "peer-closes":
        # the answer is acceptable but the initialized notification cannot be delivered any more: the handshake cannot
        # have completed, so the call must not report success (how it fails is not specified)
        if okind == "ok":
            bad("success-without-initialized", "initialization reported success although the initialized notification could not "
                                               "be written (peer gone)", write="peer-closes")
        if client is not None and (st.get("info") or client.get_batching_info()).get("protocol_version") != cfg.get("preset"):
            bad("tracked-client-set-on-failure", f"{st.get('info') or client.get_batching_info()}", write="peer-closes")
    elif success_expected:
        if okind != "ok":
            bad("valid-answer-rejected", "server answered with an offered version but initialization failed")
        else:
            if oval != a["v"]:
                bad("wrong-version-returned", f"returned {oval!r}, server answered {a['v']!r}")
            handed_over = [m for m in st["w"].completed if getattr(m, "method", None) == "notifications/initialized"]
            if len(notes) != 1:
                bad("initialized-count", f"{len(notes)} initialized notifications on success")
            elif len(handed_over) != 1:
                bad("initialized-not-delivered", "initialization reported success but the initialized notification was never "
                                                 "handed to the write stream (send abandoned)", write=cfg.get("write"))
            else:
                tn = notes[0][0]
                if st["t_answer"] is None or tn < st["t_answer"] - 1e-12 or tn > t_done + 1e-12:
                    bad("initialized-at-wrong-time", f"initialized written at {tn}, answer at {st['t_answer']}, returned at {t_done}")
                if "id" in notes[0][1]:
                    bad("initialized-has-id", f"{notes[0][1]}")
            if client is not None:
                info = st.get("info") or client.get_batching_info()
                want = {"protocol_version": a["v"], "batching_enabled": a["v"] < "2025-06-18"}
                well_formed = len(a["v"]) == 10 and a["v"][4] == "-" and a["v"][7] == "-" and \
                    a["v"].replace("-", "").isdigit()
                # the mode "belonging to" a string that is not a date is not defined by the statement
                if info.get("protocol_version") != want["protocol_version"] or \
                        (well_formed and bool(info.get("batching_enabled")) != want["batching_enabled"]):
                    bad("tracked-client-mode", f"batching info {info}, expected {want}")
    else:
        if okind == "ok":
            cls = "accepted-unoffered-version" if a["kind"].startswith("version") else "accepted-" + a["kind"]
            bad(cls, "initialization succeeded although the server did not answer with an offered version")
        if notes:
            bad("initialized-sent-on-failure", f"{len(notes)} initialized notifications although initialization failed ({okind})")
        if client is not None and (st.get("info") or client.get_batching_info()).get("protocol_version") != cfg.get("preset"):
            bad("tracked-client-set-on-failure", f"{st.get('info') or client.get_batching_info()}")
        if a["kind"].startswith("version") and okind != "version-mismatch" and not (
                cfg.get("write") == "unbuffered-stall" and okind == "timeout"):
            bad("wrong-failure-kind", "an unoffered version must raise VersionMismatchError")
        if a["kind"] == "silence" and okind != "timeout":
            bad("wrong-failure-kind", "silence must end in TimeoutError", answer="silence")
        if a["kind"] == "error":
            if a["code"] == -32602 and a["phrase"]:
                if okind != "version-mismatch":
                    bad("wrong-failure-kind", "-32602 'protocol version' must raise VersionMismatchError", answer="error-32602-phrase")
            elif okind != "rpc-error" or oval != a["code"]:
                bad("wrong-failure-kind", f"error {a['code']} must surface as a classified error carrying the code", answer="error")
    if errors:
        bad("loop-error", f"{errors[:2]}")
    obs["writes"] = [w.get("method") for _, w in wd]
    obs["proposed"] = proposed_expected
    obs["returned"] = oval
    obs["answer"] = a
    obs["violations"] = viol
    return obs


# ---------------------------------------------------------------------------
# the high-level MCPClient: sequences of initialize attempts and an operation
# ---------------------------------------------------------------------------
RUN_MC = "vf.checks.c03:run_mcpclient"
MC_OPS = ["init-ok", "init-cancelled", "init-error", "init-mismatch", "init-silent-timeout", "op"]


def run_mcpclient(ctl: explorer.Ctl, cfg: Dict[str, Any]) -> Dict[str, Any]:
    import asyncio

    from chuk_mcp.client.client import MCPClient
    from chuk_mcp.protocol.messages.json_rpc_message import parse_message
    from chuk_mcp.transports.base import Transport

    ops = cfg["ops"]
    loop = new_loop(horizon=400)
    writes: List[tuple] = []
    st: Dict[str, Any] = {"plan": [], "handled": 0}

    class MemTransport(Transport):
        def __init__(self):
            super().__init__(None)
            self.versions: List[str] = []

        async def get_streams(self):
            return st["recv_r"], st["w"]

        async def __aenter__(self):
            return self

        async def __aexit__(self, *a):
            return False

        def set_protocol_version(self, version):
            self.versions.append(version)

    def idle(lp):
        # answer requests according to the plan of the operation in progress
        while st["handled"] < len(writes):
            t, m = writes[st["handled"]]
            st["handled"] += 1
            d = m.model_dump(exclude_none=True) if hasattr(m, "model_dump") else {}
            rid = d.get("id")
            if d.get("method") == "initialize":
                how = st.get("init_answer", "ok")
                if how == "ok":
                    wire = {"jsonrpc": "2.0", "id": rid, "result": {"protocolVersion": d["params"]["protocolVersion"], **CAPS}}
                elif how == "error":
                    wire = {"jsonrpc": "2.0", "id": rid, "error": {"code": -32603, "message": "boom"}}
                elif how == "mismatch":
                    wire = {"jsonrpc": "2.0", "id": rid, "result": {"protocolVersion": "1999-12-31", **CAPS}}
                else:
                    wire = None  # silence
                st.setdefault("inits", []).append({"t": t, "answer": how})
                if wire is not None:
                    st["send_r"].send_nowait(parse_message(wire))
            elif d.get("method") == "tools/list":
                st.setdefault("ops_on_wire", []).append({"t": t, "after_handshakes": list(st.get("completed", []))})
                st["send_r"].send_nowait(parse_message({"jsonrpc": "2.0", "id": rid, "result": {"tools": []}}))
            elif d.get("method") == "notifications/initialized":
                st.setdefault("completed", []).append(t)

    async def main():
        send_w, recv_w = anyio.create_memory_object_stream(math.inf)
        send_r, recv_r = anyio.create_memory_object_stream(math.inf)
        st["send_r"], st["recv_r"] = send_r, recv_r
        st["w"] = RecordingSend(send_w, writes, loop)
        tr = MemTransport()
        client = MCPClient(tr)
        outcomes = []
        for op in ops:
            st["init_answer"] = {"init-ok": "ok", "init-error": "error", "init-mismatch": "mismatch",
                                 "init-cancelled": "silence", "init-silent-timeout": "silence", "op": "ok"}[op]
            try:
                if op == "op":
                    r = await client.list_tools()
                    outcomes.append(["op-ok", len(r)])
                elif op == "init-cancelled":
                    with anyio.move_on_after(0.3) as sc:
                        await client.initialize()
                    outcomes.append(["init-cancelled" if sc.cancelled_caught else "init-returned"])
                elif op == "init-silent-timeout":
                    # the library's own 60 s timeout expires
                    try:
                        await client.initialize()
                        outcomes.append(["init-returned"])
                    except TimeoutError:
                        outcomes.append(["init-timeout"])
                else:
                    r = await client.initialize()
                    outcomes.append(["init-returned", bool(client.initialized)])
            except BaseException as e:  # noqa: BLE001
                outcomes.append(["raised", type(e).__name__])
            outcomes[-1].append(bool(client.initialized))
        return outcomes, tr.versions

    loop.idle_hook = idle
    status, val = loop.run_main(main())
    errors = loop.collect_errors()
    loop.abandon()
    viol: List[dict] = []
    if status != "ok":
        return {"outcome": status, "violations": [{"sig": {"class": "did-not-finish", "part": "mcpclient"},
                                                   "msg": f"ops={ops}: {status} {core.clean_repr(val)}"}]}
    outcomes, versions = val
    # reconstruct from the wire, in order: which handshakes completed, and what was written before any had
    completed: List[float] = []
    ops_before_handshake = []
    for t, m in writes:
        meth = getattr(m, "method", None)
        if meth == "notifications/initialized":
            completed.append(t)
        elif meth == "tools/list" and not completed:
            ops_before_handshake.append(t)
    # (a) the client may consider itself initialized only after a handshake that really completed on the wire
    for i, o in enumerate(outcomes):
        if o[-1] and not completed:
            viol.append({"sig": {"class": "initialized-without-handshake", "after": ops[i]},
                         "msg": f"ops={ops}: after {ops[:i + 1]} the client reports initialized=True but no initialize/initialized "
                                f"exchange ever completed; outcomes={outcomes}"})
            break
    # (b) an operation never reaches the wire before a completed handshake
    if ops_before_handshake:
        viol.append({"sig": {"class": "operation-before-handshake"},
                     "msg": f"ops={ops}: tools/list was written at t={ops_before_handshake[0]} although no handshake had completed; "
                            f"outcomes={outcomes}"})
    # (c) every completed handshake followed an 'ok' answer; a failed one sends no initialized notification
    oks = sum(1 for x in st.get("inits", []) if x["answer"] == "ok")
    if len(completed) > oks:
        viol.append({"sig": {"class": "initialized-sent-on-failure", "part": "mcpclient"},
                     "msg": f"ops={ops}: {len(completed)} initialized notifications for {oks} accepted answers"})
    if errors:
        viol.append({"sig": {"class": "loop-error"}, "msg": f"{errors[:2]}"})
    return {"outcome": "/".join(o[0] for o in outcomes), "outcomes": outcomes, "violations": viol}


RUN_MC2 = "vf.checks.c03:run_mcp_two_tasks"


def run_mcp_two_tasks(ctl: explorer.Ctl, cfg: Dict[str, Any]) -> Dict[str, Any]:
    """Two tasks use ONE MCPClient: task A starts initialize(); task B starts `second` (initialize or an operation)
    while A's handshake is still waiting for the answer.  Every initialize request is answered after `delay` with
    `answer`.  Nobody may come out successfully unless a handshake really completed, and no operation goes on the
    wire before one did."""
    import asyncio

    from chuk_mcp.client.client import MCPClient
    from chuk_mcp.protocol.messages.json_rpc_message import parse_message
    from chuk_mcp.transports.base import Transport

    loop = new_loop(horizon=400)
    writes: List[tuple] = []
    st: Dict[str, Any] = {"handled": 0}

    class MemTransport(Transport):
        def __init__(self):
            super().__init__(None)

        async def get_streams(self):
            return st["recv_r"], st["w"]

        async def __aenter__(self):
            return self

        async def __aexit__(self, *a):
            return False

        def set_protocol_version(self, version):
            pass

    def idle(lp):
        while st["handled"] < len(writes):
            t, m = writes[st["handled"]]
            st["handled"] += 1
            d = m.model_dump(exclude_none=True) if hasattr(m, "model_dump") else {}
            rid = d.get("id")
            if d.get("method") == "initialize":
                how = cfg["answer"]
                if how == "ok":
                    wire = {"jsonrpc": "2.0", "id": rid, "result": {"protocolVersion": d["params"]["protocolVersion"], **CAPS}}
                elif how == "error":
                    wire = {"jsonrpc": "2.0", "id": rid, "error": {"code": -32603, "message": "boom"}}
                elif how == "mismatch":
                    wire = {"jsonrpc": "2.0", "id": rid, "result": {"protocolVersion": "1999-12-31", **CAPS}}
                elif how == "malformed":
                    wire = {"jsonrpc": "2.0", "id": rid, "result": {"capabilities": {}}}
                else:
                    wire = None
                if wire is not None:
                    lp.env_call_at(lp.time() + cfg["delay"], 0, st["send_r"].send_nowait, parse_message(wire))
            elif d.get("method") == "tools/list":
                st["send_r"].send_nowait(parse_message({"jsonrpc": "2.0", "id": rid, "result": {"tools": []}}))

    async def main():
        send_w, recv_w = anyio.create_memory_object_stream(math.inf)
        send_r, recv_r = anyio.create_memory_object_stream(math.inf)
        st["send_r"], st["recv_r"] = send_r, recv_r
        st["w"] = RecordingSend(send_w, writes, loop)
        client = MCPClient(MemTransport())
        results: Dict[str, Any] = {}

        async def run(name, what, start):
            if start:
                await asyncio.sleep(start)
            try:
                with anyio.fail_after(5.0):
                    if what == "initialize":
                        await client.initialize()
                    else:
                        await client.list_tools()
                results[name] = "returned"
            except BaseException as e:  # noqa: BLE001
                results[name] = "raised:" + type(e).__name__

        ta = asyncio.ensure_future(run("A", "initialize", 0))
        tb = asyncio.ensure_future(run("B", cfg["second"], cfg["offset"]))
        await ta
        await tb
        return results, bool(client.initialized)

    loop.idle_hook = idle
    status, val = loop.run_main(main())
    errors = loop.collect_errors()
    loop.abandon()
    viol: List[dict] = []
    if status != "ok":
        return {"outcome": status, "violations": [{"sig": {"class": "did-not-finish", "part": "mcpclient-two-tasks"}, "msg": f"cfg={cfg}: {status} {core.clean_repr(val)}"}]}
    results, inited = val
    completed = [t for t, m in writes if getattr(m, "method", None) == "notifications/initialized"]
    first_op = [t for t, m in writes if getattr(m, "method", None) == "tools/list"]
    wire = [getattr(m, "method", None) for _, m in writes]

    def bad(cls, msg, **extra):
        viol.append({"sig": {"class": cls, "part": "mcpclient-two-tasks", **extra}, "msg": f"cfg={cfg}: {msg} [results={results}; wire={wire}]"})

    if first_op and (not completed or first_op[0] < completed[0] - 1e-12):
        bad("operation-before-handshake", "tools/list was written although no handshake had completed")
    for name in ("A", "B"):
        if results.get(name) == "returned" and not completed:
            bad("returned-without-a-completed-handshake", f"task {name} came back normally although no initialize/initialized exchange ever completed",
                task="first" if name == "A" else "second-concurrent")
    # (whether two callers sharing one read stream both GET their answers is C18's subject - a recorded open finding -
    #  so success is not demanded here; only that nobody succeeds without a handshake)
    if cfg["answer"] != "ok" and completed:
        bad("initialized-sent-on-failure", f"{len(completed)} initialized notifications although every answer was {cfg['answer']}")
    if inited and not completed:
        bad("initialized-without-handshake", "the client reports initialized=True")
    if errors:
        bad("loop-error", f"{errors[:2]}")
    return {"outcome": f"{results.get('A')}/{results.get('B')}", "violations": viol}


# ---------------------------------------------------------------------------
# two handshakes overlapping in one process (separate connections)
# ---------------------------------------------------------------------------
RUN_CC = "vf.checks.c03:run_concurrent"


def run_concurrent(ctl: explorer.Ctl, cfg: Dict[str, Any]) -> Dict[str, Any]:
    import asyncio

    from chuk_mcp.protocol.messages.initialize.send_messages import send_initialize
    from chuk_mcp.protocol.messages.json_rpc_message import parse_message
    from chuk_mcp.protocol.types.errors import VersionMismatchError

    lists = cfg["lists"]
    answers = cfg["answers"]  # per connection: "own" | "other" | a literal version
    loop = new_loop(horizon=60)
    conns: List[Dict[str, Any]] = []
    st = {"answered": set()}

    def idle(lp):
        pending = [i for i, c in enumerate(conns) if c["writes"] and i not in st["answered"]]
        if len(pending) < len(conns) and len(st["answered"]) + len(pending) < len(conns):
            return  # wait until both requests are on the wire, so that the handshakes really overlap
        if not pending:
            return
        i = pending[ctl.choose(len(pending), "answer-which")] if len(pending) > 1 else pending[0]
        st["answered"].add(i)
        c = conns[i]
        req = c["writes"][0][1].model_dump(exclude_none=True)
        own = req["params"]["protocolVersion"]
        other = conns[1 - i]["writes"][0][1].model_dump(exclude_none=True)["params"]["protocolVersion"]
        v = {"own": own, "other": other}.get(answers[i], answers[i])
        c["answered_version"] = v
        c["send_r"].send_nowait(parse_message({"jsonrpc": "2.0", "id": req["id"], "result": {"protocolVersion": v, **CAPS}}))

    async def one(i):
        c = conns[i]
        try:
            r = await send_initialize(c["recv_r"], c["w"], timeout=T, supported_versions=list(lists[i]))
            c["outcome"] = ("ok", r.protocolVersion)
        except VersionMismatchError:
            c["outcome"] = ("version-mismatch", None)
        except BaseException as e:  # noqa: BLE001
            c["outcome"] = ("exception", type(e).__name__)

    async def main():
        for i in range(2):
            send_w, recv_w = anyio.create_memory_object_stream(math.inf)
            send_r, recv_r = anyio.create_memory_object_stream(math.inf)
            writes: List[tuple] = []
            conns.append({"send_r": send_r, "recv_r": recv_r, "writes": writes, "w": RecordingSend(send_w, writes, loop)})
        order = [0, 1] if cfg.get("start", 0) == 0 else [1, 0]
        await asyncio.gather(*[asyncio.ensure_future(one(i)) for i in order])

    loop.idle_hook = idle
    status, val = loop.run_main(main())
    errors = loop.collect_errors()
    loop.abandon()
    viol: List[dict] = []
    if status != "ok":
        return {"outcome": status, "violations": [{"sig": {"class": "did-not-finish", "part": "concurrent"},
                                                   "msg": f"cfg={cfg}: {status} {core.clean_repr(val)}"}]}
    for i, c in enumerate(conns):
        v = c.get("answered_version")
        notes = [w for _, w in c["writes"] if getattr(w, "method", None) == "notifications/initialized"]
        kind, got = c.get("outcome", ("none", None))
        if v in lists[i]:
            if kind != "ok" or got != v or len(notes) != 1:
                viol.append({"sig": {"class": "valid-answer-rejected", "part": "concurrent"},
                             "msg": f"cfg={cfg}: connection {i} offered {lists[i]}, server answered {v!r}: {kind} {got!r}, {len(notes)} initialized"})
        else:
            if kind == "ok":
                viol.append({"sig": {"class": "accepted-unoffered-version", "part": "concurrent"},
                             "msg": f"cfg={cfg}: connection {i} offered {lists[i]} but settled on {got!r} (the other connection proposed it)"})
            if notes:
                viol.append({"sig": {"class": "initialized-sent-on-failure", "part": "concurrent"},
                             "msg": f"cfg={cfg}: connection {i}: initialized sent although {v!r} was not offered"})
    if errors:
        viol.append({"sig": {"class": "loop-error"}, "msg": f"{errors[:2]}"})
    return {"outcome": "/".join(c.get("outcome", ("none",))[0] for c in conns), "violations": viol}


# ---------------------------------------------------------------------------
# the library's default list: what a caller does to a list it was handed must not change later handshakes
# ---------------------------------------------------------------------------
RUN_DEF = "vf.checks.c03:run_defaults"
LIST_MUTATIONS = ["insert-front", "append", "clear", "reverse", "replace-first", "pop-first"]


def _list_getters():
    """Public callables without required arguments that return a list of version strings (discovered)."""
    import inspect

    from chuk_mcp.protocol.messages.initialize import send_messages as sm
    from chuk_mcp.protocol.types import versioning as vs

    found = {}
    for mod in (sm, vs):
        for n, o in vars(mod).items():
            if n.startswith("_"):
                continue
            cands = []
            if inspect.isfunction(o):
                cands.append((f"{mod.__name__.split('.')[-1]}.{n}", o))
            elif inspect.isclass(o) and o.__module__.startswith("chuk_mcp"):
                for n2, o2 in vars(o).items():
                    if not n2.startswith("_") and isinstance(o2, (staticmethod, classmethod)):
                        cands.append((f"{o.__name__}.{n2}", getattr(o, n2)))
            for name, f in cands:
                try:
                    sig = inspect.signature(f)
                    if any(p.default is inspect.Parameter.empty and p.kind in (p.POSITIONAL_ONLY, p.POSITIONAL_OR_KEYWORD)
                           for p in sig.parameters.values()):
                        continue
                    r = f()
                except Exception:  # noqa: BLE001
                    continue
                if isinstance(r, list) and r and all(isinstance(x, str) for x in r):
                    found.setdefault(name.split(".")[-1] + "@" + name.split(".")[0], f)
    return dict(sorted(found.items()))


def run_defaults(ctl: explorer.Ctl, cfg: Dict[str, Any]) -> Dict[str, Any]:
    from chuk_mcp.protocol.messages.initialize.send_messages import send_initialize
    from chuk_mcp.protocol.messages.json_rpc_message import parse_message
    from chuk_mcp.protocol.types import versioning as vs
    from chuk_mcp.protocol.types.errors import NonRetryableError, RetryableError, VersionMismatchError

    getters = _list_getters()
    snapshot = list(vs.SUPPORTED_VERSIONS)
    shared_lists = [v for v in vars(vs).values() if isinstance(v, list)]
    loop = new_loop(horizon=4 * T + 5)
    writes: List[tuple] = []
    st: Dict[str, Any] = {"answered": False}
    viol: List[dict] = []
    try:
        # what the caller does before the handshake
        for name in cfg["getters"]:
            lst = getters[name]()
            m = cfg["mutation"]
            if m == "insert-front":
                lst.insert(0, "2099-01-01")
            elif m == "append":
                lst.append("2099-01-01")
            elif m == "clear":
                lst.clear()
            elif m == "reverse":
                lst.reverse()
            elif m == "replace-first":
                lst[0] = "2099-01-01"
            elif m == "pop-first":
                lst.pop(0)

        def idle(lp):
            if st["answered"] or not writes:
                return
            st["answered"] = True
            req = writes[0][1]
            proposed = (getattr(req, "params", None) or {}).get("protocolVersion")
            v = proposed if cfg["answer"] == "echo" else cfg["answer"]
            st["send_r"].send_nowait(parse_message({"jsonrpc": "2.0", "id": getattr(req, "id", None),
                                                    "result": {"protocolVersion": v, **CAPS}}))

        async def main():
            send_w, recv_w = anyio.create_memory_object_stream(math.inf)
            send_r, recv_r = anyio.create_memory_object_stream(math.inf)
            st["send_r"] = send_r
            w = RecordingSend(send_w, writes, loop)
            try:
                r = await send_initialize(recv_r, w, timeout=T)
                return ("ok", getattr(r, "protocolVersion", None))
            except VersionMismatchError:
                return ("version-mismatch", None)
            except TimeoutError:
                return ("timeout", None)
            except (RetryableError, NonRetryableError) as e:
                return ("rpc-error", getattr(e, "code", None))
            except BaseException as e:  # noqa: BLE001
                return ("exception", type(e).__name__)

        loop.idle_hook = idle
        status, val = loop.run_main(main())
        errors = loop.collect_errors()
        loop.abandon()
        changed = list(vs.SUPPORTED_VERSIONS) != snapshot
    finally:
        # whatever happened, later executions in this process start from the library's own list again
        for lst in shared_lists:
            pass
        if list(vs.SUPPORTED_VERSIONS) != snapshot:
            vs.SUPPORTED_VERSIONS[:] = snapshot
    if status != "ok":
        return {"outcome": status, "violations": [{"sig": {"class": "did-not-finish", "part": "defaults"}, "msg": f"cfg={cfg}: {status} {core.clean_repr(val)}"}]}
    okind, oval = val
    wd = [m.model_dump(exclude_none=True) for _, m in writes]
    inits = [w_ for w_ in wd if w_.get("method") == "initialize"]
    notes = [w_ for w_ in wd if w_.get("method") == "notifications/initialized"]
    proposed = (inits[0].get("params") or {}).get("protocolVersion") if inits else None

    def bad(cls, msg):
        viol.append({"sig": {"class": cls, "part": "defaults", "mutation": cfg["mutation"]},
                     "msg": f"cfg={cfg}: {msg} [outcome={okind} {oval!r}; proposed {proposed!r}; library list {snapshot}]"})

    if changed:
        bad("library-default-list-changed-by-caller", "the library's own supported-version list changed after the caller modified a list it was handed")
    if proposed != snapshot[0]:
        bad("wrong-proposal", f"a handshake with default arguments proposed {proposed!r}, the library's first supported version is {snapshot[0]!r}")
    answered = proposed if cfg["answer"] == "echo" else cfg["answer"]
    if answered in snapshot:
        if okind != "ok" or oval != answered or len(notes) != 1:
            bad("valid-answer-rejected", f"answer {answered!r} is in the default list")
    else:
        if okind == "ok":
            bad("accepted-unoffered-version", f"answer {answered!r} is not in the library's default list")
        if notes:
            bad("initialized-sent-on-failure", f"{len(notes)} initialized notifications")
    if errors:
        bad("loop-error", f"{errors[:2]}")
    return {"outcome": okind, "violations": viol}


def defaults_configs():
    names = list(_list_getters())
    out = []
    subsets = [[n] for n in names] + ([names] if len(names) > 1 else []) + [[]]
    for g in subsets:
        for m in (LIST_MUTATIONS if g else ["insert-front"]):
            for a in ("echo", "2099-01-01", "2025-03-26"):
                out.append({"getters": g, "mutation": m, "answer": a})
    return out, names


# ---------------------------------------------------------------------------
# the stdio entry points that take the caller's version list and run the handshake themselves
# ---------------------------------------------------------------------------
RUN_EP = "vf.checks.c03:run_entry_points"


def run_entry_points(ctl: explorer.Ctl, cfg: Dict[str, Any]) -> Dict[str, Any]:
    """cfg: entry ('transports.stdio' context manager | 'mcp_client' compatibility generator), list, pref, answer
    ('echo' or a version).  A scripted child answers the initialize request; judged like any handshake."""
    import json

    from chuk_mcp.protocol.types.errors import NonRetryableError, RetryableError, VersionMismatchError

    sup, pref = cfg["list"], cfg["pref"]
    if cfg["entry"] == "StdioTransport+MCPClient":  # takes no list: the documented default list, no preference
        from chuk_mcp.protocol.types import versioning as _vs
        sup, pref = list(_vs.SUPPORTED_VERSIONS), None
    loop = new_loop(horizon=60)
    proc = seams.FakeProcess()
    seen: List[dict] = []
    buf = {"b": b""}

    def on_stdin(data: bytes):
        buf["b"] += data
        while b"\n" in buf["b"]:
            line, buf["b"] = buf["b"].split(b"\n", 1)
            try:
                d = json.loads(line.decode("utf-8"))
            except Exception:  # noqa: BLE001
                continue
            seen.append(d)
            if d.get("method") == "initialize":
                proposed = (d.get("params") or {}).get("protocolVersion")
                v = proposed if cfg["answer"] == "echo" else cfg["answer"]
                ans = {"jsonrpc": "2.0", "id": d.get("id"), "result": {"protocolVersion": v, **CAPS}}
                fr = cfg.get("framing", "line")
                if fr == "line":
                    wire = ans
                else:  # the answer as a member of a JSON-RPC batch (no version is known yet, so batches are accepted)
                    k = int(fr.split("+")[1]) if "+" in fr else 0
                    trail = [{"jsonrpc": "2.0", "method": "notifications/message",
                              "params": {"level": "info", "data": f"n{i}"}} for i in range(k)]
                    wire = (trail[:1] + [ans] + trail[1:]) if fr.startswith("mid") else [ans] + trail
                proc.stdout.feed((json.dumps(wire) + "\n").encode())

    proc.on_stdin = on_stdin
    q = seams.Quiescence(loop)

    from chuk_mcp.transports.stdio.stdio_client import StdioClient as _SC

    clients: List[Any] = []
    tracked: Dict[str, Any] = {}
    orig_init = _SC.__init__

    def rec_init(self, *a, **k):
        orig_init(self, *a, **k)
        clients.append(self)

    def snapshot(when):
        # what the connection object the handshake tracks says the instant the caller has the result
        tracked[when] = [(c.get_protocol_version(), c.is_batching_enabled()) for c in clients]

    async def main():
        kw = {"timeout": 2.0, "supported_versions": list(sup), "preferred_version": pref}
        with seams.patched_open_process(lambda cmd, k: proc):
            try:
                if cfg["entry"] == "transports.stdio":
                    from chuk_mcp.transports.stdio.stdio_client import stdio_client_with_initialize

                    async with stdio_client_with_initialize(seams.stdio_params(), **kw) as (r, w, init):
                        snapshot("at-return")
                        await q.settle()
                        return ("ok", getattr(init, "protocolVersion", None))
                elif cfg["entry"] == "StdioTransport+MCPClient":
                    from chuk_mcp.client.client import MCPClient
                    from chuk_mcp.transports.stdio.transport import StdioTransport

                    t = StdioTransport(seams.stdio_params())
                    async with t:
                        c = MCPClient(t)
                        init = await c.initialize()
                        snapshot("at-return")
                        await q.settle()
                        return ("ok", getattr(init, "protocolVersion", None))
                else:
                    from chuk_mcp import mcp_client

                    agen = mcp_client.stdio_client_with_initialize(seams.stdio_params(), **kw)
                    try:
                        r, w, init = await agen.__anext__()
                        snapshot("at-return")
                        await q.settle()
                        return ("ok", getattr(init, "protocolVersion", None))
                    finally:
                        await agen.aclose()
            except VersionMismatchError:
                return ("version-mismatch", None)
            except TimeoutError:
                return ("timeout", None)
            except (RetryableError, NonRetryableError) as e:
                return ("rpc-error", getattr(e, "code", None))
            except BaseException as e:  # noqa: BLE001
                return ("exception", type(e).__name__)

    _SC.__init__ = rec_init
    try:
        status, val = loop.run_main(main())
    finally:
        _SC.__init__ = orig_init
    errors = loop.collect_errors()
    loop.abandon()
    if status != "ok":
        return {"outcome": status, "violations": [{"sig": {"class": "did-not-finish", "part": "entry-points"}, "msg": f"cfg={cfg}: {status} {core.clean_repr(val)}"}]}
    okind, oval = val
    viol: List[dict] = []
    inits = [d for d in seen if d.get("method") == "initialize"]
    notes = [d for d in seen if d.get("method") == "notifications/initialized"]
    proposed = (inits[0].get("params") or {}).get("protocolVersion") if inits else None
    want = pref if (pref is not None and pref in sup) else sup[0]

    def bad(cls, msg):
        viol.append({"sig": {"class": cls, "part": "entry-points", "entry": cfg["entry"]},
                     "msg": f"cfg={cfg}: {msg} [outcome={okind} {oval!r}; proposed {proposed!r}]"})

    if len(inits) != 1:
        bad("initialize-count", f"{len(inits)} initialize requests reached the child")
    elif proposed != want:
        bad("wrong-proposal", f"proposed {proposed!r}, the caller's list and preference call for {want!r}")
    answered = proposed if cfg["answer"] == "echo" else cfg["answer"]
    if inits and answered in sup:
        if okind != "ok" or oval != answered:
            bad("valid-answer-rejected", f"answer {answered!r} is in the caller's list")
        elif len(notes) != 1:
            bad("initialized-count", f"{len(notes)} initialized notifications on success")
        else:
            # the tracked connection object: version and batching mode of the agreed version, when the call returns
            want_state = (answered, answered < "2025-06-18")
            got = tracked.get("at-return")
            import re as _re
            if not _re.fullmatch(r"\d{4}-\d{2}-\d{2}", answered or ""):
                # an invented revision name that is no date: which batching mode belongs to it is not defined; the version is
                got = [(g[0], want_state[1]) for g in (got or [])]
            if not got:
                raise core.HarnessError(f"no connection object observed for {cfg}")
            if any(g != want_state for g in got):
                bad("tracked-connection-not-on-the-agreed-version-at-return",
                    f"the connection object says (version, batching) = {got}, the agreed version calls for {want_state}")
    elif inits:
        if okind == "ok":
            bad("accepted-unoffered-version", f"answer {answered!r} is not in the caller's list {sup}")
        if notes:
            bad("initialized-sent-on-failure", f"{len(notes)} initialized notifications")
    if errors:
        bad("loop-error", f"{errors[:2]}")
    return {"outcome": okind, "violations": viol}


RUN_LATE = "vf.checks.c03:run_late_answer"


def run_late_answer(ctl: explorer.Ctl, cfg: Dict[str, Any]) -> Dict[str, Any]:
    """Handshake 1 is abandoned (times out); the server's answer to it arrives afterwards; handshake 2 on the SAME
    streams must be decided by the answer to ITS request only."""
    from chuk_mcp.protocol.messages.initialize.send_messages import (send_initialize,
                                                                     send_initialize_with_client_tracking)
    from chuk_mcp.protocol.messages.json_rpc_message import parse_message
    from chuk_mcp.protocol.types.errors import NonRetryableError, RetryableError, VersionMismatchError
    from chuk_mcp.transports.stdio.stdio_client import StdioClient

    loop = new_loop(horizon=30)
    writes: List[tuple] = []
    st: Dict[str, Any] = {"phase": 1, "answered2": False}
    client = StdioClient(seams.stdio_params()) if cfg["tracked"] else None
    viol: List[dict] = []

    def answer_to(req, v):
        return parse_message({"jsonrpc": "2.0", "id": getattr(req, "id", None), "result": {"protocolVersion": v, **CAPS}})

    def idle(lp):
        inits = [m for _, m in writes if getattr(m, "method", None) == "initialize"]
        if st["phase"] == 2 and len(inits) >= 2 and not st["answered2"]:
            st["answered2"] = True
            req2 = inits[1]
            proposed2 = (getattr(req2, "params", None) or {}).get("protocolVersion")
            v2 = proposed2 if cfg["v2"] == "echo" else cfg["v2"]
            st["v2"] = v2

            def deliver2():
                st["t_answer2"] = lp.time()
                st["send_r"].send_nowait(answer_to(req2, v2))
            if cfg["delay2"]:
                lp.env_call_at(lp.time() + cfg["delay2"], 0, deliver2)
            else:
                lp.call_soon(deliver2)

    async def one(sup, pref, timeout):
        kw = {"timeout": timeout, "supported_versions": list(sup), "preferred_version": pref}
        try:
            if client is not None:
                r = await send_initialize_with_client_tracking(st["recv_r"], st["w"], client=client, **kw)
            else:
                r = await send_initialize(st["recv_r"], st["w"], **kw)
            return ("ok", getattr(r, "protocolVersion", None))
        except VersionMismatchError:
            return ("version-mismatch", None)
        except TimeoutError:
            return ("timeout", None)
        except (RetryableError, NonRetryableError) as e:
            return ("rpc-error", getattr(e, "code", None))
        except BaseException as e:  # noqa: BLE001
            return ("exception", type(e).__name__)

    async def main():
        send_w, recv_w = anyio.create_memory_object_stream(math.inf)
        send_r, recv_r = anyio.create_memory_object_stream(math.inf)
        st["send_r"], st["recv_r"] = send_r, recv_r
        st["w"] = RecordingSend(send_w, writes, loop)
        if cfg.get("first") == "ok":
            # the first handshake is answered in time and completes; the second one re-initialises the same connection
            async def answer_first():
                import asyncio as _a
                while not [m for _, m in writes if getattr(m, "method", None) == "initialize"]:
                    await _a.sleep(0.01)
                req = [m for _, m in writes if getattr(m, "method", None) == "initialize"][0]
                send_r.send_nowait(answer_to(req, (getattr(req, "params", None) or {}).get("protocolVersion")))
            import asyncio as _a2
            t_ans = _a2.ensure_future(answer_first())
            r1 = await one(cfg["list1"], None, 0.3)
            await t_ans
        else:
            r1 = await one(cfg["list1"], None, 0.3)
            # the abandoned handshake's answer arrives now (0, 1 or 2 copies)
            inits = [m for _, m in writes if getattr(m, "method", None) == "initialize"]
            for _ in range(cfg["late_copies"]):
                send_r.send_nowait(answer_to(inits[0], cfg["v1"]))
        st["n_writes_before_2"] = len(writes)
        st["phase"] = 2
        r2 = await one(cfg["list2"], cfg["pref2"], 1.0)
        return r1, r2

    loop.idle_hook = idle
    status, val = loop.run_main(main())
    errors = loop.collect_errors()
    loop.abandon()
    if status != "ok":
        return {"outcome": status, "violations": [{"sig": {"class": "did-not-finish", "part": "late-answer"}, "msg": f"cfg={cfg}: {status} {core.clean_repr(val)}"}]}
    (k1, v1), (k2, v2got) = val

    def bad(cls, msg):
        viol.append({"sig": {"class": cls, "part": "late-answer"}, "msg": f"cfg={cfg}: {msg} [first: {k1}; second: {k2} {v2got!r}]"})

    if cfg.get("first") == "ok":
        if k1 != "ok":
            bad("valid-answer-rejected", "the first handshake was answered with its own proposal")
    elif k1 != "timeout":
        bad("first-handshake-not-abandoned", "the silent first handshake must time out")
    sup2 = cfg["list2"]
    want2 = cfg["pref2"] if (cfg["pref2"] is not None and cfg["pref2"] in sup2) else sup2[0]
    w2 = [(t, m.model_dump(exclude_none=True)) for t, m in writes[st["n_writes_before_2"]:]]
    inits2 = [w for _, w in w2 if w.get("method") == "initialize"]
    notes2 = [(t, w) for t, w in w2 if w.get("method") == "notifications/initialized"]
    if len(inits2) != 1 or (inits2[0].get("params") or {}).get("protocolVersion") != want2:
        bad("wrong-proposal", f"second handshake wrote {inits2}")
    v2 = st.get("v2")
    if v2 in sup2:
        if k2 != "ok" or v2got != v2:
            bad("decided-by-another-requests-answer", f"the server answered the second request with {v2!r}")
        elif len(notes2) != 1:
            bad("initialized-count", f"{len(notes2)} initialized notifications")
        elif st.get("t_answer2") is None or notes2[0][0] < st["t_answer2"] - 1e-12:
            bad("initialized-before-the-answer", f"initialized written at {notes2[0][0]}, the answer to this handshake arrived at {st.get('t_answer2')}")
        if client is not None and k2 == "ok":
            info = client.get_batching_info()
            if info.get("protocol_version") != v2 or bool(info.get("batching_enabled")) != (v2 < "2025-06-18"):
                bad("tracked-client-mode", f"batching info {info}, the server settled on {v2!r}")
    else:
        if k2 == "ok":
            bad("accepted-unoffered-version", f"the server answered the second request with {v2!r}, not in {sup2}")
        if notes2:
            bad("initialized-sent-on-failure", f"{len(notes2)} initialized notifications")
    if errors:
        bad("loop-error", f"{errors[:2]}")
    return {"outcome": f"{k1}/{k2}", "violations": viol}


def late_configs():
    out = []
    for v1 in ("2025-06-18", "2025-03-26", "1999-12-31"):
        for list2, pref2 in ((["2025-06-18", "2025-03-26"], "2025-03-26"), (["2025-03-26", "2025-06-18"], None),
                             (["2024-11-05"], None), (["2025-06-18", "2025-03-26", "2024-11-05"], "2024-11-05")):
            for v2 in ("echo", "2025-06-18", "2025-03-26", "1999-12-31"):
                for copies in (1, 2):
                    for delay2 in (0, 0.2):
                        for tr in (False, True):
                            out.append({"list1": ["2025-06-18", "2025-03-26"], "v1": v1, "list2": list2, "pref2": pref2,
                                        "v2": v2, "late_copies": copies, "delay2": delay2, "tracked": tr})
                            if v1 == "2025-06-18" and copies == 1:
                                out.append({"first": "ok", "list1": ["2025-06-18", "2025-03-26"], "v1": v1, "list2": list2,
                                            "pref2": pref2, "v2": v2, "late_copies": 0, "delay2": delay2, "tracked": tr})
    return out


def run(tier: str, only=None) -> core.Result:
    res = core.Result("C03", "model_checking")
    ls = lists(2 if tier == "quick" else 3)
    cfgs = []
    for li, sup in enumerate(ls):
        for pref in PREFERRED:
            for ai in range(len(ANSWERS)):
                # answer times and distractor: full product for the short lists, reduced for length 3
                times = TIMES if (len(sup) <= 2 or tier == "thorough") else ["now"]
                for when in (times if ANSWERS[ai]["kind"] != "silence" else ["now"]):
                    for d in (False, True):
                        for tr in (False, True):
                            cfgs.append({"list": sup, "pref": pref, "answer": ai, "when": when, "distractor": d, "tracked": tr})
                # a tracked client that is re-initialised: it still carries the version of its previous handshake
                if pref is None and ANSWERS[ai]["kind"] in ("version", "silence", "error"):
                    for preset in sorted({sup[-1], sup[0], "1999-12-31", "2024-11-05", "2025-06-18"}):
                        for re in (None, "preset-then-connect", "second-connection"):
                            cfgs.append({"list": sup, "pref": pref, "answer": ai, "when": "now", "distractor": False,
                                         "tracked": True, "preset": preset, "reenter": re})
                # the peer disappears right after answering
                if len(sup) <= 2 and ANSWERS[ai]["kind"] in ("version", "version-fragment", "version-extras"):
                    for tr in (False, True):
                        for when in ("now", "poll-tie-after"):
                            cfgs.append({"list": sup, "pref": pref, "answer": ai, "when": when, "distractor": False,
                                         "tracked": tr, "write": "peer-closes"})
                # slow peer: unbuffered write stream whose consumer stalls after taking the request
                if len(sup) == 1 and ANSWERS[ai]["kind"] in ("version", "version-fragment"):
                    for stall in (0.5 * T, 2.5 * T):
                        for tr in (False, True):
                            cfgs.append({"list": sup, "pref": pref, "answer": ai, "when": "now", "distractor": False,
                                         "tracked": tr, "write": "unbuffered-stall", "stall": stall})
    out = explorer.explore(RUN, cfgs, fidelity=True)
    sched.absorb(res, f"grid-lists<={2 if tier == 'quick' else 3}", RUN, out, cfgs)
    mc = [{"ops": list(c)} for n in ((1, 2, 3) if tier == "quick" else (1, 2, 3, 4)) for c in itertools.product(MC_OPS, repeat=n)
          if not (tier == "quick" and n == 3 and c[-1] != "op")]
    out = explorer.explore(RUN_MC, mc, fidelity=True)
    sched.absorb(res, "mcpclient-sequences", RUN_MC, out, mc)
    sched.debug_pass(res, "mcpclient-sequences", RUN_MC, mc, every=3)
    mc2 = [{"answer": a, "second": sec, "offset": off, "delay": d}
           for a in ("ok", "error", "mismatch", "malformed")
           for sec in ("initialize", "op") for off in (0.0, 0.05, 0.19) for d in (0.2, 0.6)]
    out = explorer.explore(RUN_MC2, mc2, fidelity=True)
    sched.absorb(res, "mcpclient-two-tasks-one-client", RUN_MC2, out, mc2)
    sched.debug_pass(res, "grid", RUN, cfgs, every=37)
    vs = ["2025-06-18", "2025-03-26", "2024-11-05", "2099-01-01"]
    cc = []
    for l0 in ([vs[0]], [vs[1], vs[0]], [vs[3]]):
        for l1 in ([vs[2]], [vs[1]], [vs[0], vs[2]]):
            for a0 in ("own", "other", "1999-12-31"):
                for a1 in ("own", "other"):
                    for start in (0, 1):
                        cc.append({"lists": [l0, l1], "answers": [a0, a1], "start": start})
    out = explorer.explore(RUN_CC, cc, fidelity=True)
    sched.absorb(res, "two-overlapping-handshakes", RUN_CC, out, cc)
    ep = [{"entry": e, "list": sup, "pref": pref, "answer": a}
          for e in ("transports.stdio", "mcp_client")
          for sup in (["2025-06-18"], ["2024-11-05"], ["2025-03-26", "2024-11-05"], ["2099-01-01", "2025-03-26"], ["2024-11-05", "2025-06-18"])
          for pref in (None, sup[-1], "2025-06-18", "1999-12-31")
          for a in ("echo", "2025-06-18", "2024-11-05", "1999-12-31")]
    # the caller's universe need not consist of dates: invented revision names, alone or mixed with real ones
    ep += [{"entry": e, "list": sup, "pref": pref, "answer": a}
           for e in ("transports.stdio", "mcp_client")
           for sup in (["draft-7"], ["draft-7", "draft-6"], ["v2"], ["2025-06-18", "draft-7"], ["draft-7", "2024-11-05"], ["20250618"], [" 2025-06-18"])
           for pref in (None, sup[-1], "2025-06-18")
           for a in ("echo", "draft-6", "2025-06-18", "2024-11-05", "2025-03-26")]
    ep += [{"entry": e, "list": sup, "pref": None, "answer": a, "framing": fr}
           for e in ("transports.stdio", "mcp_client", "StdioTransport+MCPClient")
           for sup in (["2025-06-18", "2024-11-05"], ["2025-03-26"])
           for a in ("echo", "2024-11-05", "1999-12-31")
           for fr in (["line", "batch", "batch+1", "batch+3", "mid+2", "batch+150"] if tier == "quick" else
                      ["line", "batch"] + [f"batch+{k}" for k in (1, 2, 3, 5, 99, 100, 101, 150, 400)] + [f"mid+{k}" for k in (1, 2, 5, 150)])]
    out = explorer.explore(RUN_EP, ep, fidelity=True)
    sched.absorb(res, "stdio-entry-points-taking-the-callers-list", RUN_EP, out, ep)
    lc = late_configs()
    out = explorer.explore(RUN_LATE, lc, fidelity=True)
    sched.absorb(res, "second-handshake-after-an-abandoned-one-whose-answer-arrives-late", RUN_LATE, out, lc)
    dc, gnames = defaults_configs()
    if len(gnames) < 1:
        res.harness_errors.append("[defaults] no public getter returning the supported-version list was discovered")
    out = explorer.explore(RUN_DEF, dc, fidelity=True)
    sched.absorb(res, "default-list-after-the-caller-modified-what-it-was-handed", RUN_DEF, out, dc)
    res.coverage["list_getters_discovered"] = gnames
    res.coverage["exhaustive"] = True
    res.coverage["rule"] = (
        f"all {len(ls)} non-empty repetition-free ordered supported lists of length <= {2 if tier == 'quick' else 3} over "
        f"U={U} x preferred in U+{{None,'not-in-U'}} x {len(ANSWERS)} server answers (each version of U, extras, 8 malformed "
        "results, 18 JSON-RPC errors incl. -32602 with/without the phrase 'protocol version', silence) x answer time "
        "{immediately, tie with the 0.5 s poll, 1 us before the deadline} x distractor notification x tracked client"
    )
    res.assumptions = [
        "which of RetryableError/NonRetryableError a code maps to belongs to C07; here only 'classified error carrying the code'",
        "a malformed result must make initialization fail with some exception (the statement does not name the type)",
    ]
    return res
