"""C13 - batches are accepted exactly for protocol versions older than 2025-06-18.

(a) decision function, E-INPUT: every string dddd-dd-dd with year 1990..2199
    (one block per year, 10^4 strings each): ``supports_batching`` against an
    independent date comparison, against the library's own
    ``ProtocolVersion.compare``, monotone with one switch point, and the
    ``BatchProcessor`` constructor / ``update_protocol_version`` agreeing with it.
(b) transport behaviour, E-STATE: the real ``StdioClient`` over the scripted child
    process on the virtual loop.  Every sequence of operations over
    {set_protocol_version(v), deliver a single message, deliver a batch line}
    up to the stated depth is executed on a fresh client and every step is
    compared with a reference model whose only state is the negotiated version.
(c) the same after a real handshake (``send_initialize_with_client_tracking``),
    and a table of invalid member forms.
"""
from __future__ import annotations

import datetime
import itertools
import json
from typing import Any, Dict, List, Optional

from .. import core, explorer, sched, seams
from ..jsonrpc_ref import classify, strict_eq
from ..vloop import new_loop

RUN = "vf.checks.c13:run_one"

CUTOFF = "2025-06-18"
CUT = (2025, 6, 18)
YEARS = (1990, 2199)
SUPPORTED_PINNED = ["2025-06-18", "2025-03-26", "2024-11-05"]
# a version list an application may pass as supported_versions: library revisions, neighbours of the cut-off, older and newer ones
CALLER_VERSIONS = ["2025-03-26", "2025-06-18", "2025-06-17", "2025-06-19", "2025-11-25", "2024-01-01", "2031-01-01"]
VERSIONS = SUPPORTED_PINNED + ["2025-06-17", "2025-06-19"]


def ref_accepts(v: Optional[str]) -> bool:
    """Independent reference: no version, or a date strictly before the cut-off."""
    if v is None or v == "":
        return True
    y, m, d = v.split("-")
    return (int(y), int(m), int(d)) < CUT


# --- operation alphabet -----------------------------------------------------------------------
KINDS = "RNX"  # valid response, valid notification, invalid item
J = {"jsonrpc": "2.0"}
INVALID_ROTATION = [42, {"jsonrpc": "2.0"}, {"jsonrpc": "2.0", "id": 7}, "str"]


def _batches(lo: int, hi: int) -> List[list]:
    out = []
    for n in range(lo, hi + 1):
        for combo in itertools.product(KINDS, repeat=n):
            out.append(["b", "".join(combo)])
    return out


OPS_SMALL: List[list] = [["v", i] for i in range(len(VERSIONS))] + [["s", "R"], ["s", "N"]] + _batches(0, 2)
OPS_FULL: List[list] = OPS_SMALL + _batches(3, 4)


def op_name(op) -> str:
    if op[0] == "v":
        return "set:" + VERSIONS[op[1]]
    if op[0] == "s":
        return "single:" + op[1]
    return "batch:[" + op[1] + "]"


def member(kind: str, step: int, pos: int) -> Any:
    if kind == "R":
        rid: Any = (step * 10 + pos) if pos % 2 == 0 else f"r{step}-{pos}"
        return {**J, "id": rid, "result": {"step": step, "pos": pos, "n": None}}
    if kind == "N":
        return {**J, "method": "notifications/message", "params": {"step": step, "pos": pos, "n": None}}
    return INVALID_ROTATION[pos % len(INVALID_ROTATION)]


def line_for(op, step: int) -> Any:
    if op[0] == "s":
        return member(op[1], step, 0)
    return [member(k, step, i) for i, k in enumerate(op[1])]


# invalid member forms for part (c); every one is rejected by the independent envelope reference
INVALID_FORMS = [
    ("null", None), ("true", True), ("number", 42), ("string", "s"), ("empty-object", {}),
    ("only-jsonrpc", {"jsonrpc": "2.0"}), ("id-only", {"jsonrpc": "2.0", "id": 7}),
    ("null-id-result", {"jsonrpc": "2.0", "id": None, "result": {}}),
    ("result-and-error", {"jsonrpc": "2.0", "id": 2, "result": {}, "error": {"code": 1, "message": "x"}}),
    ("fractional-id", {"jsonrpc": "2.0", "id": 1.5, "result": {}}),
    ("numeric-method", {"jsonrpc": "2.0", "method": 5}),
    ("error-not-object", {"jsonrpc": "2.0", "id": 2, "error": "boom"}),
    ("id-array", {"jsonrpc": "2.0", "id": [1], "result": {}}), ("id-object", {"jsonrpc": "2.0", "id": {"a": 1}, "method": "m"}),
    ("params-scalar", {"jsonrpc": "2.0", "method": "m", "params": 5}),
    ("error-array", {"jsonrpc": "2.0", "id": 2, "error": [1]}), ("result-and-error-string", {"jsonrpc": "2.0", "id": 3, "result": 1, "error": "x"}),
    ("nested-empty-array", []),
    ("nested-array-of-response", [{"jsonrpc": "2.0", "id": 9, "result": {}}]),
]


# forms that one of the validation backends coerces instead of rejecting (true -> 1, 1.5 -> "1.5", 5 -> "5"): which members a backend
# accepts is C09's subject; they are used only where the library's own parser is asked first (parser_decides)
COERCIBLE_FORMS = [("id-boolean", {"jsonrpc": "2.0", "id": True, "result": {}})]


# ---------------------------------------------------------------------------
# (a) decision function
# ---------------------------------------------------------------------------
def _run_grid(cfg) -> Dict[str, Any]:
    from chuk_mcp.protocol.features import batching as B
    from chuk_mcp.protocol.types.versioning import ProtocolVersion

    y = cfg["year"]
    viol: List[dict] = []
    cnt = {"strings": 0, "calendar_dates": 0, "non_calendar": 0, "compare_defined": 0, "compare_undefined": 0,
           "accepting": 0, "rejecting": 0, "switches": 0, "processor_checks": 0}
    walker = B.BatchProcessor(None)
    prev = None
    seen_sig = set()
    # the other decision entry points (deprecated wrappers, BatchProcessor methods)
    entry = bool(cfg.get("entry"))
    import warnings

    legacy = [("batching._supports_batch_processing", getattr(B, "_supports_batch_processing", None))]
    if entry:
        import importlib

        SC = importlib.import_module("chuk_mcp.transports.stdio.stdio_client")  # the package also exports a function of that name
        legacy.append(("stdio_client._supports_batch_processing", getattr(SC, "_supports_batch_processing", None)))
    legacy = [(n, f) for n, f in legacy if callable(f)]
    cnt["legacy_wrapper_calls"] = 0
    called: List[Any] = []

    def handler(item):
        called.append(item)
        return None

    def bad(cls, msg, **extra):
        key = (cls, tuple(sorted(extra.items())))
        if key in seen_sig and len(viol) >= 6:
            return
        seen_sig.add(key)
        if len(viol) < 12:
            viol.append({"sig": {"class": cls, **extra}, "msg": msg})

    for m in range(cfg.get("m0", 0), cfg.get("m1", 100)):
        for d in range(100):
            v = f"{y:04d}-{m:02d}-{d:02d}"
            cnt["strings"] += 1
            try:
                datetime.date(y, m, d)
                cnt["calendar_dates"] += 1
                cal = "calendar"
            except ValueError:
                cnt["non_calendar"] += 1
                cal = "non-calendar"
            try:
                s = B.supports_batching(v)
            except BaseException as e:  # noqa: BLE001
                bad("decision-raised", f"supports_batching({v!r}) raised {e!r}", date=cal)
                continue
            if s is not True and s is not False:
                bad("decision-not-boolean", f"supports_batching({v!r}) = {s!r}", date=cal)
                continue
            cnt["accepting" if s else "rejecting"] += 1
            exp = (y, m, d) < CUT
            if s != exp:
                bad("decision-wrong-side-of-cutoff",
                    f"supports_batching({v!r}) = {s}, but {v} is {'older than' if exp else 'not older than'} {CUTOFF}",
                    date=cal, expected="accept" if exp else "reject")
            try:
                c = ProtocolVersion.compare(v, CUTOFF)
                cnt["compare_defined"] += 1
                if s != (c < 0):
                    bad("disagrees-with-version-ordering",
                        f"supports_batching({v!r}) = {s} but ProtocolVersion.compare({v!r}, {CUTOFF!r}) = {c}", date=cal)
            except ValueError:
                cnt["compare_undefined"] += 1
            if prev is not None and prev != s:
                cnt["switches"] += 1
                cnt["switch@" + v] = 1
                if s and not prev:
                    bad("not-monotone", f"decision goes back to accepting at {v}", date=cal)
            prev = s
            # the processor derives its mode from the function
            fresh = B.BatchProcessor(v)
            walker.update_protocol_version(v)
            opposite = B.BatchProcessor("2025-06-18" if s else "2024-11-05")
            opposite.update_protocol_version(v)
            cnt["processor_checks"] += 3
            for nm, p in (("constructor", fresh), ("update-in-sequence", walker), ("update-from-opposite-mode", opposite)):
                if p.batching_enabled is not s or p.protocol_version != v:
                    bad("processor-disagrees-with-function",
                        f"BatchProcessor via {nm}: batching_enabled={p.batching_enabled} protocol_version={p.protocol_version!r}, "
                        f"supports_batching({v!r}) = {s}", via=nm)
            if B.should_reject_batch(v, []) is not (not s) or B.should_reject_batch(v, {}) is not False:
                bad("should-reject-batch-disagrees", f"should_reject_batch({v!r}, ...) inconsistent with supports_batching = {s}")
            if entry:
                cnt["entry_point_checks"] = cnt.get("entry_point_checks", 0) + 1
                with warnings.catch_warnings():
                    warnings.simplefilter("ignore")
                    for nm, f in legacy:
                        cnt["legacy_wrapper_calls"] += 1
                        try:
                            r = f(v)
                        except BaseException as e:  # noqa: BLE001
                            r = repr(e)
                        if r is not s:
                            bad("entry-point-disagrees-with-function", f"{nm}({v!r}) = {r!r}, supports_batching = {s}", via=nm)
                for nm, p in (("constructor", fresh), ("update-from-opposite-mode", opposite)):
                    if p.can_process_batch([]) is not s or p.can_process_batch([{"x": 1}]) is not s or p.can_process_batch({"x": 1}) is not True:
                        bad("entry-point-disagrees-with-function",
                            f"BatchProcessor({nm}).can_process_batch disagrees with supports_batching({v!r}) = {s}", via="can_process_batch")
                    del called[:]
                    out1 = p.process_message_data([{"jsonrpc": "2.0", "method": "n"}], handler)
                    routed = len(called)
                    out0 = p.process_message_data([], handler)
                    single = p.process_message_data({"jsonrpc": "2.0", "method": "n"}, handler)
                    ok = (routed == 1 and out1 is None and out0 is None) if s else \
                        (routed == 0 and isinstance(out1, dict) and out1.get("error", {}).get("code") == -32600
                         and isinstance(out0, dict) and out0.get("error", {}).get("code") == -32600)
                    if not ok or single is not None or len(called) != routed + 1:
                        bad("entry-point-disagrees-with-function",
                            f"BatchProcessor({nm}).process_message_data at {v!r}: handler calls {routed}, batch -> {str(out1)[:80]}, "
                            f"[] -> {str(out0)[:60]}, single routed {len(called) - routed}; supports_batching = {s}", via="process_message_data")
    if cnt["accepting"] and cnt["rejecting"]:
        out = "year-with-switch"
    else:
        out = "all-accepting" if cnt["accepting"] else "all-rejecting"
    return {"outcome": out, "violations": viol, "counters": cnt, "year": y}


SPECIALS_JUDGED = [None, ""]
SPECIALS_RECORDED = ["2025-6-18", "2025-06-18\n", " 2025-06-18", "２０２５-06-18", "latest", "2025-06",
                     "2025-06-18-01", "20250618", "2025/06/18", "2025-06-1８", "-2025-06-18", "2025-06-18 "]


def _run_specials(cfg) -> Dict[str, Any]:
    from chuk_mcp.protocol.features import batching as B

    viol = []
    cnt: Dict[str, int] = {}
    for v in SPECIALS_JUDGED:
        try:
            s = B.supports_batching(v)
        except BaseException as e:  # noqa: BLE001
            s = repr(e)
        if s is not True:
            viol.append({"sig": {"class": "no-version-not-accepting", "version": repr(v)},
                         "msg": f"supports_batching({v!r}) = {s!r}; with no negotiated version batches must be accepted"})
        p = B.BatchProcessor(v)
        if p.batching_enabled is not True:
            viol.append({"sig": {"class": "no-version-not-accepting", "version": repr(v), "via": "BatchProcessor"},
                         "msg": f"BatchProcessor({v!r}).batching_enabled = {p.batching_enabled!r}"})
        cnt["judged"] = cnt.get("judged", 0) + 1
    rec = {}
    for v in SPECIALS_RECORDED:
        try:
            rec[v] = B.supports_batching(v)
        except BaseException as e:  # noqa: BLE001
            rec[v] = "raised " + type(e).__name__
        cnt["recorded"] = cnt.get("recorded", 0) + 1
    return {"outcome": "specials", "violations": viol, "counters": cnt, "recorded_malformed": rec}


# ---------------------------------------------------------------------------
# (b) transport behaviour
# ---------------------------------------------------------------------------
def _valid_rejection(raw: bytes) -> Optional[str]:
    """None if raw is exactly one line carrying a JSON-RPC error response with code -32600."""
    if not raw.endswith(b"\n") or raw.count(b"\n") != 1:
        return f"not exactly one newline-terminated line: {raw[:120]!r}"
    try:
        obj = json.loads(raw.decode("utf-8"))
    except Exception as e:  # noqa: BLE001
        return f"not JSON: {e}"
    if not isinstance(obj, dict):
        return "not a JSON object"
    # JSON-RPC 2.0 section 5: when the request id cannot be determined (Invalid Request) the id is null
    probe = dict(obj)
    if "id" in probe and probe["id"] is None:
        probe["id"] = 0
    kind, why = classify(probe)
    if kind != "error":
        return f"not a valid JSON-RPC error response ({why or kind}): {obj}"
    if obj["error"]["code"] != -32600:
        return f"error code {obj['error']['code']} is not -32600"
    return None


class _Client:
    """One fresh StdioClient on a fresh virtual loop; ``steps`` is a coroutine
    function (client, io) -> None that performs the operations."""

    def __init__(self):
        self.loop = new_loop(horizon=60)
        self.q = seams.Quiescence(self.loop)
        self.proc = seams.FakeProcess()

    def run(self, body):
        from chuk_mcp.transports.stdio.stdio_client import StdioClient

        info: Dict[str, Any] = {}

        async def main():
            with seams.patched_open_process(lambda cmd, kw: self.proc) as pp:
                async with StdioClient(seams.stdio_params()) as client:
                    await self.q.settle()
                    await body(client)
                info["spawned"] = len(pp.spawned)

        status, val = self.loop.run_main(main())
        errors = self.loop.collect_errors()
        self.loop.abandon()
        if status == "ok" and info.get("spawned") != 1:
            raise core.HarnessError("seam missing: StdioClient did not call anyio.open_process")
        return status, val, errors

    def drain(self, client):
        import anyio

        out = {"read": [], "notes": []}
        for stream, key in ((client.get_streams()[0], "read"), (client.notifications, "notes")):
            try:
                while True:
                    m = stream.receive_nowait()
                    if isinstance(m, list):
                        out[key].append({"__python_list__": [_dump(x) for x in m]})
                    else:
                        out[key].append(_dump(m))
            except (anyio.WouldBlock, anyio.EndOfStream, anyio.ClosedResourceError):
                pass
        out["stdin"] = list(self.proc.stdin.sends)
        self.proc.stdin.sends.clear()
        return out


def _dump(m):
    try:
        return m.model_dump(exclude_none=True)
    except Exception:  # noqa: BLE001
        return {"__repr__": repr(m)[:100]}


def _same(delivered: List[Any], expected: List[Any]) -> bool:
    return len(delivered) == len(expected) and all(strict_eq(a, b) for a, b in zip(delivered, expected))


def judge_line(line: Any, version: Optional[str], got: Dict[str, Any], where: str, viol: List[dict],
               cnt: Dict[str, int], invalid_name: str = "rotation") -> None:
    """Compare what one delivered line produced with the reference model."""
    accept = ref_accepts(version)
    mode = "accepting" if accept else "rejecting"

    def bad(cls, msg, **extra):
        viol.append({"sig": {"class": cls, "mode": mode, **extra}, "msg": f"{msg}; {where}"})

    if not isinstance(line, list):
        # a single message is not a batch: it must never be answered with the batch rejection
        if got["stdin"]:
            bad("single-message-answered-as-batch", f"single message produced stdin traffic {got['stdin']}")
        cnt["single-delivered" if _same(got["read"], [line]) else "single-not-delivered(recorded)"] = \
            cnt.get("single-delivered" if _same(got["read"], [line]) else "single-not-delivered(recorded)", 0) + 1
        return
    valid = [m for m in line if classify(m)[0] is not None]
    if len(line) == 0:
        cnt[f"empty-batch/{mode}/" + ("error-written" if got["stdin"] else "silent")] = \
            cnt.get(f"empty-batch/{mode}/" + ("error-written" if got["stdin"] else "silent"), 0) + 1
    if len(line) == 0 and accept:
        # accepting mode: the statement asks for no reply to an empty array; nothing may be delivered,
        # stdin may stay silent or carry one -32600 error (JSON-RPC's answer to an empty array)
        if got["read"]:
            bad("empty-batch-delivered-something", f"empty batch put {got['read']} on the read stream")
        ok_reply = (not got["stdin"]) or (len(got["stdin"]) == 1 and _valid_rejection(got["stdin"][0]) is None)
        if not ok_reply:
            bad("empty-batch-bad-reply", f"stdin got {got['stdin']}")
        return
    if accept:
        if not _same(got["read"], valid):
            dl = got["read"]
            if len(dl) < len(valid) and all(any(strict_eq(x, v) for v in valid) for x in dl):
                cls = "valid-member-not-delivered"
            elif any(not any(strict_eq(x, v) for v in valid) for x in dl):
                cls = "invalid-member-delivered"
            else:
                cls = "members-reordered-or-duplicated"
            bad(cls, f"batch {json.dumps(line)} delivered {dl}, expected exactly the valid members {valid} in order",
                member=invalid_name)
        if got["stdin"]:
            bad("accepted-batch-answered", f"batch at an accepting version produced stdin traffic {got['stdin']}")
        cnt["batch-accepted"] = cnt.get("batch-accepted", 0) + 1
    else:
        if got["read"] or got["notes"]:
            bad("rejected-batch-member-delivered",
                f"batch {json.dumps(line)} at {version}: read stream {got['read']} notification stream {got['notes']}")
        if len(got["stdin"]) != 1:
            bad("rejection-count", f"{len(got['stdin'])} lines written to the child for a rejected batch {json.dumps(line)[:80]}: {got['stdin']}",
                lines=min(len(got["stdin"]), 2), batch="empty" if not line else "non-empty")
        else:
            why = _valid_rejection(got["stdin"][0])
            if why:
                bad("rejection-malformed", f"rejection line is {why}")
        cnt["batch-rejected"] = cnt.get("batch-rejected", 0) + 1


def _run_seq(cfg) -> Dict[str, Any]:
    """All sequences prefix + [last] for last in the chosen alphabet; every step judged."""
    prefix = [OPS_FULL[i] for i in cfg["prefix"]]
    lasts = OPS_SMALL if cfg["last"] == "small" else OPS_FULL
    lasts = lasts[cfg.get("lo", 0):cfg.get("hi", len(lasts))]
    viol: List[dict] = []
    cnt: Dict[str, int] = {"sequences": 0, "steps": 0}
    outcomes = set()
    for last in lasts:
        ops = prefix + [last]
        c = _Client()
        log: List[dict] = []

        async def body(client, ops=ops, c=c, log=log):
            version = None
            pre = c.drain(client)
            if pre["read"] or pre["notes"] or pre["stdin"]:
                raise core.HarnessError(f"traffic before the first operation: {pre}")
            for step, op in enumerate(ops):
                state_before = version
                if op[0] == "v":
                    version = VERSIONS[op[1]]
                    client.set_protocol_version(version)
                    line = None
                else:
                    line = line_for(op, step)
                    c.proc.stdout.feed((json.dumps(line) + "\n").encode())
                await c.q.settle()
                got = c.drain(client)
                log.append({"op": op, "line": line, "before": state_before, "after": version, "got": got,
                            "pv": client.get_protocol_version(), "be": client.is_batching_enabled()})

        status, val, errors = c.run(body)
        cnt["sequences"] += 1
        names = [op_name(o) for o in ops]
        if status != "ok":
            if isinstance(val, core.HarnessError):
                raise val
            viol.append({"sig": {"class": "did-not-finish", "status": status},
                         "msg": f"sequence {names} ended with {status}: {core.clean_repr(val)}"})
            outcomes.add(status)
            continue
        for step, e in enumerate(log):
            cnt["steps"] += 1
            where = f"sequence={names} step={step} negotiated={e['after']!r}"
            cnt[f"tr:{e['before']}|{op_name(e['op'])}"] = 1
            cnt[f"st:{e['after']}"] = 1
            # observable state agrees with the model after every step
            if e["pv"] != e["after"] or e["be"] is not ref_accepts(e["after"]):
                viol.append({"sig": {"class": "client-state-differs-from-model",
                                     "mode": "accepting" if ref_accepts(e["after"]) else "rejecting"},
                             "msg": f"get_protocol_version()={e['pv']!r} is_batching_enabled()={e['be']} "
                                    f"model: version {e['after']!r} accepts={ref_accepts(e['after'])}; {where}"})
            if e["op"][0] == "v":
                g = e["got"]
                if g["read"] or g["notes"] or g["stdin"]:
                    viol.append({"sig": {"class": "version-change-produced-traffic"},
                                 "msg": f"set_protocol_version produced {g}; {where}"})
                continue
            judge_line(e["line"], e["after"], e["got"], where, viol, cnt)
        if errors:
            viol.append({"sig": {"class": "loop-error"}, "msg": f"{errors[:2]}; sequence={names}"})
        outcomes.add("last-from-" + ("accepting" if ref_accepts(log[-1]["before"]) else "rejecting"))
    for k in [k for k in cnt if k.startswith(("tr:", "st:"))]:
        cnt[k] = 1
    return {"outcome": "+".join(sorted(outcomes)), "violations": viol[:12], "counters": cnt,
            "prefix": [op_name(o) for o in prefix], "last": cfg["last"]}


def _run_handshake(cfg) -> Dict[str, Any]:
    """A real handshake decides the mode: send_initialize_with_client_tracking against the scripted child."""
    from chuk_mcp.protocol.messages.initialize.send_messages import send_initialize_with_client_tracking

    preferred = cfg["preferred_s"] if "preferred_s" in cfg else SUPPORTED_PINNED[cfg["preferred"]]
    answer = cfg["answer_s"] if "answer_s" in cfg else SUPPORTED_PINNED[cfg["answer"]]
    offered_list = cfg.get("versions")  # the CALLER's supported_versions (None = the library's default list)
    again = cfg.get("again")  # a second handshake on the same connection settles on this version
    final = again if again is not None else answer
    answers = [answer] + ([again] if again is not None else [])
    hkw: Dict[str, Any] = {} if offered_list is None else {"supported_versions": list(offered_list)}
    viol: List[dict] = []
    cnt: Dict[str, int] = {"sequences": 0, "steps": 0}
    ops = [o for o in OPS_FULL if o[0] == "b"]
    if cfg.get("ops") == "few":
        ops = [o for o in ops if o[1] in ("", "R", "RN", "XN", "RXNR")]
    for op in ops:
        c = _Client()
        log: Dict[str, Any] = {"inits": 0}

        def on_stdin(data: bytes, c=c):
            for raw in data.split(b"\n"):
                if not raw.strip():
                    continue
                msg = json.loads(raw)
                if msg.get("method") == "initialize":
                    log.setdefault("offered", msg["params"]["protocolVersion"])
                    this = answers[min(log["inits"], len(answers) - 1)]
                    log["inits"] += 1
                    c.proc.stdout.feed((json.dumps({**J, "id": msg["id"], "result": {
                        "protocolVersion": this, "capabilities": {}, "serverInfo": {"name": "srv", "version": "1"}}})
                        + "\n").encode())

        c.proc.on_stdin = on_stdin

        async def body(client, c=c, op=op, log=log):
            read, write = client.get_streams()
            r = await send_initialize_with_client_tracking(read, write, client, timeout=5.0, preferred_version=preferred, **hkw)
            if again is not None:
                await c.q.settle()
                c.drain(client)
                r = await send_initialize_with_client_tracking(read, write, client, timeout=5.0, preferred_version=preferred, **hkw)
            log["negotiated"] = r.protocolVersion
            await c.q.settle()
            log["handshake_io"] = c.drain(client)
            line = line_for(op, 1)
            c.proc.stdout.feed((json.dumps(line) + "\n").encode())
            await c.q.settle()
            log["line"] = line
            log["got"] = c.drain(client)
            log["pv"] = client.get_protocol_version()

        status, val, errors = c.run(body)
        cnt["sequences"] += 1
        where = (f"handshake preferred={preferred} server-answered={answers}"
                 + (f" caller's supported_versions={offered_list}" if offered_list is not None else "") + f" then {op_name(op)}")
        if status != "ok":
            raise core.HarnessError(f"handshake harness did not finish: {status} {core.clean_repr(val)} ({where})")
        if log.get("offered") != preferred or log["negotiated"] != final:
            raise core.HarnessError(f"handshake script out of step: offered={log.get('offered')} negotiated={log['negotiated']} ({where})")
        cnt["steps"] += 1
        known = "library-list" if final in SUPPORTED_PINNED else "callers-list-only"
        if log["pv"] != final:
            viol.append({"sig": {"class": "handshake-version-not-tracked", "negotiated": known},
                         "msg": f"client reports {log['pv']!r} after negotiating {final!r}; {where}"})
        sub: List[dict] = []
        judge_line(log["line"], final, log["got"], where, sub, cnt)
        if offered_list is not None or again is not None:
            for x in sub:
                x["sig"] = {**x["sig"], "scenario": "handshake", "negotiated": known, "handshakes": len(answers)}
        viol.extend(sub)
        if errors:
            viol.append({"sig": {"class": "loop-error"}, "msg": f"{errors[:2]}; {where}"})
    return {"outcome": "handshake:" + ("accepting" if ref_accepts(final) else "rejecting"), "violations": viol[:12],
            "counters": cnt, "preferred": preferred, "answer": answers}


def _run_forms(cfg) -> Dict[str, Any]:
    """Every invalid member form at every position of a batch with valid neighbours, in both modes."""
    name, form = (INVALID_FORMS + COERCIBLE_FORMS)[cfg["form"]]
    if classify(form)[0] is not None:
        raise core.HarnessError(f"invalid form {name} is valid per the envelope reference")
    if cfg.get("parser_decides"):
        # relational oracle for a second backend: a member the library's OWN parser refuses must be dropped alone
        import copy as _copy

        from chuk_mcp.protocol.messages.json_rpc_message import parse_message

        try:
            parse_message(_copy.deepcopy(form)) if isinstance(form, (dict, list)) else (_ for _ in ()).throw(ValueError("not an object"))
            return {"outcome": "forms:accepted-by-this-backend", "violations": [],
                    "counters": {"form-accepted-by-this-backend(recorded, C09's subject):" + name: 1}}
        except Exception:  # noqa: BLE001
            pass
    version = cfg["version"]
    viol: List[dict] = []
    cnt: Dict[str, int] = {"sequences": 0, "steps": 0}
    r1, n1, r2 = member("R", 1, 0), member("N", 1, 1), member("R", 1, 3)
    lines = [[form], [form, r1], [r1, form], [r1, form, n1], [form, form, r2], [n1, r1, form, r2]]
    for line in lines:
        c = _Client()
        log: Dict[str, Any] = {}

        async def body(client, c=c, line=line, log=log):
            if version is not None:
                client.set_protocol_version(version)
            c.proc.stdout.feed((json.dumps(line) + "\n").encode())
            await c.q.settle()
            log["got"] = c.drain(client)

        status, val, errors = c.run(body)
        cnt["sequences"] += 1
        cnt["steps"] += 1
        where = f"version={version!r} line={json.dumps(line)}"
        if status != "ok":
            viol.append({"sig": {"class": "did-not-finish", "status": status}, "msg": f"{status}: {core.clean_repr(val)}; {where}"})
            continue
        judge_line(line, version, log["got"], where, viol, cnt, invalid_name=name)
        if errors:
            viol.append({"sig": {"class": "loop-error"}, "msg": f"{errors[:2]}; {where}"})
    return {"outcome": f"forms:{'accepting' if ref_accepts(version) else 'rejecting'}", "violations": viol[:12],
            "counters": cnt, "form": name, "version": version}

# ---------------------------------------------------------------------------
# (d) the rejection under a congested outgoing side
# ---------------------------------------------------------------------------
class GatedStdin(seams.FakeStdin):
    """Child that does not read its stdin until released: every send() blocks while the gate is shut."""

    def __init__(self, proc):
        super().__init__(proc)
        self.open = False
        self._gate_waiters: List[Any] = []

    async def send(self, data: bytes):
        import anyio
        import asyncio

        self.send_calls += 1
        if self.closed:
            raise anyio.ClosedResourceError
        while not self.open:
            w = asyncio.get_running_loop().create_future()
            self._gate_waiters.append(w)
            await w
        await asyncio.sleep(0)
        self.sends.append(bytes(data))
        self.data += data

    def release(self):
        self.open = True
        for w in self._gate_waiters:
            if not w.done():
                w.set_result(None)
        self._gate_waiters.clear()


CONGEST_PADS = [0, 65000, 65536 - 60, 65536, 70000, 200000, 1100000]
CONGEST_N = [0, 1, 99, 100, 101, 102, 150, 250]
CONGEST_BATCHES = [["R"], ["RN"], [""], ["R", "XN"]]
CONGEST_VERSIONS = ["2025-06-18", "2025-06-19", None, "2025-03-26"]


def _run_congested(cfg) -> Dict[str, Any]:
    import asyncio

    import anyio
    from chuk_mcp.protocol.messages.json_rpc_message import create_request
    from chuk_mcp.transports.stdio.stdio_client import StdioClient

    version = CONGEST_VERSIONS[cfg["version"]]
    n = cfg["n"]
    pad = CONGEST_PADS[cfg.get("pad", 0)]  # size of the application's messages: around and beyond a pipe buffer (64 KiB)
    batches = [line_for(["b", k], i + 1) for i, k in enumerate(CONGEST_BATCHES[cfg["batches"]])]
    loop = new_loop(horizon=120)
    q = seams.Quiescence(loop)
    proc = seams.FakeProcess()
    proc.stdin = GatedStdin(proc)
    info: Dict[str, Any] = {}

    async def main():
        with seams.patched_open_process(lambda cmd, kw: proc) as pp:
            async with StdioClient(seams.stdio_params()) as client:
                read, write = client.get_streams()
                await q.settle()
                if version is not None:
                    client.set_protocol_version(version)

                async def app():
                    for k in range(n):
                        prm = {"pad": "p" * pad, "tail": "é"} if pad else None
                        m = ({"jsonrpc": "2.0", "id": k, "method": "app/m", **({"params": prm} if prm else {})} if k % 2 == 0
                             else create_request("app/m", prm, id=k))
                        await write.send(m)

                def feed():
                    for b in batches:
                        proc.stdout.feed((json.dumps(b) + "\n").encode())

                if cfg["order"] == "queue-first":
                    t = asyncio.ensure_future(app())
                    await q.settle()
                    feed()
                    await q.settle()
                else:
                    feed()
                    await q.settle()
                    t = asyncio.ensure_future(app())
                    await q.settle()
                info["written_while_blocked"] = len(proc.stdin.sends)
                info["app_done_while_blocked"] = t.done()
                proc.stdin.release()
                await q.settle()
                await asyncio.wait_for(t, 30)
                await q.settle()
                got = []
                try:
                    while True:
                        m = read.receive_nowait()
                        got.append(_dump(m) if not isinstance(m, list) else {"__python_list__": len(m)})
                except (anyio.WouldBlock, anyio.EndOfStream, anyio.ClosedResourceError):
                    pass
                info["read"] = got
                info["lines"] = list(proc.stdin.sends)
            info["spawned"] = len(pp.spawned)

    status, val = loop.run_main(main())
    errors = loop.collect_errors()
    loop.abandon()
    accept = ref_accepts(version)
    mode = "accepting" if accept else "rejecting"
    queued = "0" if n == 0 else ("below-buffer" if n < 100 else "buffer-or-more")
    if pad:
        queued += "/large-messages" if pad + 100 > 65536 else "/medium-messages"
    where = (f"version={version!r} application queued {n} messages of ~{pad + 60} bytes ({cfg['order']}), child not reading stdin, "
             f"batch lines {[json.dumps(b)[:60] for b in batches]}, then the child resumes reading")
    viol: List[dict] = []

    def bad(cls, msg, **extra):
        viol.append({"sig": {"class": cls, "mode": mode, "scenario": "congested-outgoing", "queued": queued, **extra},
                     "msg": f"{msg}; {where}"})

    if status != "ok":
        bad("did-not-finish", f"{status}: {core.clean_repr(val)}", status=status)
        return {"outcome": "congested:" + status, "violations": viol, "counters": {"sequences": 1}}
    if info.get("spawned") != 1:
        raise core.HarnessError("seam missing: StdioClient did not call anyio.open_process")
    if info["written_while_blocked"]:
        raise core.HarnessError("gate leaked: bytes reached the child's stdin while it was not reading")
    app_ids, rejections, other = [], [], []
    # what the child reads: the byte stream cut at LF (how many writes a line took is the transport's business)
    stream_bytes = b"".join(info["lines"])
    if stream_bytes and not stream_bytes.endswith(b"\n"):
        other.append(b"<unterminated tail> " + stream_bytes[-60:])
    for raw in stream_bytes.split(b"\n")[:-1]:
        try:
            obj = json.loads(raw.decode("utf-8"))
        except Exception:  # noqa: BLE001
            other.append(raw[:60] + b" ... " + raw[-60:] if len(raw) > 130 else raw)
            continue
        if isinstance(obj, dict) and obj.get("method") == "app/m" and pad and len((obj.get("params") or {}).get("pad", "")) != pad:
            other.append(b"<application message with altered payload>")
            continue
        if isinstance(obj, dict) and obj.get("method") == "app/m":
            app_ids.append(obj.get("id"))
        elif isinstance(obj, dict) and "error" in obj:
            rejections.append(raw)
        else:
            other.append(raw[:80])
    if app_ids != list(range(n)):
        bad("application-messages-lost-or-reordered", f"child received application ids {app_ids[:12]}... ({len(app_ids)} of {n})")
    if other:
        bad("unexpected-stdin-traffic", f"{other[:3]}")
    if accept:
        valid = [m for b in batches for m in b if classify(m)[0] is not None]
        if rejections:
            bad("accepted-batch-answered", f"{len(rejections)} error lines written for batches at an accepting version")
        if not _same(info["read"], valid):
            bad("valid-member-not-delivered", f"read stream {info['read']} expected {valid}", member="rotation")
    else:
        if len(rejections) != len(batches):
            bad("rejection-count", f"{len(rejections)} -32600 lines reached the child for {len(batches)} rejected batch line(s): {rejections[:2]}",
                lines=min(len(rejections), 2), batch="empty" if batches == [[]] else "non-empty")
        for r in rejections:
            why = _valid_rejection(r + b"\n")
            if why:
                bad("rejection-malformed", f"rejection line is {why}")
        if info["read"]:
            bad("rejected-batch-member-delivered", f"read stream got {info['read']}")
    if errors:
        bad("loop-error", f"{errors[:2]}")
    return {"outcome": f"congested:{mode}", "violations": viol[:12],
            "counters": {"sequences": 1, "steps": len(batches), "congested-scenarios": 1,
                         "congested/app-task-blocked-before-release": 0 if info["app_done_while_blocked"] else 1},
            "n": n, "version": version}


# ---------------------------------------------------------------------------
# (e) a second connection through the same transport object starts with no version negotiated
# ---------------------------------------------------------------------------
REENTRY_VERSIONS = [None] + VERSIONS
REENTRY_BATCHES = ["R", "RN", ""]


def _run_reentry(cfg) -> Dict[str, Any]:
    import anyio
    from chuk_mcp.transports.stdio.stdio_client import StdioClient
    from chuk_mcp.transports.stdio.transport import StdioTransport

    carrier = cfg["carrier"]
    conns = [REENTRY_VERSIONS[i] for i in cfg["versions"]]
    kinds = REENTRY_BATCHES[cfg["batch"]]
    loop = new_loop(horizon=120)
    q = seams.Quiescence(loop)
    procs: List[Any] = []
    log: List[dict] = []

    def factory(cmd, kw):
        procs.append(seams.FakeProcess())
        return procs[-1]

    async def main():
        with seams.patched_open_process(factory):
            obj = StdioTransport(seams.stdio_params()) if carrier == "transport" else StdioClient(seams.stdio_params())
            for ci, v in enumerate(conns):
                async with obj:
                    if carrier == "transport":
                        read, _w = await obj.get_streams()
                    else:
                        read, _w = obj.get_streams()
                    proc = procs[-1]
                    await q.settle()

                    async def deliver(tag, negotiated, step):
                        line = line_for(["b", kinds], step)
                        proc.stdout.feed((json.dumps(line) + "\n").encode())
                        await q.settle()
                        got = {"read": [], "notes": []}
                        try:
                            while True:
                                m = read.receive_nowait()
                                got["read"].append(_dump(m) if not isinstance(m, list) else {"__python_list__": len(m)})
                        except (anyio.WouldBlock, anyio.EndOfStream, anyio.ClosedResourceError):
                            pass
                        got["stdin"] = list(proc.stdin.sends)
                        proc.stdin.sends.clear()
                        log.append({"conn": ci, "tag": tag, "negotiated": negotiated, "line": line, "got": got})

                    await deliver("before-any-version", None, ci * 10 + 1)
                    if v is not None:
                        obj.set_protocol_version(v)
                        await q.settle()
                        await deliver("after-set", v, ci * 10 + 2)

    status, val = loop.run_main(main())
    errors = loop.collect_errors()
    loop.abandon()
    viol: List[dict] = []
    cnt: Dict[str, int] = {"sequences": 1, "reentry-scenarios": 1}
    where0 = f"{carrier} object entered {len(conns)} times, versions set per connection {conns}, batch [{kinds}]"
    if status != "ok":
        if carrier == "client":
            cnt["reentered-bare-client/did-not-finish(recorded)"] = 1
            return {"outcome": "reentry:client-" + status, "violations": [], "counters": cnt}
        viol.append({"sig": {"class": "did-not-finish", "scenario": "re-entered-transport", "status": status},
                     "msg": f"{status}: {core.clean_repr(val)}; {where0}"})
        return {"outcome": "reentry:" + status, "violations": viol, "counters": cnt}
    if len(procs) != len(conns):
        raise core.HarnessError(f"{len(procs)} processes spawned for {len(conns)} connections")
    prev_mode = None
    for e in log:
        cnt["steps"] = cnt.get("steps", 0) + 1
        where = f"connection #{e['conn'] + 1} {e['tag']}; {where0}"
        fresh_after_reentry = e["conn"] > 0 and e["tag"] == "before-any-version"
        if fresh_after_reentry and carrier == "client":
            # a bare StdioClient object entered twice is outside what the statement describes: recorded only
            rejected = bool(e["got"]["stdin"])
            prev = conns[e["conn"] - 1]
            cnt[f"reentered-bare-client/first-batch-{'rejected' if rejected else 'accepted'}"
                f"/previous-connection-{'rejecting' if not ref_accepts(prev) else 'accepting'}(recorded)"] = \
                cnt.get(f"reentered-bare-client/first-batch-{'rejected' if rejected else 'accepted'}"
                        f"/previous-connection-{'rejecting' if not ref_accepts(prev) else 'accepting'}(recorded)", 0) + 1
            continue
        sub: List[dict] = []
        judge_line(e["line"], e["negotiated"], e["got"], where, sub, cnt)
        for v in sub:
            if fresh_after_reentry:
                v["sig"] = {**v["sig"], "scenario": "re-entered-transport-before-handshake"}
            viol.append(v)
    if errors:
        viol.append({"sig": {"class": "loop-error", "scenario": "re-entry"}, "msg": f"{errors[:2]}; {where0}"})
    return {"outcome": f"reentry:{carrier}:" + ("rejecting-seen" if any(not ref_accepts(c) for c in conns) else "accepting-only"),
            "violations": viol[:12], "counters": cnt}

# ---------------------------------------------------------------------------
# (f) the version changes WHILE a batch line is being routed
# ---------------------------------------------------------------------------
def _run_inbatch_handshake(cfg) -> Dict[str, Any]:
    """The server answers `initialize` with ONE batch line that also carries other members.  The line arrives
    while no version is negotiated, so it is accepted: every valid member must be delivered, whatever version
    the handshake records while the reader is still between members."""
    import anyio
    from chuk_mcp.protocol.messages.initialize.send_messages import send_initialize_with_client_tracking

    preferred = SUPPORTED_PINNED[cfg["preferred"]]
    answer = SUPPORTED_PINNED[cfg["answer"]]
    pos = cfg["pos"]
    others = cfg["others"]  # kinds of the other members, in order
    c = _Client()
    log: Dict[str, Any] = {}

    def on_stdin(data: bytes):
        for raw in data.split(b"\n"):
            if not raw.strip():
                continue
            msg = json.loads(raw)
            if msg.get("method") == "initialize":
                resp = {**J, "id": msg["id"], "result": {"protocolVersion": answer, "capabilities": {},
                                                          "serverInfo": {"name": "srv", "version": "1"}}}
                rest = [member(k, 7, i) for i, k in enumerate(others)]
                line = rest[:pos] + [resp] + rest[pos:]
                log["line"] = line
                log["resp_index"] = pos
                c.proc.stdout.feed((json.dumps(line) + "\n").encode())

    c.proc.on_stdin = on_stdin

    async def body(client):
        read, write = client.get_streams()
        r = await send_initialize_with_client_tracking(read, write, client, timeout=5.0, preferred_version=preferred)
        log["negotiated"] = r.protocolVersion
        await c.q.settle()
        log["got"] = c.drain(client)
        log["pv"] = client.get_protocol_version()
        # the next line is judged by the version the handshake recorded
        line2 = line_for(["b", "RN"], 9)
        c.proc.stdout.feed((json.dumps(line2) + "\n").encode())
        await c.q.settle()
        log["line2"] = line2
        log["got2"] = c.drain(client)

    status, val, errors = c.run(body)
    where = (f"initialize (preferred {preferred}) answered inside one batch line at position {pos} with version {answer}, "
             f"other members [{others}]")
    viol: List[dict] = []
    cnt: Dict[str, int] = {"sequences": 1, "steps": 2, "inbatch-handshakes": 1}
    mode_after = "accepting" if ref_accepts(answer) else "rejecting"

    def bad(cls, msg, **extra):
        viol.append({"sig": {"class": cls, "scenario": "handshake-answered-inside-a-batch", "version-recorded": mode_after, **extra},
                     "msg": f"{msg}; {where}"})

    if status != "ok":
        name = type(val).__name__ if val is not None else status
        bad("did-not-finish", f"handshake ended with {status}: {val!r}", status=status, exc=name)
        return {"outcome": "inbatch:" + status, "violations": viol, "counters": cnt}
    line = log["line"]
    notes_exp = [m for m in line if classify(m)[0] == "notification"]
    after_exp = [m for m in line[log["resp_index"] + 1:] if classify(m)[0] is not None]
    got = log["got"]
    if not _same(got["notes"], notes_exp):
        bad("valid-member-not-delivered" if len(got["notes"]) < len(notes_exp) else "members-reordered-or-duplicated",
            f"notification stream {got['notes']} expected every notification member {notes_exp}", stream="notifications")
    if not _same(got["read"], after_exp):
        bad("valid-member-not-delivered" if len(got["read"]) < len(after_exp) else "members-reordered-or-duplicated",
            f"read stream after the handshake holds {got['read']}, expected the members behind the response {after_exp}", stream="read")
    rej = [x for x in got["stdin"] if b'"error"' in x]
    if rej:
        bad("accepted-batch-answered", f"error lines written for a batch that arrived before any version was negotiated: {rej[:1]}")
    if log["pv"] != answer:
        bad("handshake-version-not-tracked", f"client reports {log['pv']!r} after negotiating {answer!r}")
    sub: List[dict] = []
    judge_line(log["line2"], answer, log["got2"], "next batch line; " + where, sub, cnt)
    viol.extend(sub)
    if errors:
        bad("loop-error", f"{errors[:2]}")
    return {"outcome": "inbatch:" + mode_after, "violations": viol[:12], "counters": cnt}


SWITCH_V0 = [None, "2025-03-26", "2025-06-18"]


def _switch_cases() -> List[Dict[str, Any]]:
    out = []
    for n in range(2, 5):
        for combo in itertools.product(KINDS, repeat=n):
            kinds = "".join(combo)
            valid = sum(1 for k in kinds if k != "X")
            for k in range(1, valid):
                out.append({"kinds": kinds, "k": k})
    return out


def _run_switch(cfg) -> Dict[str, Any]:
    """A consumer of the read stream calls set_protocol_version(v) as soon as it has received the k-th message,
    i.e. while the reader is still routing the rest of the same batch line."""
    import asyncio

    import anyio

    v0 = SWITCH_V0[cfg["v0"]]
    v = VERSIONS[cfg["v"]]
    viol: List[dict] = []
    cnt: Dict[str, int] = {"sequences": 0, "steps": 0, "mid-batch-switches": 0}
    outs = set()
    for case in _switch_cases()[cfg["lo"]:cfg["hi"]]:
        kinds, k = case["kinds"], case["k"]
        c = _Client()
        log: Dict[str, Any] = {"received": [], "switched_at": None}

        async def body(client, c=c, log=log, kinds=kinds, k=k):
            read, _w = client.get_streams()
            if v0 is not None:
                client.set_protocol_version(v0)

            async def consumer():
                while True:
                    try:
                        m = await read.receive()
                    except (anyio.EndOfStream, anyio.ClosedResourceError):
                        return
                    log["received"].append(_dump(m) if not isinstance(m, list) else {"__python_list__": len(m)})
                    if len(log["received"]) == k and log["switched_at"] is None:
                        log["switched_at"] = len(log["received"])
                        client.set_protocol_version(v)

            t = asyncio.ensure_future(consumer())
            await c.q.settle()
            line1 = line_for(["b", kinds], 1)
            c.proc.stdout.feed((json.dumps(line1) + "\n").encode())
            await c.q.settle()
            log["line1"] = line1
            log["got1"] = {"read": list(log["received"]), "notes": [], "stdin": list(c.proc.stdin.sends)}
            c.proc.stdin.sends.clear()
            n1 = len(log["received"])
            log["version_after_line1"] = client.get_protocol_version()
            line2 = line_for(["b", "RN"], 2)
            c.proc.stdout.feed((json.dumps(line2) + "\n").encode())
            await c.q.settle()
            log["line2"] = line2
            log["got2"] = {"read": list(log["received"][n1:]), "notes": [], "stdin": list(c.proc.stdin.sends)}
            t.cancel()
            try:
                await t
            except BaseException:  # noqa: BLE001
                pass

        status, val, errors = c.run(body)
        cnt["sequences"] += 1
        where = (f"version {v0!r} in force, batch [{kinds}] arrives, the consumer calls set_protocol_version({v!r}) "
                 f"after receiving member #{k}")
        if status != "ok":
            viol.append({"sig": {"class": "did-not-finish", "scenario": "version-change-while-routing", "status": status},
                         "msg": f"{status}: {val!r}; {where}"})
            outs.add(status)
            continue
        cnt["steps"] += 2
        switched = log["switched_at"] is not None
        cnt["mid-batch-switches"] += 1 if switched else 0
        # line 1: decided when the line arrived (v0); line 2: decided by the version then in force
        sub: List[dict] = []
        judge_line(log["line1"], v0, log["got1"], "first line; " + where, sub, cnt)
        for x in sub:
            x["sig"] = {**x["sig"], "scenario": "version-change-while-routing",
                        "switch": ("accepting->" + ("accepting" if ref_accepts(v) else "rejecting")) if switched else "none"}
        viol.extend(sub)
        now = v if switched else v0
        if log["version_after_line1"] != now:
            viol.append({"sig": {"class": "client-state-differs-from-model", "scenario": "version-change-while-routing"},
                         "msg": f"get_protocol_version()={log['version_after_line1']!r}, model {now!r}; {where}"})
        sub = []
        judge_line(log["line2"], now, log["got2"], "second line; " + where, sub, cnt)
        viol.extend(sub)
        if errors:
            viol.append({"sig": {"class": "loop-error", "scenario": "version-change-while-routing"}, "msg": f"{errors[:2]}; {where}"})
        outs.add("switched" if switched else "not-switched")
    return {"outcome": "switch:" + "+".join(sorted(outs)), "violations": viol[:12], "counters": cnt, "v0": v0, "v": v}

# ---------------------------------------------------------------------------
# (g) traffic that merely MENTIONS a protocol version must not change the negotiated one
# ---------------------------------------------------------------------------
def _distractors(w: str) -> List[Any]:
    """Single lines that carry a version string w without being this client's handshake."""
    init_result = {"protocolVersion": w, "capabilities": {}, "serverInfo": {"name": "srv", "version": "1"}}
    return [
        ("late-initialize-result", {**J, "id": "abandoned-init", "result": init_result}),
        ("bare-version-result", {**J, "id": 4242, "result": {"protocolVersion": w}}),
        ("notification-with-version", {**J, "method": "notifications/message", "params": {"protocolVersion": w, "level": "info"}}),
        ("error-with-version", {**J, "id": "abandoned-init", "error": {"code": -32602, "message": f"Unsupported protocol version {w}",
                                                                         "data": {"protocolVersion": w, "supported": [w]}}}),
        ("server-request-with-version", {**J, "id": "srv-1", "method": "initialize", "params": {"protocolVersion": w}}),
        ("nested-version-result", {**J, "id": 4243, "result": {"info": {"protocolVersion": w}, "protocol_version": w}}),
    ]


N_DISTRACTORS = 6


def _run_mention(cfg) -> Dict[str, Any]:
    from chuk_mcp.protocol.messages.initialize.send_messages import send_initialize_with_client_tracking

    how = cfg["how"]  # "set" | "handshake" | "none"
    v = None if how == "none" else (VERSIONS[cfg["v"]] if how == "set" else SUPPORTED_PINNED[cfg["v"]])
    w = VERSIONS[cfg["w"]]
    names = [_distractors(w)[i][0] for i in cfg["lines"]]
    lines = [_distractors(w)[i][1] for i in cfg["lines"]]
    c = _Client()
    log: Dict[str, Any] = {}

    def on_stdin(data: bytes):
        for raw in data.split(b"\n"):
            if not raw.strip():
                continue
            msg = json.loads(raw)
            if msg.get("method") == "initialize":
                c.proc.stdout.feed((json.dumps({**J, "id": msg["id"], "result": {
                    "protocolVersion": v, "capabilities": {}, "serverInfo": {"name": "srv", "version": "1"}}}) + "\n").encode())

    if how == "handshake":
        c.proc.on_stdin = on_stdin

    async def body(client):
        read, write = client.get_streams()
        if how == "set":
            client.set_protocol_version(v)
        elif how == "handshake":
            await send_initialize_with_client_tracking(read, write, client, timeout=5.0, preferred_version=v)
        await c.q.settle()
        c.drain(client)
        for ln in lines:
            c.proc.stdout.feed((json.dumps(ln) + "\n").encode())
            await c.q.settle()
        log["distractor_io"] = c.drain(client)
        log["pv"] = client.get_protocol_version()
        log["be"] = client.is_batching_enabled()
        batch = line_for(["b", cfg["batch"]], 5)
        c.proc.stdout.feed((json.dumps(batch) + "\n").encode())
        await c.q.settle()
        log["batch"] = batch
        log["got"] = c.drain(client)

    status, val, errors = c.run(body)
    where = (f"version {v!r} negotiated via {how}; then single line(s) {names} mentioning {w!r}; then batch [{cfg['batch']}]")
    viol: List[dict] = []
    cnt: Dict[str, int] = {"sequences": 1, "steps": 1 + len(lines), "version-mention-scenarios": 1}
    side = ("same-side" if ref_accepts(v) == ref_accepts(w) else "other-side")
    if status != "ok":
        if isinstance(val, core.HarnessError):
            raise val
        viol.append({"sig": {"class": "did-not-finish", "scenario": "version-mentioned-in-traffic", "status": status},
                     "msg": f"{status}: {val!r}; {where}"})
        return {"outcome": "mention:" + status, "violations": viol, "counters": cnt}
    if log["pv"] != v or log["be"] is not ref_accepts(v):
        viol.append({"sig": {"class": "client-state-differs-from-model", "scenario": "version-mentioned-in-traffic",
                             "line": names[-1], "mentioned": side},
                     "msg": f"get_protocol_version()={log['pv']!r} is_batching_enabled()={log['be']} after the line(s); model: still {v!r}; {where}"})
    if log["distractor_io"]["stdin"]:
        viol.append({"sig": {"class": "single-message-answered-as-batch", "scenario": "version-mentioned-in-traffic"},
                     "msg": f"stdin traffic {log['distractor_io']['stdin'][:1]} for single lines; {where}"})
    sub: List[dict] = []
    judge_line(log["batch"], v, log["got"], where, sub, cnt)
    for x in sub:
        x["sig"] = {**x["sig"], "scenario": "version-mentioned-in-traffic", "line": names[-1], "mentioned": side}
    viol.extend(sub)
    if errors:
        viol.append({"sig": {"class": "loop-error", "scenario": "version-mentioned-in-traffic"}, "msg": f"{errors[:2]}; {where}"})
    return {"outcome": f"mention:{'accepting' if ref_accepts(v) else 'rejecting'}:{side}", "violations": viol[:12], "counters": cnt}

# ---------------------------------------------------------------------------
# (h) pending per-request streams while a batch is routed
# ---------------------------------------------------------------------------
PENDING_CHOICES = ["none", "first", "middle", "last", "all"]


def _run_pending(cfg) -> Dict[str, Any]:
    """client.new_request_stream(id) registered for some of the batch's response ids: the main read stream
    must still carry every valid member in order."""
    import anyio

    version = cfg["version"]
    which = cfg["pending"]
    viol: List[dict] = []
    cnt: Dict[str, int] = {"sequences": 0, "steps": 0, "pending-stream-scenarios": 0}
    outs = set()
    batches = [b for b in OPS_FULL if b[0] == "b" and b[1]]
    for op in batches[cfg["lo"]:cfg["hi"]]:
        line = line_for(op, 1)
        rids = [m["id"] for m in line if isinstance(m, dict) and "result" in m]
        if which == "none":
            chosen = []
        elif which == "all":
            chosen = list(rids)
        elif not rids:
            continue
        else:
            chosen = [rids[{"first": 0, "middle": len(rids) // 2, "last": -1}[which]]]
        c = _Client()
        log: Dict[str, Any] = {}

        async def body(client, c=c, log=log, line=line, chosen=chosen):
            if version is not None:
                client.set_protocol_version(version)
            streams = [(rid, client.new_request_stream(str(rid))) for rid in chosen]
            c.proc.stdout.feed((json.dumps(line) + "\n").encode())
            await c.q.settle()
            log["got"] = c.drain(client)
            per = {}
            for rid, st in streams:
                try:
                    per[str(rid)] = _dump(st.receive_nowait())
                except (anyio.WouldBlock, anyio.EndOfStream, anyio.ClosedResourceError):
                    per[str(rid)] = None
            log["per_request"] = per

        status, val, errors = c.run(body)
        cnt["sequences"] += 1
        cnt["pending-stream-scenarios"] += 1
        where = f"version={version!r}, per-request streams pending for ids {chosen} ({which}), batch {op_name(op)}"
        if status != "ok":
            viol.append({"sig": {"class": "did-not-finish", "scenario": "pending-request-streams", "status": status},
                         "msg": f"{status}: {val!r}; {where}"})
            outs.add(status)
            continue
        cnt["steps"] += 1
        sub: List[dict] = []
        judge_line(line, version, log["got"], where, sub, cnt)
        for x in sub:
            x["sig"] = {**x["sig"], "scenario": "pending-request-streams", "pending": which}
        viol.extend(sub)
        got_per = sum(1 for v in log["per_request"].values() if v is not None)
        cnt[f"per-request-stream-{'served' if got_per == len(chosen) else 'not-served'}(recorded)"] = \
            cnt.get(f"per-request-stream-{'served' if got_per == len(chosen) else 'not-served'}(recorded)", 0) + (1 if chosen else 0)
        if errors:
            viol.append({"sig": {"class": "loop-error", "scenario": "pending-request-streams"}, "msg": f"{errors[:2]}; {where}"})
        outs.add("accepting" if ref_accepts(version) else "rejecting")
    return {"outcome": "pending:" + which + ":" + "+".join(sorted(outs)), "violations": viol[:12], "counters": cnt}


# ---------------------------------------------------------------------------
# (i) several lines in ONE read: a consumer changes the version after line k, a batch follows in the same read
# ---------------------------------------------------------------------------
def _read_layouts() -> List[List[str]]:
    """T = the single message the consumer reacts to, S = another single message, B = batch line.
    Only layouts with at least one single line between T and the first B carry a sound ordering witness."""
    return [["T", "S", "B"], ["S", "T", "S", "B"], ["T", "S", "S", "B"], ["T", "S", "B", "B"], ["T", "B"], ["S", "T", "B"],
            ["T", "S", "B", "S"]]


def _run_oneread(cfg) -> Dict[str, Any]:
    import asyncio

    import anyio

    v0 = [None] + VERSIONS
    v0 = v0[cfg["v0"]]
    v = VERSIONS[cfg["v"]]
    layout = _read_layouts()[cfg["layout"]]
    chunking = cfg["chunking"]  # "one-read" | "line-per-read"
    kinds = cfg["batch"]
    c = _Client()
    log: Dict[str, Any] = {"received": [], "witness": None}
    lines: List[Any] = []
    for i, t in enumerate(layout):
        if t == "T":
            lines.append({**J, "id": "trigger", "result": {"switch": True}})
        elif t == "S":
            lines.append({**J, "method": "notifications/message", "params": {"line": i}} if i % 2 else {**J, "id": f"s{i}", "result": {"line": i}})
        else:
            lines.append(line_for(["b", kinds], 10 + i))

    async def body(client):
        read, _w = client.get_streams()
        if v0 is not None:
            client.set_protocol_version(v0)

        async def consumer():
            while True:
                try:
                    m = await read.receive()
                except (anyio.EndOfStream, anyio.ClosedResourceError):
                    return
                d = _dump(m) if not isinstance(m, list) else {"__python_list__": len(m)}
                log["received"].append(d)
                if isinstance(d, dict) and d.get("id") == "trigger" and log["witness"] is None:
                    # witness: nothing that follows the trigger has been routed yet when the version changes
                    st = read.statistics()
                    log["witness"] = {"buffered": st.current_buffer_used, "received_before": len(log["received"]) - 1,
                                      "stdin_before": len(c.proc.stdin.sends)}
                    client.set_protocol_version(v)

        t = asyncio.ensure_future(consumer())
        await c.q.settle()
        log["waiting"] = read.statistics().tasks_waiting_receive
        if chunking == "one-read":
            c.proc.stdout.feed(("".join(json.dumps(ln) + "\n" for ln in lines)).encode())
            await c.q.settle()
        else:
            for ln in lines:
                c.proc.stdout.feed((json.dumps(ln) + "\n").encode())
                await c.q.settle()
        log["stdin"] = list(c.proc.stdin.sends)
        log["pv"] = client.get_protocol_version()
        t.cancel()
        try:
            await t
        except BaseException:  # noqa: BLE001
            pass

    status, val, errors = c.run(body)
    where = (f"version {v0!r} in force; {chunking}: lines {layout} with batch [{kinds}]; the consumer calls "
             f"set_protocol_version({v!r}) on receiving the trigger line")
    viol: List[dict] = []
    cnt: Dict[str, int] = {"sequences": 1, "steps": len(layout), "one-read-scenarios": 1}
    scen = {"scenario": "several-lines-in-one-read" if chunking == "one-read" else "one-line-per-read"}
    if status != "ok":
        viol.append({"sig": {"class": "did-not-finish", **scen, "status": status}, "msg": f"{status}: {val!r}; {where}"})
        return {"outcome": "oneread:" + status, "violations": viol, "counters": cnt}
    if log["waiting"] != 1:
        raise core.HarnessError(f"consumer was not waiting on the read stream before the read ({log['waiting']})")
    w = log["witness"]
    if w is None or log["pv"] != v:
        viol.append({"sig": {"class": "client-state-differs-from-model", **scen},
                     "msg": f"trigger seen: {w is not None}; get_protocol_version()={log['pv']!r}, expected {v!r}; {where}"})
        return {"outcome": "oneread:no-switch", "violations": viol, "counters": cnt}
    ti = layout.index("T")
    first_b = layout.index("B")
    single_between = any(x == "S" for x in layout[ti + 1:first_b])
    # singles in front of T + T itself must be all that was received, nothing buffered, nothing written: then the
    # reader had not yet touched any line behind T when set_protocol_version() returned
    sound = (single_between and w["buffered"] == 0 and w["stdin_before"] == 0
             and w["received_before"] == sum(1 for x in layout[:ti] if x == "S"))
    if not sound:
        cnt["one-read/ordering-not-witnessed(recorded, not judged)"] = 1
        return {"outcome": "oneread:unwitnessed", "violations": viol, "counters": cnt}
    cnt["one-read/ordering-witnessed"] = 1
    # expected traffic behind the trigger, line by line, all under the new version v
    accept = ref_accepts(v)
    exp_read: List[Any] = []
    n_rej = 0
    for x, ln in zip(layout[ti + 1:], lines[ti + 1:]):
        if x == "S":
            exp_read.append(ln)
        elif accept:
            exp_read.extend(m for m in ln if classify(m)[0] is not None)
        else:
            n_rej += 1
    got_read = log["received"][w["received_before"] + 1:]
    mode = "accepting" if accept else "rejecting"
    change = ("accepting" if ref_accepts(v0) else "rejecting") + "->" + mode
    if not _same(got_read, exp_read):
        cls = ("rejected-batch-member-delivered" if not accept else
               "valid-member-not-delivered" if len(got_read) < len(exp_read) else "members-reordered-or-duplicated")
        viol.append({"sig": {"class": cls, "mode": mode, **scen, "switch": change},
                     "msg": f"after the version change the read stream got {got_read}, expected {exp_read}; {where}"})
    rej = [x for x in log["stdin"] if b'"error"' in x]
    if len(rej) != n_rej or len(log["stdin"]) != n_rej:
        viol.append({"sig": {"class": "rejection-count" if not accept else "accepted-batch-answered", "mode": mode, **scen, "switch": change,
                             "lines": min(len(rej), 2)},
                     "msg": f"{len(log['stdin'])} lines written to the child ({len(rej)} errors), expected {n_rej} rejection(s); {where}"})
    for r in rej:
        why = _valid_rejection(r)
        if why:
            viol.append({"sig": {"class": "rejection-malformed", "mode": mode, **scen}, "msg": f"{why}; {where}"})
    if errors:
        viol.append({"sig": {"class": "loop-error", **scen}, "msg": f"{errors[:2]}; {where}"})
    return {"outcome": f"oneread:{chunking}:{change}", "violations": viol[:12], "counters": cnt}

# ---------------------------------------------------------------------------
# (j) the convenience entry point stdio_client_with_initialize: nothing is negotiated until the handshake completed
# ---------------------------------------------------------------------------
def _run_entry(cfg) -> Dict[str, Any]:
    import anyio
    from chuk_mcp.transports.stdio.stdio_client import stdio_client_with_initialize

    preferred = cfg["preferred_s"] if "preferred_s" in cfg else (None if cfg["preferred"] is None else SUPPORTED_PINNED[cfg["preferred"]])
    answer = cfg["answer_s"] if "answer_s" in cfg else SUPPORTED_PINNED[cfg["answer"]]
    offered_list = cfg.get("versions")
    kinds = cfg["batch"]
    loop = new_loop(horizon=60)
    q = seams.Quiescence(loop)
    proc = seams.FakeProcess()
    log: Dict[str, Any] = {"stdin_at_answer": None}
    early = line_for(["b", kinds], 3)

    def on_stdin(data: bytes):
        for raw in data.split(b"\n"):
            if not raw.strip():
                continue
            msg = json.loads(raw)
            if msg.get("method") == "initialize":
                log["offered"] = msg["params"]["protocolVersion"]
                # the server has read `initialize`; before answering it sends a batch
                proc.stdout.feed((json.dumps(early) + "\n").encode())

                def answer_now(msg=msg):
                    log["stdin_at_answer"] = list(proc.stdin.sends)
                    proc.stdout.feed((json.dumps({**J, "id": msg["id"], "result": {
                        "protocolVersion": answer, "capabilities": {}, "serverInfo": {"name": "srv", "version": "1"}}}) + "\n").encode())

                loop.call_later(0.05, answer_now)

    proc.on_stdin = on_stdin

    async def main():
        with seams.patched_open_process(lambda cmd, kw: proc) as pp:
            kw = {} if preferred is None else {"preferred_version": preferred}
            if offered_list is not None:
                kw["supported_versions"] = list(offered_list)
            async with stdio_client_with_initialize(seams.stdio_params(), timeout=5.0, **kw) as (read, _write, init):
                log["negotiated"] = init.protocolVersion
                await q.settle()
                leftover = []
                try:
                    while True:
                        leftover.append(_dump(read.receive_nowait()))
                except (anyio.WouldBlock, anyio.EndOfStream, anyio.ClosedResourceError):
                    pass
                log["stdin_after_handshake"] = list(proc.stdin.sends)
                n0 = len(proc.stdin.sends)
                late = line_for(["b", kinds], 5)
                proc.stdout.feed((json.dumps(late) + "\n").encode())
                await q.settle()
                got = {"read": [], "notes": [], "stdin": list(proc.stdin.sends[n0:])}
                try:
                    while True:
                        m = read.receive_nowait()
                        got["read"].append(_dump(m) if not isinstance(m, list) else {"__python_list__": len(m)})
                except (anyio.WouldBlock, anyio.EndOfStream, anyio.ClosedResourceError):
                    pass
                log["late"], log["got"] = late, got
            log["spawned"] = len(pp.spawned)

    status, val = loop.run_main(main())
    errors = loop.collect_errors()
    loop.abandon()
    where = (f"stdio_client_with_initialize(preferred_version={preferred!r}"
             + (f", supported_versions={offered_list}" if offered_list is not None else "") + "); the child reads initialize, sends the batch [{kinds}], "
             f"then answers with version {answer}; afterwards it sends the batch again")
    viol: List[dict] = []
    cnt: Dict[str, int] = {"sequences": 1, "steps": 2, "entry-point-scenarios": 1}
    if status != "ok":
        viol.append({"sig": {"class": "did-not-finish", "scenario": "stdio_client_with_initialize", "status": status},
                     "msg": f"{status}: {val!r}; {where}"})
        return {"outcome": "entry:" + status, "violations": viol, "counters": cnt}
    if log.get("spawned") != 1:
        raise core.HarnessError("seam missing: stdio_client_with_initialize did not call anyio.open_process")
    if log.get("negotiated") != answer:
        raise core.HarnessError(f"handshake script out of step: negotiated {log.get('negotiated')!r}, answered {answer!r}")
    # while the handshake is in flight no version has been negotiated: the batch is a batch like any other, it is not refused
    written = log["stdin_after_handshake"]
    rej = [x for x in written if b'"error"' in x]
    if rej:
        viol.append({"sig": {"class": "accepted-batch-answered", "mode": "accepting", "scenario": "batch-while-handshake-in-flight",
                             "preferred": "rejecting" if preferred and not ref_accepts(preferred) else "accepting-or-none"},
                     "msg": f"the child received {len(rej)} error line(s) for a batch sent before any version was negotiated: {rej[:1]}; {where}"})
    others = [x for x in written if b'"error"' not in x]
    if len(others) != 2:
        viol.append({"sig": {"class": "unexpected-stdin-traffic", "scenario": "stdio_client_with_initialize"},
                     "msg": f"expected the initialize request and the initialized notification, the child received {written}; {where}"})
    sub: List[dict] = []
    judge_line(log["late"], answer, log["got"], "batch after the handshake; " + where, sub, cnt)
    for x in sub:
        x["sig"] = {**x["sig"], "scenario": "stdio_client_with_initialize",
                    "negotiated": "library-list" if answer in SUPPORTED_PINNED else "callers-list-only"}
    viol.extend(sub)
    if errors:
        viol.append({"sig": {"class": "loop-error", "scenario": "stdio_client_with_initialize"}, "msg": f"{errors[:2]}; {where}"})
    return {"outcome": "entry:" + ("accepting" if ref_accepts(answer) else "rejecting"), "violations": viol[:12], "counters": cnt}

# ---------------------------------------------------------------------------
# (k) the same member-level histories under the Pydantic-free fallback backend (a child interpreter)
# ---------------------------------------------------------------------------
def _run_fallback(cfg) -> Dict[str, Any]:
    """Runs the inner configurations in a fresh interpreter started with MCP_FORCE_FALLBACK=1 (the backend is
    chosen when chuk_mcp is imported) and folds their observations into one."""
    import os
    import subprocess
    import sys

    env = dict(os.environ, MCP_FORCE_FALLBACK="1")
    p = subprocess.run([sys.executable, "-m", "vf.checks.c13"], input=json.dumps(cfg["inner"]), env=env,
                       capture_output=True, text=True, timeout=600)
    if p.returncode != 0:
        raise core.HarnessError(f"fallback worker failed ({p.returncode}): {p.stderr[-400:]}")
    doc = json.loads(p.stdout.strip().splitlines()[-1])
    if doc.get("pydantic_backend") is not False:
        raise core.HarnessError(f"fallback worker did not run on the fallback backend: {doc.get('pydantic_backend')!r}")
    viol: List[dict] = []
    cnt: Dict[str, int] = {"fallback-blocks": len(cfg["inner"])}
    outs = set()
    for o in doc["obs"]:
        outs.add(str(o.get("outcome")))
        for k, v in (o.get("counters") or {}).items():
            if not k.startswith(("tr:", "st:")):
                cnt[k] = cnt.get(k, 0) + v
        for v in o.get("violations") or []:
            v["sig"] = {**(v.get("sig") or {}), "backend": "fallback"}
            v["msg"] = "[MCP_FORCE_FALLBACK=1] " + str(v.get("msg", ""))
            viol.append(v)
    return {"outcome": "fallback:" + "+".join(sorted(outs))[:200], "violations": viol[:12], "counters": cnt}


def _worker_main() -> None:
    import logging
    import sys

    logging.disable(logging.CRITICAL)
    cfgs = json.loads(sys.stdin.read())
    from chuk_mcp.protocol import mcp_pydantic_base as B

    obs = [run_one(None, c) for c in cfgs]
    for o in obs:
        o.pop("prefix", None)
    sys.stdout.write("\n" + json.dumps({"pydantic_backend": bool(getattr(B, "PYDANTIC_AVAILABLE", None)), "obs": obs}, default=repr) + "\n")


def run_one(ctl: explorer.Ctl, cfg: Dict[str, Any]) -> Dict[str, Any]:
    part = cfg["part"]
    if part == "fallback":
        return _run_fallback(cfg)
    if part == "entry":
        return _run_entry(cfg)
    if part == "pending":
        return _run_pending(cfg)
    if part == "oneread":
        return _run_oneread(cfg)
    if part == "mention":
        return _run_mention(cfg)
    if part == "inbatch":
        return _run_inbatch_handshake(cfg)
    if part == "switch":
        return _run_switch(cfg)
    if part == "congested":
        return _run_congested(cfg)
    if part == "reentry":
        return _run_reentry(cfg)
    if part == "grid":
        return _run_grid(cfg)
    if part == "specials":
        return _run_specials(cfg)
    if part == "seq":
        return _run_seq(cfg)
    if part == "handshake":
        return _run_handshake(cfg)
    if part == "forms":
        return _run_forms(cfg)
    raise core.HarnessError(f"unknown part {part}")


# ---------------------------------------------------------------------------
def _pick(part, cfgs):
    out = []
    for i in sorted({0, len(cfgs) // 2, len(cfgs) - 1}):
        c = dict(cfgs[i])
        if "prefix" in c:
            c["prefix"] = [op_name(OPS_FULL[j]) for j in c["prefix"]]
            c["last"] = f"each of the {len(OPS_SMALL) if c['last'] == 'small' else len(OPS_FULL)} operations"
        if "form" in c:
            c["form"] = INVALID_FORMS[c["form"]][0]
        out.append({"part": part, "index": i, "case": c})
    return out


def _idx(op) -> int:
    return OPS_FULL.index(op)


def run(tier: str, only=None) -> core.Result:
    res = core.Result("C13", "model_checking")
    from chuk_mcp.protocol.types.versioning import SUPPORTED_VERSIONS

    if sorted(SUPPORTED_VERSIONS) != sorted(SUPPORTED_PINNED):
        res.harness_errors.append(f"supported versions changed: {SUPPORTED_VERSIONS} (pinned {SUPPORTED_PINNED}); "
                                  f"extend the operation alphabet")
        res.coverage.update({"evaluations": 0, "distinct_nontrivial": 0, "rule": "-", "samples": []})
        return res

    # (a)
    entry_years = set(range(YEARS[0], YEARS[1] + 1)) if tier == "thorough" else ({2024, 2025, 2026} | set(range(YEARS[0], YEARS[1] + 1, 10)))
    # four blocks per year (months 00-24, 25-49, 50-74, 75-99): the determinism audit then re-runs a third of the grid instead of all of it
    cfgs = [{"part": "grid", "year": y, "m0": m0, "m1": m0 + 25, "entry": y in entry_years}
            for y in range(YEARS[0], YEARS[1] + 1) for m0 in (0, 25, 50, 75)] + [{"part": "specials"}]
    if tier == "quick":
        # smaller blocks in quick (10 months each): the audit's fixed number of re-runs then covers a sixth of the grid
        cfgs = [{"part": "grid", "year": y, "m0": m0, "m1": m0 + 10, "entry": y in entry_years}
                for y in range(YEARS[0], YEARS[1] + 1) for m0 in range(0, 100, 10)] + [{"part": "specials"}]
    out = explorer.explore(RUN, cfgs)
    sched.absorb(res, "a-decision-function-date-grid", RUN, out, cfgs)
    samples = _pick("a-decision-function-date-grid", cfgs)
    ga = res.parts["a-decision-function-date-grid"]["counters"]
    switches = sorted(k for k in ga if k.startswith("switch@"))
    if not res.violations and (ga.get("switches") != 1 or switches != ["switch@" + CUTOFF]):
        res.add_violation({"class": "switch-point", "switches": ga.get("switches", 0)},
                          f"decision changes {ga.get('switches')} times within the yearly blocks, at {switches}; "
                          f"expected exactly one switch at {CUTOFF}",
                          {"ref": "vf.sched:replay", "args": {"run_ref": RUN, "init_ref": None,
                                                               "cfg": {"part": "grid", "year": 2025}, "choices": []}})

    # (b) operation sequences
    depth = 3 if tier == "quick" else 4
    small_idx = [_idx(o) for o in OPS_SMALL]
    full_idx = list(range(len(OPS_FULL)))
    cfgs = [{"part": "seq", "prefix": list(p), "last": "small"} for p in itertools.product(small_idx, repeat=depth - 1)]
    out = explorer.explore(RUN, cfgs)
    sched.absorb(res, f"b-sequences-depth{depth}-batches-le2", RUN, out, cfgs)
    sched.debug_pass(res, f"b-sequences-depth{depth}-batches-le2", RUN, cfgs, every=(25 if tier == "quick" else 500))
    samples += _pick(f"b-sequences-depth{depth}-batches-le2", cfgs)
    if tier == "quick":
        cfgs = [{"part": "seq", "prefix": [a], "last": "full", "lo": lo, "hi": lo + 32} for a in full_idx for lo in range(0, len(OPS_FULL), 32)]
        name = "b-sequences-depth2-batches-le4"
    else:
        cfgs = [{"part": "seq", "prefix": [a, b], "last": "full"} for a in small_idx for b in full_idx]
        name = "b-sequences-depth3-first-le2-then-le4"
    out = explorer.explore(RUN, cfgs)
    sched.absorb(res, name, RUN, out, cfgs)
    samples += _pick(name, cfgs)
    sched.debug_pass(res, name, RUN, cfgs, every=(128 if tier == "quick" else 160))
    sched.debug_pass(res, "a-decision-function-date-grid", RUN, [{"part": "grid", "year": 2025, "m0": 0, "m1": 25, "entry": True}, {"part": "specials"}])

    # (c) handshake and invalid forms
    cfgs = [{"part": "handshake", "preferred": p, "answer": a} for p in range(3) for a in range(3)]
    cfgs += [{"part": "handshake", "preferred_s": p, "answer_s": a, "versions": CALLER_VERSIONS, "ops": "few"}
             for p in CALLER_VERSIONS for a in CALLER_VERSIONS]
    # a second handshake on the same connection: the batch follows the LAST negotiated version
    cfgs += [{"part": "handshake", "preferred_s": CALLER_VERSIONS[0], "answer_s": a, "again": b, "versions": CALLER_VERSIONS, "ops": "few"}
             for a in CALLER_VERSIONS for b in CALLER_VERSIONS if a != b]
    out = explorer.explore(RUN, cfgs)
    sched.absorb(res, "c-real-handshake-then-batch", RUN, out, cfgs)
    sched.debug_pass(res, "c-real-handshake-then-batch", RUN, cfgs, every=4)
    samples += _pick("c-real-handshake-then-batch", cfgs)
    cfgs = [{"part": "forms", "form": i, "version": v} for i in range(len(INVALID_FORMS)) for v in [None] + VERSIONS]
    out = explorer.explore(RUN, cfgs)
    sched.absorb(res, "c-invalid-member-forms", RUN, out, cfgs)
    sched.debug_pass(res, "c-invalid-member-forms", RUN, cfgs, every=3)
    samples += _pick("c-invalid-member-forms", cfgs)

    # (d) congested outgoing side, (e) re-entered transport
    cfgs = [{"part": "congested", "version": vi, "n": n, "order": o, "batches": bi}
            for vi in range(len(CONGEST_VERSIONS)) for n in CONGEST_N for o in ("queue-first", "batch-first")
            for bi in range(len(CONGEST_BATCHES))]
    cfgs += [{"part": "congested", "version": vi, "n": n, "order": o, "batches": bi, "pad": pi}
             for vi in (0, 1, 3) for n in (1, 2, 3) for o in ("queue-first", "batch-first") for bi in (1, 3)
             for pi in range(1, len(CONGEST_PADS))]
    out = explorer.explore(RUN, cfgs)
    sched.absorb(res, "d-rejection-while-outgoing-side-congested", RUN, out, cfgs)
    sched.debug_pass(res, "d-rejection-while-outgoing-side-congested", RUN, cfgs, every=5)
    samples += _pick("d-rejection-while-outgoing-side-congested", cfgs)
    nv = len(REENTRY_VERSIONS)
    short3 = [0, 1, 2]  # None, 2025-06-18, 2025-03-26
    cfgs = [{"part": "reentry", "carrier": c, "versions": vs, "batch": bi}
            for c in ("transport", "client")
            for vs in ([[a, b] for a in range(nv) for b in range(nv)] + [[a, b, d] for a in short3 for b in short3 for d in short3])
            for bi in range(len(REENTRY_BATCHES))]
    out = explorer.explore(RUN, cfgs)
    sched.absorb(res, "e-same-object-entered-again", RUN, out, cfgs)
    samples += _pick("e-same-object-entered-again", cfgs)
    sched.debug_pass(res, "e-same-object-entered-again", RUN, cfgs, every=5)

    # (f) version changes while a batch line is being routed
    cfgs = [{"part": "inbatch", "preferred": p, "answer": a, "pos": pos, "others": "".join(o)}
            for p in range(3) for a in range(3) for n in (1, 2, 3) for o in itertools.product("NR", repeat=n) for pos in range(n + 1)]
    out = explorer.explore(RUN, cfgs)
    sched.absorb(res, "f-handshake-answered-inside-a-batch", RUN, out, cfgs)
    samples += _pick("f-handshake-answered-inside-a-batch", cfgs)
    sched.debug_pass(res, "f-handshake-answered-inside-a-batch", RUN, cfgs, every=3)
    mcfgs = []
    for how, nv in (("set", len(VERSIONS)), ("handshake", len(SUPPORTED_PINNED)), ("none", 1)):
        for vi in range(nv):
            for wi in range(len(VERSIONS)):
                for d in range(N_DISTRACTORS):
                    for b in ("RN", "R", ""):
                        mcfgs.append({"part": "mention", "how": how, "v": vi, "w": wi, "lines": [d], "batch": b})
                for d1 in range(N_DISTRACTORS):
                    for d2 in range(N_DISTRACTORS):
                        if d1 != d2:
                            mcfgs.append({"part": "mention", "how": how, "v": vi, "w": wi, "lines": [d1, d2], "batch": "RN"})
    out = explorer.explore(RUN, mcfgs)
    sched.absorb(res, "g-version-mentioned-in-traffic", RUN, out, mcfgs)
    samples += _pick("g-version-mentioned-in-traffic", mcfgs)
    sched.debug_pass(res, "g-version-mentioned-in-traffic", RUN, mcfgs, every=11)
    nb = len([b for b in OPS_FULL if b[0] == "b" and b[1]])
    pcfgs = [{"part": "pending", "version": ver, "pending": w, "lo": lo, "hi": min(nb, lo + 30)}
             for ver in (None, "2025-03-26", "2025-06-18") for w in PENDING_CHOICES for lo in range(0, nb, 30)]
    out = explorer.explore(RUN, pcfgs)
    sched.absorb(res, "h-pending-per-request-streams", RUN, out, pcfgs)
    samples += _pick("h-pending-per-request-streams", pcfgs)
    sched.debug_pass(res, "h-pending-per-request-streams", RUN, pcfgs, every=7)
    ocfgs = [{"part": "oneread", "v0": a, "v": b, "layout": li, "chunking": ch, "batch": k}
             for a in range(len(VERSIONS) + 1) for b in range(len(VERSIONS)) for li in range(len(_read_layouts()))
             for ch in ("one-read", "line-per-read") for k in ("RN", "R", "", "XR")]
    out = explorer.explore(RUN, ocfgs)
    sched.absorb(res, "i-several-lines-in-one-read", RUN, out, ocfgs)
    samples += _pick("i-several-lines-in-one-read", ocfgs)
    sched.debug_pass(res, "i-several-lines-in-one-read", RUN, ocfgs, every=13)
    # (k) member-level histories again under the fallback backend
    inner_forms = [{"part": "forms", "form": i, "version": v, "parser_decides": True}
                   for i in range(len(INVALID_FORMS) + len(COERCIBLE_FORMS)) for v in (None, "2025-03-26", "2025-06-18")]
    inner_seq = [{"part": "seq", "prefix": [a], "last": "full"} for a in ([_idx(["v", 1]), _idx(["v", 0]), _idx(["s", "R"])])]
    fcfgs = [{"part": "fallback", "inner": inner_forms[i:i + 10]} for i in range(0, len(inner_forms), 10)] \
        + [{"part": "fallback", "inner": [c]} for c in inner_seq]
    out = explorer.explore(RUN, fcfgs)
    sched.absorb(res, "k-fallback-backend-member-histories", RUN, out, fcfgs, min_outcomes=1)
    samples += [{"part": "k-fallback-backend-member-histories", "index": 0, "case": {"inner": "forms x versions and 3 x 128 sequences, MCP_FORCE_FALLBACK=1"}}]
    ecfgs = [{"part": "entry", "preferred": p, "answer": a, "batch": k}
             for p in (None, 0, 1, 2) for a in range(3) for k in ("RN", "R", "", "XN", "RXNR")]
    # the application chooses the version list: revisions the library does not list itself, on both sides of the cut-off
    ecfgs += [{"part": "entry", "preferred_s": p, "answer_s": a, "versions": CALLER_VERSIONS, "batch": k}
              for p in CALLER_VERSIONS for a in CALLER_VERSIONS for k in ("RN", "", "XR")]
    out = explorer.explore(RUN, ecfgs)
    sched.absorb(res, "j-stdio_client_with_initialize", RUN, out, ecfgs)
    samples += _pick("j-stdio_client_with_initialize", ecfgs)
    sched.debug_pass(res, "j-stdio_client_with_initialize", RUN, ecfgs, every=3)
    ncase = len(_switch_cases())
    cfgs = [{"part": "switch", "v0": a, "v": b, "lo": lo, "hi": min(ncase, lo + 20)}
            for a in range(len(SWITCH_V0)) for b in range(len(VERSIONS)) for lo in range(0, ncase, 20)]
    out = explorer.explore(RUN, cfgs)
    sched.absorb(res, "f-set-version-while-routing", RUN, out, cfgs)
    samples += _pick("f-set-version-while-routing", cfgs)
    sched.debug_pass(res, "f-set-version-while-routing", RUN, cfgs, every=9)
    from . import c13_entry
    c13_entry.add_part(res, tier)

    cnt: Dict[str, int] = {}
    dbg_exec = 0
    for pname, p in res.parts.items():
        if pname.endswith("+debug-logging"):
            dbg_exec += p["executions"]  # re-runs of cases already counted: kept out of the headline numbers
            continue
        for k, v in p["counters"].items():
            if k.startswith(("tr:", "st:")):
                cnt[k] = 1
            else:
                cnt[k] = cnt.get(k, 0) + v
    for p in res.parts.values():  # keep the evidence readable: the per-pair keys are folded into two numbers
        for k in [k for k in p["counters"] if k.startswith(("tr:", "st:"))]:
            del p["counters"][k]
    states = sorted(k[3:] for k in cnt if k.startswith("st:"))
    transitions = [k for k in cnt if k.startswith("tr:")]
    cov = res.coverage
    cov["samples"] = samples  # chosen by position in the enumeration, so identical from run to run
    states = sorted(set(states) | {"None"})  # the initial state: no version negotiated
    cov["states"] = len(states)
    cov["canonical_states"] = states
    cov["transitions"] = len(transitions)
    cov["traces_validated_against_impl"] = cnt.get("sequences", 0)
    cov["steps_judged"] = cnt.get("steps", 0)
    cov["date_strings_evaluated"] = cnt.get("strings", 0)
    cov["date_strings_calendar"] = cnt.get("calendar_dates", 0)
    cov["date_strings_non_calendar"] = cnt.get("non_calendar", 0)
    cov["compare_defined_on"] = cnt.get("compare_defined", 0)
    cov["legacy_wrapper_calls"] = cnt.get("legacy_wrapper_calls", 0)
    cov["date_strings_through_all_entry_points"] = cnt.get("entry_point_checks", 0)
    cov["evaluations"] = cnt.get("strings", 0) + cnt.get("sequences", 0)
    cov["empty_batch_observed"] = {k: v for k, v in cnt.items() if k.startswith("empty-batch/")}
    cov["single_messages"] = {k: v for k, v in cnt.items() if k.startswith("single-")}
    cov["reentered_bare_client_recorded"] = {k: v for k, v in cnt.items() if k.startswith("reentered-bare-client/")}
    cov["debug_logging_reruns"] = dbg_exec
    cov["pending_stream_scenarios"] = cnt.get("pending-stream-scenarios", 0)
    cov["one_read_scenarios"] = {"total": cnt.get("one-read-scenarios", 0), "ordering_witnessed_and_judged": cnt.get("one-read/ordering-witnessed", 0),
                                 "not_witnessed_recorded": cnt.get("one-read/ordering-not-witnessed(recorded, not judged)", 0)}
    cov["per_request_streams_recorded"] = {k: v for k, v in cnt.items() if k.startswith("per-request-stream-")}
    cov["version_mention_scenarios"] = cnt.get("version-mention-scenarios", 0)
    cov["fallback_backend_recorded"] = {k: v for k, v in cnt.items() if k.startswith("form-accepted-by-this-backend")}
    cov["congested_scenarios"] = cnt.get("congested-scenarios", 0)
    cov["handshakes_answered_inside_a_batch"] = cnt.get("inbatch-handshakes", 0)
    cov["mid_batch_version_switches"] = cnt.get("mid-batch-switches", 0)
    cov["reentry_scenarios"] = cnt.get("reentry-scenarios", 0)
    cov["operation_alphabet"] = {"small": [op_name(o) for o in OPS_SMALL], "full_size": len(OPS_FULL)}
    cov["depth"] = depth
    cov["exhaustive"] = True
    cov["rule"] = (
        f"(a) every string dddd-dd-dd with year {YEARS[0]}..{YEARS[1]} (incl. non-calendar month/day 00..99), four (quick: ten) blocks per year; the other decision entry points "
        "(both deprecated _supports_batch_processing wrappers, BatchProcessor.can_process_batch / process_message_data after construction and after "
        "update_protocol_version) must agree with the function on "
        + ("every string" if tier == "thorough" else "every string of the years 2024-2026 and of every 10th year (all years in thorough)") + ". "
        f"(b) operations = set_protocol_version(v) for v in {VERSIONS}; single message (response, notification); batch line of "
        "0..4 members each in {valid response R, valid notification N, invalid item X (42 / {jsonrpc} / id-only / string by position)}. "
        f"Every sequence of length {depth} over the alphabet with batches of <=2 members (20 operations), and "
        + ("every sequence of length 2 over the full alphabet with batches of <=4 members (128 operations)" if tier == "quick" else
           "every sequence of length 3 whose first operation is from the 20-operation alphabet and whose second and third are from the "
           "full alphabet with batches of <=4 members (128 operations)")
        + "; each sequence runs on a fresh "
        "StdioClient + scripted child, every step (hence every shorter sequence) is judged against the model. canonical state = negotiated "
        "version (the only field _process_message_data consults; streams are drained after every step); states/transitions = distinct "
        "canonical states / distinct (state, operation) pairs reached. (c) 3x3 real handshakes (preferred x server answer) x 121 batches; 7x7 handshakes with a CALLER-chosen supported_versions list "
        f"{CALLER_VERSIONS} (revisions the library does not list itself, both sides of the cut-off) and 42 double handshakes on one connection (the batch follows "
        "the last negotiated version) x 5 batches; "
        "19 invalid member forms x 6 positions x 6 versions. (d) congested outgoing side: child not reading its stdin, application queues "
        f"{CONGEST_N} messages (buffer is 100) before / after {len(CONGEST_BATCHES)} batch-line sets arrive at {CONGEST_VERSIONS}, then the child resumes: "
        "the child's stdin must hold every application message once, in order, and exactly one -32600 line per rejected batch line; the same with 1-3 "
        f"application messages of {CONGEST_PADS[1:]} bytes of payload (around and beyond a 64 KiB pipe buffer); the child's input is judged as a byte stream cut at LF. "
        "(e) the same StdioTransport object (and, recorded only, the same bare StdioClient) entered 2-3 times with every version pair / triple: "
        "every new connection is judged as 'no version negotiated' until its own set_protocol_version. (f) the version changes while a line is being "
        "routed: the server answers initialize inside ONE batch line (3x3 preferred x answered version, 1-3 other members over {N,R}, response at every "
        "position) - every notification member must reach the notification stream, every member behind the response the read stream, no error line, and "
        "the next line is judged by the recorded version; a consumer calls set_protocol_version(v) right after receiving member #k of a batch "
        "(every batch of 2-4 members over {R,N,X}, every k < number of valid members, 3 initial x 5 new versions) - the decision belongs to the LINE at "
        "arrival, the following line to the new version. (g) after set_protocol_version(v) / a real handshake at v / nothing, one or two single lines that merely mention a version w "
        "(late or unsolicited initialize result, bare {protocolVersion} result, notification, error response, server request, nested member; every "
        "v x w x line, ordered pairs of lines) and then a batch: the negotiated version and the decision must still follow v. "
        "(h) per-request streams (client.new_request_stream) pending for none / the first / middle / last / all response ids of every non-empty batch "
        "of <=4 members at 3 versions: the main read stream must still carry the valid members in order. (i) 2-4 lines in ONE read (and the same lines one "
        "read each as control): a consumer calls set_protocol_version(v) on receiving a trigger line, a batch follows later in the same read; every "
        "(initial, new) version pair x 7 layouts x 4 batches; judged only when the happens-before is witnessed (a single line lies between trigger and batch, "
        "and at the moment of the call nothing behind the trigger had been buffered, received or written) - then everything behind the trigger follows v. "
        "(j) the entry point stdio_client_with_initialize(preferred_version in {none, each supported}, and 7x7 with the caller-chosen supported_versions list) against a child that sends a batch after reading "
        "`initialize` but before answering it (answer = each supported version) and again after the handshake: the first must not be refused (nothing is "
        "negotiated yet), the second follows the answered version. (k) the invalid-member table (19 forms + 1 coercible incl. wrongly TYPED members: id array / object / boolean, scalar params, error string / array) at 3 versions and "
        "3 x 128 two-step sequences are run again in a child interpreter with MCP_FORCE_FALLBACK=1 (Pydantic-free backend), same oracle. "
        "A slice of every part is re-run with library logging at DEBUG. distinct_nontrivial = distinct observation digests of the blocks"
    )
    res.assumptions = [
        "the scripted process implements the subset of anyio.abc.Process the transport uses",
        "JSON-RPC 2.0 section 5: the rejection error may carry id null (the request id of a rejected batch cannot be determined); "
        "apart from that the line must pass the independent envelope reference",
        "an empty batch [] is a batch array: at a version without batching it must be answered with exactly one -32600 error like any other batch; "
        "at a version with batching nothing may be delivered and stdin may stay silent or carry one -32600 error (observed behaviour is recorded)",
        "delivery of single messages is C05's subject; here a single message must only never be answered as a batch (delivery is recorded)",
        "malformed version strings other than None/'' (recorded under part a, 'recorded_malformed') are outside the statement",
        "members with a wrong or missing 'jsonrpc' member or a non-integer error code are outside the invalid-item alphabet (accepted by the parser, pinned by the repository's suite)",
        "notification members are judged on the read stream; the additional notification stream is recorded",
        "a bare StdioClient object that is entered a second time is outside the statement (which connection its stored version belongs to is not defined): "
        "what it does with the first batch of the new connection is recorded under reentered_bare_client_recorded, not judged; "
        "StdioTransport creates a fresh client per entry, so its new connection has no negotiated version and must accept batches",
        "accept/reject is decided per batch LINE when it arrives: a version recorded while its members are still being routed applies from the next line on",
        "handshake answered inside a batch: members in front of the response are consumed by the waiting request (send_message skips them); their delivery is "
        "observed on the notification stream, members behind the response on the read stream",
        "several lines in one read: a batch line is judged by the new version only if set_protocol_version() provably returned before the reader reached it "
        "(witness above); layouts where the batch directly follows the trigger are run and recorded, not judged",
        "whether a pending per-request stream itself receives its response is recorded (per_request_streams_recorded), the statement speaks about the read stream",
        "a batch that arrives while the handshake of stdio_client_with_initialize is in flight: its members are consumed by the waiting initialize request, so only "
        "'no -32600 line is written' is judged for it",
        "fallback backend: a form is used only if the library's own parser (in that backend) refuses it - some are coerced instead (true -> 1, 1.5 -> '1.5', "
        "5 -> '5'), which is backend agreement, C09's subject; they are recorded under form-accepted-by-this-backend",
        "under congestion the position of the -32600 line among the application's messages is not prescribed, only its presence exactly once",
    ]
    return res


if __name__ == "__main__":
    _worker_main()
