"""Configuration-specific worker processes (E-INPUT, relational properties).

Some properties relate two *configurations* that are fixed when chuk_mcp is
imported (validation backend: Pydantic / ``MCP_FORCE_FALLBACK=1``; JSON codec:
orjson importable / masked).  A check starts long-lived child interpreters, one
or more per configuration, feeds every one of them the same deterministic case
list and compares their answers in the parent.

Wire protocol (stdin/stdout of the child, one JSON document per line, ASCII):

    child  -> parent   {"hello": {...facts about the configuration...}}
    parent -> child    [case, case, ...]            (a batch)
    child  -> parent   [answer, answer, ...]        (same length, same order)

Values that must survive the pipe exactly (int/float/bool distinction, -0.0,
integers of any size, every string) travel in the type-tagged form produced by
``enc`` and read back by ``dec``.

The child resolves ``handler_ref`` ("module:function") *after* the configuration
has been applied (environment variables set by the parent, import blocker
installed here), and calls it once per case.  Handler modules must therefore
not import chuk_mcp at module level.
"""
from __future__ import annotations

import hashlib
import importlib
import json
import os
import subprocess
import sys
import threading
import traceback
from typing import Any, Callable, Dict, List, Optional, Sequence

PY = "/venv/bin/python"
MASK_ENV = "VF_MASK_MODULES"


# ---------------------------------------------------------------------------
# type-tagged JSON codec
# ---------------------------------------------------------------------------
def enc(v: Any) -> Any:
    """Type-tagged, pipe-safe encoding of a JSON-like Python value."""
    if v is None:
        return ["n"]
    if v is True:
        return ["b", 1]
    if v is False:
        return ["b", 0]
    t = type(v)
    if t is int:
        return ["i", str(v)]
    if t is float:
        return ["f", v.hex() if v == v and v not in (float("inf"), float("-inf")) else repr(v)]
    if t is str:
        return ["s", v]
    if t is list or t is tuple:
        return ["l" if t is list else "t", [enc(x) for x in v]]
    if t is dict:
        return ["d", [[enc(k) if not isinstance(k, str) else ["s", k], enc(x)] for k, x in v.items()]]
    if isinstance(v, (bytes, bytearray)):
        return ["y", bytes(v).hex()]
    if isinstance(v, bool):
        return ["b", int(v)]
    if isinstance(v, int):
        return ["i", str(int(v)), t.__name__]
    if isinstance(v, float):
        return ["f", float(v).hex(), t.__name__]
    if isinstance(v, str):
        return ["s", str(v), t.__name__]
    return ["x", t.__name__, repr(v)[:200]]


def dec(t: Any) -> Any:
    k = t[0]
    if k == "n":
        return None
    if k == "b":
        return bool(t[1])
    if k == "i":
        return int(t[1])
    if k == "f":
        s = t[1]
        return float.fromhex(s) if "x" in s else float(s)
    if k == "s":
        return t[1]
    if k == "l":
        return [dec(x) for x in t[1]]
    if k == "t":
        return tuple(dec(x) for x in t[1])
    if k == "d":
        return {dec(a): dec(b) for a, b in t[1]}
    if k == "y":
        return bytes.fromhex(t[1])
    return ("<opaque>", t[1], t[2] if len(t) > 2 else None)


def canon(v: Any) -> str:
    """Canonical text of a value: type-strict, dict key order ignored."""
    return json.dumps(_canon(v), sort_keys=True)


def _canon(v: Any) -> Any:
    if type(v) is dict:
        return {"d": {str(k): _canon(x) for k, x in v.items()}}
    if type(v) is list:
        return {"l": [_canon(x) for x in v]}
    return enc(v)


def line(obj: Any) -> str:
    return json.dumps(obj, ensure_ascii=True, allow_nan=False, separators=(",", ":"))


# ---------------------------------------------------------------------------
# parent side
# ---------------------------------------------------------------------------
class WorkerDied(Exception):
    pass


def _child_env(env_set: Dict[str, str], env_unset: Sequence[str], mask: Sequence[str]) -> Dict[str, str]:
    env = dict(os.environ)
    for k in env_unset:
        env.pop(k, None)
    env.update(env_set)
    # the children must import exactly the tree the parent imports
    if not env.get("PYTHONPATH"):
        env["PYTHONPATH"] = os.pathsep.join(p for p in sys.path if p and os.path.isdir(p))
    env["PYTHONHASHSEED"] = "0"
    env["PYTHONDONTWRITEBYTECODE"] = "1"
    if mask:
        env[MASK_ENV] = ",".join(mask)
    else:
        env.pop(MASK_ENV, None)
    return env


class Worker:
    def __init__(self, config: Dict[str, Any], handler_ref: str):
        self.config = config
        self.handler_ref = handler_ref
        env = _child_env(config.get("env_set", {}), config.get("env_unset", ()), config.get("mask", ()))
        here = os.path.dirname(os.path.dirname(os.path.abspath(__file__)))
        self.p = subprocess.Popen(
            [PY, "-u", "-m", "vf.workers", handler_ref],
            stdin=subprocess.PIPE, stdout=subprocess.PIPE,
            stderr=None if os.environ.get("VERIF_DEBUG") else subprocess.DEVNULL,
            env=env, cwd=here, text=True, encoding="ascii", bufsize=1 << 16,
        )
        self.hello = self._read().get("hello")

    def _read(self) -> Any:
        ln = self.p.stdout.readline()
        if not ln:
            raise WorkerDied(f"worker {self.config.get('name')} ({self.handler_ref}) closed its pipe, rc={self.p.poll()}")
        doc = json.loads(ln)
        if isinstance(doc, dict) and "fatal" in doc:
            raise WorkerDied(f"worker {self.config.get('name')}: {doc['fatal'][-1500:]}")
        return doc

    def ask(self, cases: List[Any]) -> List[Any]:
        self.p.stdin.write(line(cases) + "\n")
        self.p.stdin.flush()
        ans = self._read()
        if not isinstance(ans, list) or len(ans) != len(cases):
            raise WorkerDied(f"worker {self.config.get('name')}: malformed answer")
        return ans

    def close(self):
        try:
            self.p.stdin.close()
        except Exception:
            pass
        try:
            self.p.wait(timeout=10)
        except Exception:
            self.p.kill()
        try:
            self.p.stdout.close()
        except Exception:
            pass


class Pool:
    """n identical workers of one configuration; ``map`` keeps case order."""

    def __init__(self, config: Dict[str, Any], handler_ref: str, n: int = 1):
        self.config = config
        self.handler_ref = handler_ref
        self.workers: List[Worker] = []
        errs: List[BaseException] = []

        def start():
            try:
                self.workers.append(Worker(config, handler_ref))
            except BaseException as e:  # noqa: BLE001
                errs.append(e)

        ts = [threading.Thread(target=start) for _ in range(max(1, n))]
        for t in ts:
            t.start()
        for t in ts:
            t.join()
        if errs:
            self.close()
            raise errs[0]
        hellos = {json.dumps(w.hello, sort_keys=True) for w in self.workers}
        if len(hellos) != 1:
            self.close()
            raise WorkerDied(f"workers of configuration {config.get('name')} disagree about it: {sorted(hellos)}")
        self.hello = self.workers[0].hello
        self._seen: List[List[int]] = [[] for _ in self.workers]
        self.last_plan: Dict[str, Any] = {}
        self.plans: List[Dict[str, Any]] = []

    def map(self, cases: Sequence[Any], batch: Optional[int] = None) -> List[Any]:
        """Answers in case order.  Batches are assigned to the workers statically
        (batch k goes to worker k mod n), so the sequence of cases every worker
        process sees - its *history* - is a function of the case list and the
        number of workers, not of thread timing.  ``history_before(i)`` gives it back."""
        cases = list(cases)
        if not cases:
            return []
        nw = len(self.workers)
        if batch is None:
            batch = max(1, min(500, -(-len(cases) // (nw * 4))))
        starts = list(range(0, len(cases), batch))
        out: List[Any] = [None] * len(cases)
        errs: List[BaseException] = []
        self.last_plan = {"batch": batch, "workers": nw, "n": len(cases), "offset": [len(h) for h in self._seen]}
        self.plans.append(self.last_plan)
        for wi in range(nw):
            self._seen[wi].extend(i for k, s in enumerate(starts) if k % nw == wi for i in range(s, min(s + batch, len(cases))))

        def drive(wi: int, w: Worker):
            for k, s in enumerate(starts):
                if k % nw != wi or errs:
                    continue
                try:
                    out[s:s + batch] = w.ask(cases[s:s + batch])
                except BaseException as e:  # noqa: BLE001
                    errs.append(e)
                    return

        ts = [threading.Thread(target=drive, args=(wi, w)) for wi, w in enumerate(self.workers)]
        for t in ts:
            t.start()
        for t in ts:
            t.join()
        if errs:
            raise errs[0]
        return out

    def history_before(self, i: int, call: int = -1) -> List[int]:
        """Indices (into the case list of that map call) of the cases the worker that
        answered case i had answered before it during that call, in order."""
        plan = self.plans[call]
        k = i // plan["batch"]
        wi = k % plan["workers"]
        nxt = self.plans[call + 1]["offset"][wi] if call != -1 and call + 1 < len(self.plans) else None
        seq = self._seen[wi][plan["offset"][wi]:nxt]
        return seq[:seq.index(i)]

    def close(self):
        for w in self.workers:
            w.close()
        self.workers = []

    def __enter__(self):
        return self

    def __exit__(self, *a):
        self.close()
        return False


_LOCAL: Dict[str, Dict[str, "Pool"]] = {}


def local_pools(configs: Sequence[Dict[str, Any]], handler_ref: str, n_each: int = 1, tag: str = "") -> Dict[str, "Pool"]:
    """Per-process cache of one Pool per configuration (used by forked driver
    processes: each driver owns its own children; they exit when the driver's
    end of their stdin pipe closes)."""
    key = handler_ref + "|" + tag + "|" + str(os.getpid())
    if key not in _LOCAL:
        pools: Dict[str, Pool] = {}
        try:
            for cfg in configs:
                pools[cfg["name"]] = Pool(cfg, handler_ref, n_each)
        except BaseException:
            for p in pools.values():
                p.close()
            raise
        _LOCAL[key] = pools
    return _LOCAL[key]


def n_total_workers() -> int:
    try:
        return max(1, int(os.environ.get("VERIF_WORKERS", "") or min(16, os.cpu_count() or 1)))
    except ValueError:
        return 1


def per_config_workers(n_configs: int) -> int:
    try:
        total = max(1, int(os.environ.get("VERIF_WORKERS", "") or min(16, os.cpu_count() or 1)))
    except ValueError:
        total = 1
    return max(1, total // max(1, n_configs))


def audit_indices(cases: Sequence[Any], mod: int) -> List[int]:
    """Deterministic 1-in-mod subset, chosen by a digest of the case itself."""
    idx = []
    for i, c in enumerate(cases):
        h = hashlib.blake2b(line(c).encode("ascii"), digest_size=8).digest()
        if int.from_bytes(h, "big") % mod == 0:
            idx.append(i)
    return idx


def audit(config: Dict[str, Any], handler_ref: str, cases: Sequence[Any], answers: Sequence[Any], mod: int,
          cap: int = 2000) -> Dict[str, Any]:
    """Re-ask a deterministic subset in one fresh worker (reverse order) and compare."""
    idx = audit_indices(cases, mod)[:cap]
    if not idx:
        idx = [0] if cases else []
    idx = list(reversed(idx))
    with Pool(config, handler_ref, 1) as pool:
        again = pool.map([cases[i] for i in idx], batch=200)
    bad = [i for i, a in zip(idx, again) if line(a) != line(answers[i])]
    return {"reasked": len(idx), "mismatches": len(bad), "first_mismatch_index": bad[0] if bad else None,
            "mismatch_indices": bad, "order": idx, "again": {i: a for i, a in zip(idx, again) if i in set(bad)}}


def fresh_sequence(config: Dict[str, Any], handler_ref: str, cases: Sequence[Any]) -> List[Any]:
    """Answers of ONE brand-new worker process that is given exactly this sequence."""
    with Pool(config, handler_ref, 1) as pool:
        return pool.map(list(cases), batch=max(1, len(cases)))


def fresh_sequences(config: Dict[str, Any], handler_ref: str, seqs: Sequence[Sequence[Any]], parallel: int = 8) -> List[List[Any]]:
    """fresh_sequence for many sequences, a bounded number of processes at a time."""
    out: List[Any] = [None] * len(seqs)
    errs: List[BaseException] = []
    nxt = [0]
    lock = threading.Lock()

    def run():
        while not errs:
            with lock:
                i = nxt[0]
                nxt[0] += 1
            if i >= len(seqs):
                return
            try:
                out[i] = fresh_sequence(config, handler_ref, seqs[i])
            except BaseException as e:  # noqa: BLE001
                errs.append(e)

    ts = [threading.Thread(target=run) for _ in range(max(1, min(parallel, len(seqs))))]
    for t in ts:
        t.start()
    for t in ts:
        t.join()
    if errs:
        raise errs[0]
    return out


# ---------------------------------------------------------------------------
# child side
# ---------------------------------------------------------------------------
class _Blocker:
    """sys.meta_path entry that makes the named top-level modules unimportable."""

    def __init__(self, names):
        self.names = set(names)

    def find_spec(self, fullname, path=None, target=None):
        if fullname.split(".")[0] in self.names:
            raise ImportError(f"{fullname} is masked for this verification worker")
        return None


def install_mask(names: Sequence[str]) -> None:
    names = [n for n in names if n]
    if not names:
        return
    for m in list(sys.modules):
        if m.split(".")[0] in names:
            del sys.modules[m]
    sys.meta_path.insert(0, _Blocker(names))


def _resolve(ref: str):
    mod, _, name = ref.partition(":")
    return getattr(importlib.import_module(mod), name)


def child_main(argv: Sequence[str]) -> int:
    import logging

    out = os.fdopen(os.dup(1), "w", encoding="ascii", buffering=1 << 16)
    devnull = os.open(os.devnull, os.O_WRONLY)
    os.dup2(devnull, 1)
    sys.stdout = open(os.devnull, "w")
    if not os.environ.get("VERIF_DEBUG"):
        os.dup2(devnull, 2)

    def send(doc):
        out.write(line(doc) + "\n")
        out.flush()

    try:
        logging.disable(logging.CRITICAL)
        install_mask(os.environ.get(MASK_ENV, "").split(","))
        handler_ref = argv[0]
        handle: Callable[[Any], Any] = _resolve(handler_ref)
        mod = importlib.import_module(handler_ref.partition(":")[0])
        hello = getattr(mod, "child_hello", lambda: {})()
        send({"hello": hello})
    except BaseException:  # noqa: BLE001
        send({"fatal": traceback.format_exc()})
        return 3
    for ln in sys.stdin:
        if not ln.strip():
            continue
        try:
            cases = json.loads(ln)
            answers = []
            for c in cases:
                try:
                    answers.append(handle(c))
                except BaseException:  # noqa: BLE001 - reported to the parent as harness trouble
                    answers.append({"harness_exc": traceback.format_exc()[-1200:]})
            send(answers)
        except BaseException:  # noqa: BLE001
            send({"fatal": traceback.format_exc()})
            return 3
    return 0


if __name__ == "__main__":
    sys.exit(child_main(sys.argv[1:]))
