"""Independent JSON-RPC 2.0 envelope reference (does not import chuk_mcp)."""
from __future__ import annotations

from typing import Any, Optional, Tuple


def is_id(x: Any) -> bool:
    return (isinstance(x, int) and not isinstance(x, bool)) or isinstance(x, str)


def classify(obj: Any) -> Tuple[Optional[str], str]:
    """Return (kind, reason).  kind in request/notification/result/error or None."""
    if not isinstance(obj, dict):
        return None, "not an object"
    if obj.get("jsonrpc") != "2.0":
        return None, "jsonrpc member is not '2.0'"
    has_method = "method" in obj and obj["method"] is not None
    if has_method:
        if not isinstance(obj["method"], str):
            return None, "method is not a string"
        if "result" in obj and obj["result"] is not None or "error" in obj and obj["error"] is not None:
            return None, "request/notification with result or error"
        if "params" in obj and obj["params"] is not None and not isinstance(obj["params"], (dict, list)):
            return None, "params is not structured"
        if "id" in obj and obj["id"] is not None:
            if not is_id(obj["id"]):
                return None, "id is not a string or integer"
            return "request", ""
        if "id" in obj:
            return None, "id present but null"
        return "notification", ""
    if "id" not in obj or not is_id(obj["id"]):
        return None, "response without string/integer id"
    has_r = "result" in obj
    has_e = "error" in obj and obj["error"] is not None
    if has_r and has_e:
        return None, "both result and error"
    if has_e:
        e = obj["error"]
        if not isinstance(e, dict):
            return None, "error is not an object"
        if not (isinstance(e.get("code"), int) and not isinstance(e.get("code"), bool)):
            return None, "error.code is not an integer"
        if not isinstance(e.get("message"), str):
            return None, "error.message is not a string"
        return "error", ""
    if has_r:
        return "result", ""
    return None, "neither method, result nor error"


def strict_eq(a: Any, b: Any) -> bool:
    """JSON value equality with int/float/bool kept distinct and -0.0 != 0.0."""
    if type(a) is not type(b):
        return False
    if isinstance(a, dict):
        return a.keys() == b.keys() and all(strict_eq(a[k], b[k]) for k in a)
    if isinstance(a, list):
        return len(a) == len(b) and all(strict_eq(x, y) for x, y in zip(a, b))
    if isinstance(a, float):
        import math

        if a != a and b != b:
            return True
        return a == b and math.copysign(1, a) == math.copysign(1, b)
    return a == b


def normalise(obj: dict) -> dict:
    """Kind + the members that matter, from a wire dict (absent == None dropped at top level)."""
    kind, _ = classify(obj)
    out = {"kind": kind}
    for k in ("id", "method", "params", "result", "error"):
        if k in obj and not (obj[k] is None and k != "result"):
            out[k] = obj[k]
    if "result" in out and out["result"] is None and kind != "result":
        del out["result"]
    return out


def dump_msg(m: Any) -> Any:
    """Wire dict of a delivered library message object (or list of them)."""
    if isinstance(m, list):
        return [dump_msg(x) for x in m]
    if isinstance(m, dict):
        return m
    return m.model_dump(exclude_none=True)
