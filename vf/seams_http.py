"""Scripted HTTP server seam: replaces the lowest httpx layer
(``httpx.AsyncHTTPTransport.handle_async_request``), so redirects, header
handling, JSON/text decoding and streaming stay httpx's real code, and the
library may build ``AsyncClient`` objects however and whenever it likes.
"""
from __future__ import annotations

import asyncio
import inspect
from typing import Any, Callable, Dict, List, Optional

import httpx


class ScriptedStream(httpx.AsyncByteStream):
    """Response body whose chunks are released by the harness."""

    def __init__(self):
        self._chunks: List[bytes] = []
        self._eof = False
        self._waiter: Optional[asyncio.Future] = None
        self.closed = False
        self.error: Optional[BaseException] = None

    def feed(self, data: bytes):
        self._chunks.append(data)
        self._wake()

    def feed_eof(self):
        self._eof = True
        self._wake()

    def fail(self, exc: BaseException):
        self.error = exc
        self._wake()

    def _wake(self):
        w = self._waiter
        if w is not None and not w.done():
            w.set_result(None)

    async def __aiter__(self):
        while True:
            if self._chunks:
                yield self._chunks.pop(0)
                continue
            if self.error is not None:
                raise self.error
            if self._eof or self.closed:
                return
            self._waiter = asyncio.get_running_loop().create_future()
            try:
                await self._waiter
            finally:
                self._waiter = None

    async def aclose(self):
        self.closed = True
        self._wake()


class Recorded:
    def __init__(self, request: httpx.Request, body: bytes, t: float):
        self.method = request.method
        self.url = str(request.url)
        self.headers = {k.lower(): v for k, v in request.headers.items()}
        # every header line as it goes on the wire (lower-cased name, value), duplicates kept
        self.raw_headers = [(k.decode("latin-1").lower(), v.decode("latin-1")) for k, v in request.headers.raw]
        self.body = body
        self.t = t
        self.timeout = dict(request.extensions.get("timeout") or {})

    def json(self):
        import json

        try:
            return json.loads(self.body.decode("utf-8"))
        except Exception:
            return None


class patched_httpx:
    """handler(recorded_request) -> httpx.Response | BaseException | awaitable of those."""

    def __init__(self, handler: Callable[[Recorded], Any]):
        self.handler = handler
        self.requests: List[Recorded] = []
        self.transports_created = 0
        self.transports_closed = 0

    def __enter__(self):
        T = httpx.AsyncHTTPTransport
        if not hasattr(T, "handle_async_request"):
            raise RuntimeError("seam missing: httpx.AsyncHTTPTransport.handle_async_request")
        self._orig = {n: getattr(T, n) for n in ("__init__", "handle_async_request", "aclose", "__aenter__", "__aexit__")}
        outer = self

        def init(self_t, *a, **kw):
            outer.transports_created += 1
            self_t._pool = None

        async def handle(self_t, request: httpx.Request) -> httpx.Response:
            try:
                body = request.content
            except httpx.RequestNotRead:
                body = await request.aread()
            rec = Recorded(request, body, asyncio.get_running_loop().time())
            outer.requests.append(rec)
            res = outer.handler(rec)
            if inspect.isawaitable(res):
                res = await res
            if isinstance(res, BaseException):
                raise res
            res.request = request
            return res

        async def aclose(self_t):
            outer.transports_closed += 1

        async def aenter(self_t):
            return self_t

        async def aexit(self_t, *a):
            outer.transports_closed += 1

        T.__init__ = init
        T.handle_async_request = handle
        T.aclose = aclose
        T.__aenter__ = aenter
        T.__aexit__ = aexit
        return self

    def __exit__(self, *a):
        T = httpx.AsyncHTTPTransport
        for n, f in self._orig.items():
            setattr(T, n, f)
        return False
