"""Generic driver for the package's ``send_*`` coroutine helpers.

* ``discover()`` walks the installed ``chuk_mcp`` package (pkgutil + inspect) and
  returns every coroutine function whose name starts with ``send_`` - nothing is
  listed by hand, so a new helper is picked up on the next run.
* ``build_kwargs()`` produces *type-directed* arguments from the signature
  (``typing.get_type_hints``): one small value per annotation, models built
  from their own field annotations.  A required parameter whose annotation
  cannot be satisfied makes the helper *uncallable* - the checks turn that into
  a harness error naming the helper, so it cannot be skipped silently.
* ``drive()`` runs one call on the virtual loop against harness-owned anyio
  memory streams; a scripted responder task consumes the write stream, records
  every message the helper emits and answers each request as the script says.

Used by C07 (error classification of every typed helper) and C02 (everything
the helpers emit).
"""
from __future__ import annotations

import asyncio
import importlib
import inspect
import math
import pkgutil
import typing
from typing import Any, Callable, Dict, List, Optional, Tuple

from . import sched
from .vloop import new_loop

REQUEST = "request"
NOTIFY = "notification"

STREAM_PARAMS = ("read_stream", "write_stream", "timeout")


class Uncallable(Exception):
    """The driver cannot produce arguments for a discovered helper."""


# ---------------------------------------------------------------------------
# discovery
# ---------------------------------------------------------------------------
def discover(package: str = "chuk_mcp") -> Dict[str, Any]:
    """Returns {"helpers": [ {name, kind, params} ], "methods": [...], "import_errors": [...]}.

    ``name`` is "module:qualname" of the function's *home* module (re-exports are
    the same function and are counted once)."""
    pkg = importlib.import_module(package)
    found: Dict[str, Any] = {}
    methods: Dict[str, Any] = {}
    import_errors: List[str] = []
    modules = [pkg]
    for m in pkgutil.walk_packages(pkg.__path__, package + "."):
        try:
            modules.append(importlib.import_module(m.name))
        except Exception as e:  # noqa: BLE001
            import_errors.append(f"{m.name}: {type(e).__name__}: {str(e)[:120]}")
    for mod in modules:
        for n, o in list(vars(mod).items()):
            if inspect.iscoroutinefunction(o) and n.startswith("send_"):
                home = getattr(o, "__module__", "") or ""
                if not home.startswith(package):
                    continue
                found[f"{home}:{o.__qualname__}"] = o
            elif inspect.isclass(o) and (getattr(o, "__module__", "") or "").startswith(package):
                for n2, o2 in list(vars(o).items()):
                    f = o2.__func__ if isinstance(o2, (classmethod, staticmethod)) else o2
                    if n2.startswith("send_") and inspect.iscoroutinefunction(f):
                        methods[f"{o.__module__}:{o.__qualname__}.{n2}"] = f
    helpers = []
    for name in sorted(found):
        f = found[name]
        params = list(inspect.signature(f).parameters)
        if "read_stream" in params and "write_stream" in params:
            kind = REQUEST
        elif "write_stream" in params:
            kind = NOTIFY
        else:
            kind = "unknown"
        helpers.append({"name": name, "kind": kind, "params": params})
    return {"helpers": helpers, "methods": sorted(methods), "import_errors": sorted(import_errors)}


def resolve(name: str):
    mod, _, qn = name.partition(":")
    o = importlib.import_module(mod)
    for p in qn.split("."):
        o = getattr(o, p)
    return o


def short(name: str) -> str:
    return name.rpartition(":")[2]


# ---------------------------------------------------------------------------
# type-directed values
# ---------------------------------------------------------------------------
def _is_model(t) -> bool:
    return inspect.isclass(t) and hasattr(t, "model_validate") and hasattr(t, "model_dump")


def _model_fields(cls) -> List[Tuple[str, str, Any, bool]]:
    """[(field name, wire name, annotation, required)]"""
    out = []
    mf = getattr(cls, "model_fields", None)
    try:
        hints = typing.get_type_hints(cls)
    except Exception:  # noqa: BLE001
        hints = dict(getattr(cls, "__annotations__", {}))
    if isinstance(mf, dict) and mf:
        for fname, info in mf.items():
            ann = hints.get(fname, getattr(info, "annotation", Any))
            alias = getattr(info, "alias", None) or fname
            req = info.is_required() if hasattr(info, "is_required") else False
            out.append((fname, alias, ann, bool(req)))
        return out
    for fname, ann in hints.items():
        if fname.startswith("_") or fname == "model_config":
            continue
        out.append((fname, fname, ann, not hasattr(cls, fname)))
    return out


class Profile:
    """rich=False: only required parameters / fields, smallest values.
    rich=True : every optional parameter that can be built gets a value.
    arm       : which arm of a Union is taken (modulo the number of buildable arms).
    payload   : JSON object handed to every ``Dict[str, Any]`` parameter (None = a default)."""

    def __init__(self, rich: bool = False, arm: int = 0, payload: Any = None, text: str = "x"):
        self.rich = rich
        self.arm = arm
        self.payload = payload
        self.text = text
        self.payload_params: List[str] = []


def value_for(ann: Any, prof: Profile, depth: int = 0, wire: bool = False, name: str = "") -> Any:
    """A value of the annotated type (``wire=True``: its JSON form).  Raises Uncallable."""
    if depth > 6:
        raise Uncallable(f"type nesting too deep at {name}")
    origin = typing.get_origin(ann)
    args = typing.get_args(ann)
    if ann is Any or ann is inspect.Parameter.empty or ann is object:
        return None
    if ann is type(None):
        return None
    if ann is str:
        return prof.text
    if ann is bool:
        return True
    if ann is int:
        return 7
    if ann is float:
        return 0.5
    if origin is typing.Literal:
        return args[0]
    if origin is typing.Union:
        arms = [a for a in args if a is not type(None)]
        optional = len(arms) != len(args)
        if optional and not prof.rich and depth > 0:
            return None
        ok_arms = []
        mark = len(prof.payload_params)
        for a in arms:
            try:
                value_for(a, prof, depth + 1, wire, name)
                ok_arms.append(a)
            except Uncallable:
                pass
            del prof.payload_params[mark:]
        if not ok_arms:
            if optional:
                return None
            raise Uncallable(f"no arm of {ann} can be built for {name}")
        return value_for(ok_arms[prof.arm % len(ok_arms)], prof, depth + 1, wire, name)
    if origin in (dict, typing.Dict) or ann is dict:
        if not args or (args[0] is str and args[1] is Any):
            if depth <= 2 and name and not wire:
                prof.payload_params.append(name)
            if prof.payload is not None:
                return prof.payload
            return {"k": "v"} if prof.rich else {}
        return {value_for(args[0], prof, depth + 1, wire, name): value_for(args[1], prof, depth + 1, wire, name)}
    if origin in (list, typing.List, typing.Sequence) or ann is list:
        if not args:
            return []
        return [value_for(args[0], prof, depth + 1, wire, name)]
    if origin in (tuple, typing.Tuple):
        return [value_for(a, prof, depth + 1, wire, name) for a in args if a is not Ellipsis]
    if _is_model(ann):
        obj = {}
        for fname, alias, fann, req in _model_fields(ann):
            if not req and not prof.rich:
                continue
            if not req and depth >= 2:
                continue
            try:
                v = value_for(fann, prof, depth + 1, True, alias)
            except Uncallable:
                if req:
                    raise
                continue
            if v is None and not req:
                continue
            obj[alias] = v
        if wire:
            return obj
        try:
            return ann.model_validate(obj)
        except Exception as e:  # noqa: BLE001
            raise Uncallable(f"{ann.__name__}.model_validate({obj}) failed for {name}: {e}") from None
    if inspect.isclass(ann) and issubclass(ann, str):  # Enum(str)
        try:
            return list(ann)[0]
        except Exception:  # noqa: BLE001
            pass
    raise Uncallable(f"no generator for annotation {ann!r} of {name}")


def build_kwargs(func: Callable, prof: Profile, skip: Tuple[str, ...] = STREAM_PARAMS,
                 fixed: Optional[Dict[str, Any]] = None) -> Dict[str, Any]:
    """Type-directed keyword arguments for everything except the stream parameters."""
    fixed = fixed or {}
    sig = inspect.signature(func)
    try:
        hints = typing.get_type_hints(func)
    except Exception as e:  # noqa: BLE001
        raise Uncallable(f"type hints of {func.__qualname__} cannot be resolved: {e}") from None
    kw: Dict[str, Any] = {}
    prof.payload_params = []
    for pname, p in sig.parameters.items():
        if pname in skip:
            continue
        if pname in fixed:
            kw[pname] = fixed[pname]
            continue
        if p.kind in (p.VAR_POSITIONAL, p.VAR_KEYWORD):
            continue
        has_default = p.default is not inspect.Parameter.empty
        ann = hints.get(pname, p.annotation)
        if has_default and not prof.rich:
            continue
        if ann is inspect.Parameter.empty:
            if has_default:
                continue
            raise Uncallable(f"{func.__qualname__}: required parameter {pname} has no annotation")
        try:
            v = value_for(ann, prof, 0, False, pname)
        except Uncallable:
            if has_default:
                continue
            raise
        if v is None and has_default:
            continue
        kw[pname] = v
    return kw


def result_for(func: Callable, request: Dict[str, Any]) -> Any:
    """A type-directed *successful* result for the helper's return annotation (wire form)."""
    try:
        ret = typing.get_type_hints(func).get("return", Any)
    except Exception:  # noqa: BLE001
        ret = Any
    if _is_model(ret):
        prof = Profile(rich=False)
        obj = value_for(ret, prof, 0, True, "result")
        # a server echoes the version it was offered
        pv = (request.get("params") or {}).get("protocolVersion")
        if "protocolVersion" in obj and isinstance(pv, str):
            obj["protocolVersion"] = pv
        return obj
    return {}


# ---------------------------------------------------------------------------
# incoming messages
# ---------------------------------------------------------------------------
def incoming(wire: Dict[str, Any], mode: str = "parsed"):
    """Library object for a wire dict: through the library's parser, or through
    the unified message class's constructor.  Raises if that route rejects it."""
    from chuk_mcp.protocol.messages import json_rpc_message as jm

    if mode == "parsed":
        return jm.parse_message(wire)
    if mode == "constructed":
        return jm.JSONRPCMessage(**wire)
    raise KeyError(mode)


def dump(m: Any) -> Any:
    if isinstance(m, (dict, list, str, int, float)) or m is None:
        return m
    try:
        return m.model_dump(exclude_none=True)
    except Exception:  # noqa: BLE001
        return repr(m)


# ---------------------------------------------------------------------------
# one call on the virtual loop
# ---------------------------------------------------------------------------
def drive(func: Callable, kwargs: Dict[str, Any], script: Optional[Callable[[Dict[str, Any], int], List[Any]]],
          kind: str = REQUEST, timeout: float = 2.0) -> Dict[str, Any]:
    """Call ``func(read_stream, write_stream, **kwargs)`` once.

    script(request_wire, n) -> list of library message objects to put on the read
    stream in answer to the n-th request the helper wrote (None = never answer).
    Returns {"status", "outcome": returned|raised, "value"|"exc", "writes": [objects],
    "elapsed", "errors", "leftover"}."""
    import anyio

    loop = new_loop(horizon=timeout * 4 + 5)
    writes: List[Any] = []
    state = {"requests": 0, "script_error": None}

    with sched.patched_uuid():
        async def main():
            send_w, recv_w = anyio.create_memory_object_stream(math.inf)
            send_r, recv_r = anyio.create_memory_object_stream(math.inf)

            async def responder():
                async for msg in recv_w:
                    writes.append(msg)
                    w = dump(msg)
                    if script is None or not isinstance(w, dict):
                        continue
                    if "method" in w and w.get("id") is not None:
                        n = state["requests"]
                        state["requests"] += 1
                        try:
                            for obj in script(w, n) or []:
                                send_r.send_nowait(obj)
                        except Exception as e:  # noqa: BLE001
                            state["script_error"] = repr(e)[:300]

            rt = asyncio.ensure_future(responder())
            t0 = loop.time()
            params = inspect.signature(func).parameters
            call = dict(kwargs)
            if "read_stream" in params:
                call["read_stream"] = recv_r
            if "write_stream" in params:
                call["write_stream"] = send_w
            if "timeout" in params:
                call["timeout"] = timeout
            try:
                r = await func(**call)
                out = ("returned", r)
            except BaseException as e:  # noqa: BLE001
                if isinstance(e, (KeyboardInterrupt, SystemExit)):
                    raise
                out = ("raised", e)
            elapsed = loop.time() - t0
            send_w.close()
            try:
                await asyncio.wait_for(rt, 5)
            except BaseException:  # noqa: BLE001
                pass
            return out, elapsed

        status, val = loop.run_main(main())
        errors = loop.collect_errors()
        leftover = len(loop.leftover_tasks())
        loop.abandon()
    obs: Dict[str, Any] = {"status": status, "writes": writes, "errors": errors, "leftover": leftover,
                           "requests": state["requests"], "script_error": state["script_error"]}
    if status != "ok":
        obs["outcome"] = status
        obs["detail"] = repr(val)[:300]
        return obs
    (okind, oval), elapsed = val
    obs["outcome"] = okind
    obs["elapsed"] = round(elapsed, 7)
    if okind == "returned":
        obs["value"] = oval
    else:
        _strip_tracebacks(oval)
        obs["exc"] = oval
    return obs


def _strip_tracebacks(e: Optional[BaseException], depth: int = 0) -> None:
    """The exception is kept only for its class, attributes and text.  Its traceback
    references the finished coroutine frames (which reference the exception again):
    such cycles are reclaimed only by a full collection, and until then every task of
    every past execution stays registered with asyncio - the cost per call grows."""
    if e is None or depth > 8:
        return
    e.__traceback__ = None
    _strip_tracebacks(e.__context__, depth + 1)
    _strip_tracebacks(e.__cause__, depth + 1)
    for sub in getattr(e, "exceptions", ()) or ():
        _strip_tracebacks(sub, depth + 1)


def exc_info(e: BaseException) -> Dict[str, Any]:
    from chuk_mcp.protocol.types.errors import NonRetryableError, RetryableError

    code = getattr(e, "code", None)
    return {
        "cls": type(e).__name__,
        "retryable": isinstance(e, RetryableError),
        "nonretryable": isinstance(e, NonRetryableError),
        "code": code,
        "code_type": type(code).__name__,
        "str": str(e),
    }
