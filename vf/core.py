"""Runner glue: results, known-findings matching, replay artefacts, evidence."""
from __future__ import annotations

import hashlib
import re
import json
import os
import subprocess
import sys
import time
from typing import Any, Dict, List, Optional

ROOT = os.path.dirname(os.path.dirname(os.path.abspath(__file__)))
_SCRATCH = os.environ.get("VERIF_REPO_SRC") not in (None, "", "/repo/src")
# runs against a scratch copy of the repository (mutant trials) must not overwrite the evidence of the real tree
EVIDENCE_DIR = "/tmp/verif-scratch/evidence" if _SCRATCH else os.path.join(ROOT, "evidence")
REPLAY_DIR = "/tmp/verif-scratch/replays" if _SCRATCH else os.path.join(ROOT, "replays")
FINDINGS_FILE = os.path.join(ROOT, "known_findings.json")
EVIDENCE_SCHEMA = "/root/.vp/EVIDENCE.schema.json"
LOCAL_SCHEMA = os.path.join(ROOT, "schemas", "EVIDENCE.schema.json")


class HarnessError(Exception):
    """Trouble in the machinery (exit 2), never a property violation."""


def seed() -> int:
    try:
        return int(os.environ.get("VERIF_SEED", "0"))
    except ValueError:
        return 0


def repo_head() -> str:
    try:
        return subprocess.run(
            ["git", "-C", "/repo", "rev-parse", "HEAD"], capture_output=True, text=True, timeout=10
        ).stdout.strip()
    except Exception:
        return "unknown"


_ADDR = re.compile(r"0x[0-9a-fA-F]+|scope [0-9a-fA-F]{6,}|Task-[0-9]+|at [0-9a-fA-F]{8,}")


def clean_repr(x, limit: int = 300) -> str:
    """repr() without memory addresses / task numbers, so that observations stay reproducible."""
    return _ADDR.sub("<..>", repr(x))[:limit]


class Violation:
    def __init__(self, sig: Dict[str, Any], message: str, replay: Dict[str, Any]):
        self.sig = sig  # structured class of the failing case (harness vocabulary)
        self.message = message
        self.replay = replay  # {"ref": "module:function", "args": {...}}


class Result:
    def __init__(self, prop: str, level: str):
        self.prop = prop
        self.level = level
        self.coverage: Dict[str, Any] = {}
        self.assumptions: List[str] = []
        self.violations: List[Violation] = []
        self.violation_total = 0  # executions/cases in violation (may exceed len(violations))
        self.harness_errors: List[str] = []
        self.parts: Dict[str, Any] = {}
        self._per_sig: Dict[str, int] = {}

    def add_violation(self, sig, message, replay):
        self.violation_total += 1
        k = json.dumps(sig, sort_keys=True, default=repr)
        self._per_sig[k] = self._per_sig.get(k, 0) + 1
        # every distinct signature is kept (first few examples of each), so a rare class can never be
        # crowded out by a frequent one
        if self._per_sig[k] <= 6:
            self.violations.append(Violation(sig, message, replay))


def load_findings(prop: str) -> List[dict]:
    if not os.path.exists(FINDINGS_FILE):
        return []
    with open(FINDINGS_FILE) as f:
        data = json.load(f)
    return [e for e in data.get("findings", []) if e.get("property") == prop]


def match_finding(sig: Dict[str, Any], findings: List[dict]) -> Optional[dict]:
    for e in findings:
        if e.get("status") != "open":
            continue
        key = e.get("key") or {}
        if key and all(sig.get(k) == v for k, v in key.items()):
            return e
    return None


def write_replay(prop: str, v: Violation) -> str:
    d = os.path.join(REPLAY_DIR, prop)
    os.makedirs(d, exist_ok=True)
    body = {
        "property": prop,
        "sig": v.sig,
        "message": v.message,
        "replay": v.replay,
        "repo_head": repo_head(),
    }
    blob = json.dumps(body, sort_keys=True, default=repr, indent=1)
    name = hashlib.blake2b(json.dumps([v.sig, v.replay], sort_keys=True, default=repr).encode(),
                           digest_size=6).hexdigest()
    path = os.path.join(d, name + ".json")
    with open(path, "w") as f:
        f.write(blob)
    return path


def validate_evidence(doc: dict) -> Optional[str]:
    """Validate against the evidence schema using the tooling venv's jsonschema."""
    schema = EVIDENCE_SCHEMA if os.path.exists(EVIDENCE_SCHEMA) else LOCAL_SCHEMA
    if not os.path.exists(schema):
        return None
    try:
        import jsonschema  # available when the check runs under a venv that has it
    except Exception:
        jsonschema = None
    if jsonschema is not None:
        try:
            with open(schema) as f:
                jsonschema.validate(doc, json.load(f))
            return None
        except Exception as e:  # noqa: BLE001
            return str(e)[:500]
    code = (
        "import json,sys,jsonschema\n"
        "doc=json.load(sys.stdin)\n"
        f"jsonschema.validate(doc,json.load(open({schema!r})))\n"
    )
    for py in ("python3-vt", "/opt/veriftools/pyvenv/bin/python"):
        try:
            p = subprocess.run([py, "-c", code], input=json.dumps(doc), capture_output=True,
                               text=True, timeout=60)
        except (FileNotFoundError, subprocess.TimeoutExpired):
            continue
        if p.returncode == 0:
            return None
        return (p.stderr or p.stdout)[-500:]
    return None  # no validator available: nothing to report


def host_variants(res: Result, prop: str) -> None:
    """Thorough tier: the whole quick-tier space once more in an interpreter started with -O (assertions compiled out, as a
    deployment may run it), merged into this result.  The library must not behave differently there."""
    import sys
    import tempfile

    fd, tmp = tempfile.mkstemp(prefix=f"vf-{prop}-O-", suffix=".json")
    os.close(fd)
    try:
        env = dict(os.environ)
        env.pop("PYTHONOPTIMIZE", None)
        p = subprocess.run([sys.executable, "-O", "-m", "vf.cli", prop, "--tier", "quick", "--as-variant", tmp],
                           env=env, capture_output=True, text=True, timeout=3 * 3600)
        try:
            with open(tmp) as f:
                out = json.load(f)
        except Exception:  # noqa: BLE001
            res.harness_errors.append(f"host variant python -O produced no result (exit {p.returncode}): {(p.stdout + p.stderr)[-300:]}")
            return
    finally:
        try:
            os.unlink(tmp)
        except OSError:
            pass
    for h in out.get("harness_errors") or []:
        res.harness_errors.append(f"[python -O] {h}")
    for v in out.get("violations") or []:
        rp = v.get("replay")
        if isinstance(rp, dict):
            rp = dict(rp, host="python -O")
        res.add_violation(dict(v["sig"], host="python -O"), "[interpreter started with -O] " + v["message"], rp)
    extra = max(0, int(out.get("total") or 0) - len(out.get("violations") or []))
    res.violation_total += extra
    parts = res.coverage.setdefault("parts", {})
    if isinstance(parts, dict):
        parts["host-variant: quick tier under python -O"] = {"evaluations": out.get("evaluations"),
                                                             "violating_cases": out.get("total")}
    if isinstance(res.coverage.get("evaluations"), int) and isinstance(out.get("evaluations"), int):
        res.coverage["evaluations"] += out["evaluations"]


def finish(res: Result, tier: str, t0: float) -> int:
    """Match violations against known findings, write replay files and evidence,
    print the protocol lines and return the exit code."""
    os.makedirs(EVIDENCE_DIR, exist_ok=True)
    findings = load_findings(res.prop)
    known_hit: Dict[str, dict] = {}
    known_counts: Dict[str, int] = {}
    unknown: List[Violation] = []
    for v in res.violations:
        e = match_finding(v.sig, findings)
        if e is not None:
            k = json.dumps(e.get("key"), sort_keys=True)
            known_hit[k] = e
            known_counts[k] = known_counts.get(k, 0) + 1
        else:
            unknown.append(v)

    code = 0
    if res.harness_errors:
        for h in res.harness_errors[:10]:
            print(f"HARNESS-ERROR: property={res.prop} {h}")
        code = 2
    # a violation that was confirmed by re-execution stands on its own: it is reported (exit 1) even when some
    # other part of the same run had machinery trouble (on a changed tree one defect often causes both)
    if not res.harness_errors or unknown:
        for k, e in known_hit.items():
            print(f"KNOWN-FINDING: property={res.prop} {e.get('what')} [{known_counts[k]} cases]")
        if unknown:
            code = 1
            seen_sig = set()
            printed = 0
            for v in unknown:
                s = json.dumps(v.sig, sort_keys=True)
                if s in seen_sig and printed >= 5:
                    continue
                seen_sig.add(s)
                if printed < 20:
                    path = write_replay(res.prop, v)
                    print(f"VIOLATION property={res.prop} replay={path}")
                    print(f"  sig={s} :: {v.message[:300]}")
                    printed += 1
            if len(unknown) > printed:
                print(f"  ... {len(unknown) - printed} further violating cases not listed "
                      f"({res.violation_total} in total incl. known)")

    cov = dict(res.coverage)
    cov.setdefault("samples", [])
    doc = {
        "property_id": res.prop,
        "tier": tier,
        "seed": seed(),
        "level": res.level,
        "coverage": cov,
        "assumptions": res.assumptions,
        "wall_s": round(time.time() - t0, 3),
        "violations": len(unknown),
        "known_findings_matched": sorted(
            f"{e.get('what')}" for e in known_hit.values()
        ),
        "violating_cases_total": res.violation_total,
        "harness_errors": res.harness_errors[:10],
        "repo_head": repo_head(),
    }
    err = validate_evidence(doc)
    path = os.path.join(EVIDENCE_DIR, f"{res.prop}.json")
    with open(path, "w") as f:
        json.dump(doc, f, indent=1, sort_keys=True, default=repr)
        f.write("\n")
    if err:
        print(f"HARNESS-ERROR: property={res.prop} evidence does not validate: {err}")
        if code == 0:
            code = 2
    print(
        f"{res.prop} tier={tier} exit={code} violations={len(unknown)} known={sum(known_counts.values())} "
        f"wall={doc['wall_s']}s coverage={ {k: v for k, v in cov.items() if isinstance(v, (int, bool))} }"
    )
    return code
