"""Stateless choice-point explorer (DFS over choice vectors with prefix replay).

A *harness* is a function ``run_one(ctl, cfg) -> obs`` that builds fresh real
library objects, runs one execution to completion and returns a JSON-able
observation dict.  Every decision the environment has is taken by
``ctl.choose(n, label)``; the vector of choices identifies the execution.

``explore`` enumerates, for every configuration in ``configs``, every choice
vector (optionally only those with at most ``bound`` costly deviations) and
aggregates counters.  Work is distributed over long-lived worker processes;
nothing is forked per execution.
"""
from __future__ import annotations

import hashlib
import heapq
import importlib
import json
import multiprocessing as mp
import os
import time
import traceback
from collections import Counter
from typing import Any, Dict, List, Optional, Sequence, Tuple


class ReplayDivergence(Exception):
    pass


class HarnessError(Exception):
    pass


class Ctl:
    __slots__ = ("prefix", "expect", "trace", "cost")

    def __init__(self, prefix: Sequence[int] = (), expect: Optional[Sequence[Tuple[int, str]]] = None):
        self.prefix = list(prefix)
        self.expect = list(expect) if expect is not None else None
        self.trace: List[Tuple[int, str, int, int]] = []  # (n, label, choice, cost)
        self.cost = 0

    def choose(self, n: int, label: str = "", cost: int = 1) -> int:
        """Pick one of n alternatives.  Alternative 0 is the default environment
        answer; taking another one costs ``cost`` deviations."""
        if n <= 0:
            raise HarnessError(f"choose({n}) at {label}")
        i = len(self.trace)
        if i < len(self.prefix):
            c = self.prefix[i]
            if c >= n:
                raise ReplayDivergence(f"choice {c} out of range {n} at point {i} ({label})")
            if self.expect is not None and i < len(self.expect):
                en, el = self.expect[i]
                if en != n or el != label:
                    raise ReplayDivergence(
                        f"point {i}: expected ({en},{el!r}) got ({n},{label!r})"
                    )
        else:
            c = 0
        k = cost if c else 0
        self.cost += k
        self.trace.append((n, label, c, cost))
        return c

    def pick(self, options: Sequence[Any], label: str = "", cost: int = 1):
        return options[self.choose(len(options), label, cost)]

    @property
    def choices(self) -> List[int]:
        return [t[2] for t in self.trace]


def digest_of(obj: Any) -> str:
    return hashlib.blake2b(
        json.dumps(obj, sort_keys=True, default=repr).encode(), digest_size=8
    ).hexdigest()


def _resolve(ref: str):
    mod, _, name = ref.partition(":")
    return getattr(importlib.import_module(mod), name)


class Stats:
    def __init__(self):
        self.executions = 0
        self.nodes = 0
        self.transitions = 0
        self.max_depth = 0
        self.outcomes: Counter = Counter()
        self.digests: set = set()
        self.violations: List[dict] = []
        self.violation_count = 0
        self.violation_sigs: Counter = Counter()
        self.stored_per_sig: Counter = Counter()
        self.audit: List[tuple] = []  # (cfg_index, choices, digest)
        self.samples: List[dict] = []
        self.bound_pruned = 0
        self.extra: Counter = Counter()

    def merge(self, o: "Stats"):
        self.executions += o.executions
        self.nodes += o.nodes
        self.transitions += o.transitions
        self.max_depth = max(self.max_depth, o.max_depth)
        self.outcomes.update(o.outcomes)
        self.digests |= o.digests
        for v in o.violations:
            keep = False
            for viol in v["obs"].get("violations") or []:
                k = json.dumps(viol.get("sig"), sort_keys=True)
                if self.stored_per_sig[k] < PER_SIG_KEEP:
                    self.stored_per_sig[k] += 1
                    keep = True
            if keep:
                self.violations.append(v)
        self.violation_count += o.violation_count
        self.violation_sigs.update(o.violation_sigs)
        for it in o.audit:
            if len(self.audit) < AUDIT_KEEP:
                heapq.heappush(self.audit, it)
            elif it.key() < self.audit[0].key():
                heapq.heapreplace(self.audit, it)
        self.samples = sorted(self.samples + o.samples, key=lambda x: x["_k"])[:2]
        self.bound_pruned += o.bound_pruned
        self.extra.update(o.extra)


AUDIT_MOD = 257  # kept for API compatibility (unused)
PER_SIG_KEEP = 4  # violating executions stored per distinct signature (every signature is kept)
AUDIT_KEEP = 300  # executions re-run for the determinism audit (those with the smallest digests)


class _AuditItem:
    """max-heap entry on the digest (so the heap root is the largest kept digest)"""
    __slots__ = ("d", "cfg_index", "choices")

    def __init__(self, d, cfg_index, choices):
        self.d, self.cfg_index, self.choices = d, cfg_index, choices

    def key(self):
        return (self.d, self.cfg_index, tuple(self.choices))

    def __lt__(self, other):
        return self.key() > other.key()


class _NullHandler:
    pass


def _run_exec(run_one, cfg, prefix, expect):
    ctl = Ctl(prefix, expect)
    if isinstance(cfg, dict) and cfg.get("_log") == "debug":
        # the same execution with the library's logging fully enabled (DEBUG, discarded by a null handler):
        # log statements are code too - their argument expressions run only when the level is enabled
        import logging

        root = logging.getLogger()
        old_level, old_disable = root.level, logging.root.manager.disable
        old_handlers = list(root.handlers)
        for oh in old_handlers:
            root.removeHandler(oh)  # e.g. the stderr handler that logging.basicConfig() installs behind the library's back
        h = logging.NullHandler()
        root.addHandler(h)
        root.setLevel(logging.DEBUG)
        logging.disable(logging.NOTSET)
        import warnings
        try:
            # ... and in a host that turns the warnings a library may emit into errors (-W error, pytest filterwarnings=error)
            with warnings.catch_warnings():
                for cat in (DeprecationWarning, PendingDeprecationWarning, FutureWarning, UserWarning):
                    warnings.simplefilter("error", cat)
                obs = run_one(ctl, cfg)
        finally:
            logging.disable(old_disable)
            root.setLevel(old_level)
            root.removeHandler(h)
            for oh in old_handlers:
                root.addHandler(oh)
        return ctl, obs
    obs = run_one(ctl, cfg)
    return ctl, obs


def _account(stats: Stats, cfg_index, cfg, ctl: Ctl, obs: dict, new_from: int, audit_mod: int):
    stats.executions += 1
    depth = len(ctl.trace)
    stats.max_depth = max(stats.max_depth, depth)
    stats.nodes += depth - new_from
    stats.transitions += (depth - new_from) + (1 if new_from else 0)
    d = digest_of(obs)
    stats.digests.add(d)
    stats.outcomes[str(obs.get("outcome"))] += 1
    for k, v in (obs.get("counters") or {}).items():
        stats.extra[k] += v
    viols = obs.get("violations") or []
    if viols:
        stats.violation_count += 1
        keep = False
        for v in viols:
            k = json.dumps(v.get("sig"), sort_keys=True)
            stats.violation_sigs[k] += 1
            if stats.stored_per_sig[k] < PER_SIG_KEEP:
                stats.stored_per_sig[k] += 1
                keep = True
        if keep:
            stats.violations.append(
                {"cfg_index": cfg_index, "cfg": cfg, "choices": ctl.choices, "obs": obs, "digest": d}
            )
    skey = (cfg_index, tuple(ctl.choices))
    if len(stats.samples) < 2 or skey < stats.samples[-1]["_k"]:
        stats.samples.append({"_k": skey, "cfg": cfg, "choices": ctl.choices,
                              "labels": [t[1] for t in ctl.trace][:12],
                              "outcome": obs.get("outcome")})
        stats.samples.sort(key=lambda x: x["_k"])
        del stats.samples[2:]
    # determinism audit candidates: the AUDIT_KEEP executions with the smallest digests
    if len(stats.audit) < AUDIT_KEEP:
        heapq.heappush(stats.audit, _AuditItem(d, cfg_index, ctl.choices))
    elif (d, cfg_index, tuple(ctl.choices)) < stats.audit[0].key():
        heapq.heapreplace(stats.audit, _AuditItem(d, cfg_index, ctl.choices))


def _dfs(run_one, cfg_index, cfg, prefix, expect, bound, stats: Stats, audit_mod, budget=None):
    """Explore every execution extending prefix.  Returns list of unexplored
    (prefix, expect) units if a budget of executions is given and exhausted."""
    stack = [(list(prefix), list(expect) if expect is not None else None)]
    while stack:
        if budget is not None and stats.executions >= budget:
            return stack
        pfx, exp = stack.pop()
        ctl, obs = _run_exec(run_one, cfg, pfx, exp)
        _account(stats, cfg_index, cfg, ctl, obs, len(pfx), audit_mod)
        tr = ctl.trace
        # costs before each point
        cost = 0
        costs_before = []
        for (n, label, c, k) in tr:
            costs_before.append(cost)
            if c:
                cost += k
        for i in range(len(tr) - 1, len(pfx) - 1, -1):
            n, label, c, k = tr[i]
            if n <= 1:
                continue
            if bound is not None and costs_before[i] + k > bound:
                stats.bound_pruned += n - 1
                continue
            base = [t[2] for t in tr[:i]]
            ex = [(t[0], t[1]) for t in tr[: i + 1]]
            for alt in range(n - 1, 0, -1):
                stack.append((base + [alt], ex))
    return []


# --- worker side -------------------------------------------------------------------

_W: Dict[str, Any] = {}


def _worker_init(run_ref: str, configs, bound, audit_mod, init_ref):
    import logging

    logging.disable(logging.CRITICAL)
    if init_ref:
        _resolve(init_ref)()
    _W["run"] = _resolve(run_ref)
    _W["configs"] = configs
    _W["bound"] = bound
    _W["audit_mod"] = audit_mod


def _worker_unit(unit):
    cfg_index, prefix, expect = unit
    stats = Stats()
    try:
        _dfs(_W["run"], cfg_index, _W["configs"][cfg_index], prefix, expect, _W["bound"], stats, _W["audit_mod"])
        return ("ok", stats)
    except ReplayDivergence as e:
        return ("diverge", f"cfg={cfg_index} prefix={prefix}: {e}")
    except Exception:
        return ("error", f"cfg={cfg_index} prefix={prefix}\n{traceback.format_exc()}")


def _worker_replay(item):
    cfg_index, choices, d = item
    try:
        ctl, obs = _run_exec(_W["run"], _W["configs"][cfg_index], choices, None)
        return (cfg_index, choices, d, digest_of(obs), ctl.choices == list(choices))
    except Exception:
        return (cfg_index, choices, d, "ERR:" + traceback.format_exc()[-300:], False)


def _worker_fidelity(item):
    """Re-run one execution on the re-implemented scheduling step and on asyncio's own
    (BaseEventLoop._run_once over a virtual selector); tie-free executions must agree."""
    from . import vloop

    cfg_index, choices, d = item
    try:
        vloop.set_loop_kind("vloop")
        _, o1 = _run_exec(_W["run"], _W["configs"][cfg_index], choices, None)
        ties = vloop.STATS["ties"]
        vloop.set_loop_kind("stock")
        _, o2 = _run_exec(_W["run"], _W["configs"][cfg_index], choices, None)
        return (cfg_index, choices, digest_of(o1) == digest_of(o2), ties)
    except Exception:
        return (cfg_index, choices, False, -1)
    finally:
        vloop.set_loop_kind("vloop")


def n_workers() -> int:
    try:
        return max(1, int(os.environ.get("VERIF_WORKERS", "") or min(16, os.cpu_count() or 1)))
    except ValueError:
        return 1


def explore(
    run_ref: str,
    configs: Sequence[Any],
    bound: Optional[int] = None,
    workers: Optional[int] = None,
    init_ref: Optional[str] = None,
    audit_mod: int = AUDIT_MOD,
    min_units: int = 0,
    fidelity: bool = False,
) -> Dict[str, Any]:
    """Exhaustively explore all configs; returns a result dict with Stats and audit."""
    t0 = time.time()
    configs = list(configs)
    workers = workers or n_workers()
    run_one = _resolve(run_ref)
    total = Stats()
    units: List[tuple] = []
    target = max(min_units, workers * 8)

    if len(configs) >= target or workers == 1:
        units = [(i, [], None) for i in range(len(configs))]
    else:
        # pre-expand the top of each config's tree in the parent until there is
        # enough parallel work
        import logging

        logging.disable(logging.CRITICAL)
        if init_ref:
            _resolve(init_ref)()
        per_cfg_budget = max(1, target // max(1, len(configs)))
        for i, cfg in enumerate(configs):
            st = Stats()
            rest = _dfs(run_one, i, cfg, [], None, bound, st, audit_mod, budget=per_cfg_budget)
            total.merge(st)
            units.extend((i, p, e) for p, e in rest)

    errors: List[str] = []
    if workers == 1:
        _worker_init(run_ref, configs, bound, audit_mod, init_ref)
        for u in units:
            tag, val = _worker_unit(u)
            if tag == "ok":
                total.merge(val)
            else:
                errors.append(f"{tag}: {val}")
        audit_items = [(it.cfg_index, it.choices, it.d) for it in sorted(total.audit, key=lambda x: x.key())]
        replayed = [_worker_replay(it) for it in audit_items[:300]]
        fid = [_worker_fidelity(it) for it in audit_items[:150]] if fidelity and not errors else []
    else:
        ctx = mp.get_context("fork")
        with ctx.Pool(workers, initializer=_worker_init,
                      initargs=(run_ref, configs, bound, audit_mod, init_ref)) as pool:
            chunk = max(1, len(units) // (workers * 16))
            for tag, val in pool.imap_unordered(_worker_unit, units, chunksize=chunk):
                if tag == "ok":
                    total.merge(val)
                else:
                    errors.append(f"{tag}: {val}")
                    if len(errors) > 5:
                        break
            audit_items = [(it.cfg_index, it.choices, it.d) for it in sorted(total.audit, key=lambda x: x.key())][:300]
            # re-run in (most likely) a different worker: reversed order, chunksize 1
            replayed = pool.map(_worker_replay, list(reversed(audit_items)), chunksize=1) if not errors else []
            fid = pool.map(_worker_fidelity, audit_items[:150], chunksize=1) if fidelity and not errors else []

    mismatches = [r for r in replayed if r[2] != r[3] or not r[4]]
    # explain mismatches: alone in a fresh interpreter (twice) - stable there but different inside a long-lived
    # worker means the library carries state between calls
    order_dependent = []
    unexplained = []
    for r in mismatches[:6]:
        fr = [_fresh_run(run_ref, configs[r[0]], r[1], init_ref) for _ in range(2)]
        if fr[0] is not None and fr[1] is not None and fr[0]["digest"] == fr[1]["digest"] and \
                (fr[0]["digest"] != r[2] or fr[0]["digest"] != r[3]):
            order_dependent.append({"cfg_index": r[0], "choices": r[1], "alone": fr[0], "in_worker": [r[2], r[3]]})
        else:
            unexplained.append(r)
    if order_dependent and not unexplained:
        mismatches = []
    return {
        "stats": total,
        "errors": errors,
        "replayed": len(replayed),
        "replay_mismatches": len(mismatches),
        "order_dependent": order_dependent,
        "mismatch_examples": [
            {"cfg_index": r[0], "choices": r[1], "first": r[2], "second": r[3]} for r in mismatches[:3]
        ],
        "fidelity_checked": len(fid),
        "fidelity_tiefree": sum(1 for f in fid if f[3] == 0),
        "fidelity_mismatch_tiefree": [{"cfg_index": f[0], "choices": f[1]} for f in fid if not f[2] and f[3] == 0][:3],
        "fidelity_mismatch_with_ties": sum(1 for f in fid if not f[2] and f[3] != 0),
        "wall_s": time.time() - t0,
        "workers": workers,
        "configs": len(configs),
        "bound": bound,
    }


def _fresh_run(run_ref, cfg, choices, init_ref):
    import subprocess
    import sys

    try:
        p = subprocess.run([sys.executable, "-m", "vf.fresh", run_ref, json.dumps(cfg), json.dumps(list(choices)), init_ref or ""],
                           capture_output=True, text=True, timeout=300, cwd=os.path.dirname(os.path.dirname(os.path.abspath(__file__))))
        return json.loads(p.stdout.strip().splitlines()[-1])
    except Exception:
        return None


def replay_one(run_ref: str, cfg: Any, choices: Sequence[int], init_ref: Optional[str] = None):
    import logging

    logging.disable(logging.CRITICAL)
    if init_ref:
        _resolve(init_ref)()
    ctl, obs = _run_exec(_resolve(run_ref), cfg, choices, None)
    return ctl, obs
