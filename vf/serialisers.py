"""Library-side serialisers (C10 part B): discovery by an AST walk and one driver
per discovered site.  Everything here runs inside a configuration worker (one
fixed validation backend); the parent only compares and judges.

A *site* is a function or method of the package, outside mcp_pydantic_base.py and
json_rpc_message.py, whose body calls ``.model_dump(`` / ``.model_dump_json(``
(directly, or through ``getattr(x, "model_dump...")``).  Its name is
"<path below chuk_mcp>:<Qualified.name>".  A driver calls the real function with
typed objects built from wire JSON and returns what the function put on the wire
(the dict / message it returned, the message it wrote to its stream, the bytes or
HTTP body it sent).
"""
from __future__ import annotations

import ast
import asyncio
import inspect
import json
import math
import os
import typing
from typing import Any, Callable, Dict, List, Optional, Tuple

from . import modelops, wiregen
from .workers import dec, enc

MARK = "x-vf-marker"
EXCLUDED_FILES = ("mcp_pydantic_base.py", "json_rpc_message.py")
DUMPERS = ("model_dump", "model_dump_json")


# ---------------------------------------------------------------------------
# discovery
# ---------------------------------------------------------------------------
def discover_sites() -> List[Dict[str, Any]]:
    import chuk_mcp

    root = os.path.dirname(os.path.abspath(chuk_mcp.__file__))
    sites: Dict[str, Dict[str, Any]] = {}
    for dp, dn, fn in sorted(os.walk(root)):
        dn.sort()
        for f in sorted(fn):
            if not f.endswith(".py") or f in EXCLUDED_FILES:
                continue
            p = os.path.join(dp, f)
            with open(p, encoding="utf-8") as fh:
                tree = ast.parse(fh.read(), p)
            rel = os.path.relpath(p, root)

            def visit(node, stack):
                for ch in ast.iter_child_nodes(node):
                    if isinstance(ch, (ast.FunctionDef, ast.AsyncFunctionDef, ast.ClassDef)):
                        visit(ch, stack + [ch])
                        continue
                    if isinstance(ch, ast.Call):
                        how = None
                        if isinstance(ch.func, ast.Attribute) and ch.func.attr in DUMPERS:
                            how = ast.unparse(ch)
                        elif (isinstance(ch.func, ast.Name) and ch.func.id == "getattr" and len(ch.args) >= 2
                              and isinstance(ch.args[1], ast.Constant) and ch.args[1].value in DUMPERS):
                            how = ast.unparse(ch)
                        if how is not None:
                            fns = [s for s in stack if not isinstance(s, ast.ClassDef)]
                            name = ".".join(s.name for s in stack) if fns else "<module>"
                            key = f"{rel}:{name}"
                            sites.setdefault(key, {"site": key, "calls": []})["calls"].append(
                                {"line": ch.lineno, "code": how[:100]})
                    visit(ch, stack)

            visit(tree, [])
            # a site inside a private helper is reached through the functions of the same file that call the helper
            funcs: Dict[str, Any] = {}

            def collect(node, stack):
                for ch in ast.iter_child_nodes(node):
                    if isinstance(ch, (ast.FunctionDef, ast.AsyncFunctionDef)):
                        funcs[".".join(s.name for s in stack + [ch])] = ch
                        collect(ch, stack + [ch])
                    elif isinstance(ch, ast.ClassDef):
                        collect(ch, stack + [ch])

            collect(tree, [])
            for key, site in sites.items():
                if not key.startswith(rel + ":"):
                    continue
                qual_ = key.split(":", 1)[1]
                short_ = qual_.rsplit(".", 1)[-1]
                prefix = qual_.rsplit(".", 1)[0] + "." if "." in qual_ else ""
                callers = []
                for fname, node in sorted(funcs.items()):
                    if fname == qual_ or not fname.startswith(prefix):
                        continue
                    for c in ast.walk(node):
                        if isinstance(c, ast.Call) and ((isinstance(c.func, ast.Attribute) and c.func.attr == short_) or
                                                        (isinstance(c.func, ast.Name) and c.func.id == short_)):
                            callers.append(f"{rel}:{fname}")
                            break
                site["callers"] = callers
    return [sites[k] for k in sorted(sites)]


def driver_site_of(site: Dict[str, Any]) -> Optional[str]:
    """The site whose driver exercises this one: itself, or - for a helper without a driver of its own - a function of the
    same file that calls it and has one."""
    if site["site"] in DRIVERS:
        return site["site"]
    for c in site.get("callers", []):
        if c in DRIVERS:
            return c
    return None


# ---------------------------------------------------------------------------
# helpers shared by the drivers
# ---------------------------------------------------------------------------
_PAIRS: List[List[str]] = []


def all_alias_pairs() -> List[List[str]]:
    """[wire name, attribute name] of every aliased member of every discovered class."""
    if _PAIRS:
        return _PAIRS
    _PAIRS.extend(_all_alias_pairs())
    return _PAIRS


def _all_alias_pairs() -> List[List[str]]:
    classes, _ = wiregen.discover()
    pairs = set()
    for c in classes:
        for f in wiregen.fields(c):
            if f.wire != f.name:
                pairs.add((f.wire, f.name))
    return [list(p) for p in sorted(pairs)]


def populated_aliases(x: Any, out: Optional[set] = None) -> List[List[str]]:
    """Aliased members that carry a value somewhere inside the typed object x."""
    if out is None:
        out = set()
    if modelops.is_instance(x):
        mem = modelops.members(x)
        for f in wiregen.fields(type(x)):
            if f.wire != f.name and mem.get(f.name) is not None:
                out.add((f.wire, f.name))
        for v in mem.values():
            populated_aliases(v, out)
    elif isinstance(x, dict):
        for v in x.values():
            populated_aliases(v, out)
    elif isinstance(x, (list, tuple)):
        for v in x:
            populated_aliases(v, out)
    return [list(p) for p in sorted(out)]


def populated_aliases_wire(cls: type, w: Any) -> List[List[str]]:
    out = set()
    for c, sub in wiregen.nested_models(cls, w):
        for f in wiregen.fields(c):
            if f.wire != f.name and isinstance(sub, dict) and sub.get(f.wire) is not None:
                out.add((f.wire, f.name))
    return [list(p) for p in sorted(out)]


def marked(cls: type, w: Dict[str, Any]) -> Dict[str, Any]:
    declared = {f.wire for f in wiregen.fields(cls)} | {f.name for f in wiregen.fields(cls)}
    return w if MARK in declared else {**w, MARK: "vf"}


def instances(cls: type, limit: Optional[int] = None) -> List[Tuple[str, Dict[str, Any], Any]]:
    """(label, wire object, validated instance) for every generated wire object
    of cls this backend accepts (documented-invariant violations left out)."""
    out = []
    for label, w in wiregen.wire_objects(cls, 2):
        if any(v is None for v in w.values()) or label.startswith("unknown:"):
            continue                     # the unknown-member family is part A's material
        if keys_of(w) & {a for _, a in all_alias_pairs()}:
            continue                     # free-form data keys spelled like an attribute name (part A's material): the
                                         # names oracle of part B needs inputs that do not use those words as data
        if wiregen.qual(cls).endswith(":Root") and not str(w.get("uri", "")).startswith("file://"):
            continue
        w = marked(cls, w)
        try:
            out.append((label, w, cls.model_validate(w)))
        except Exception:  # noqa: BLE001 - not a valid object under this backend: not an input
            continue
        if limit and len(out) >= limit:
            break
    return out


def carries_mark(x: Any) -> bool:
    """Does the typed object itself still hold the marker member (a class that drops
    unknown members is part A's business, not a driver failure)?"""
    try:
        return MARK in keys_of(modelops.to_json(x))
    except Exception:  # noqa: BLE001
        return False


def model_arms(annotation: Any) -> Tuple[List[type], bool]:
    """(model classes, accepts-plain-dict) of a parameter annotation."""
    ann, _ = wiregen._strip_optional(annotation)
    arms = list(typing.get_args(ann)) if typing.get_origin(ann) is typing.Union else [ann]
    classes, takes_dict = [], False
    for a in arms:
        if wiregen.is_model(a):
            classes.append(a)
        elif a is dict or typing.get_origin(a) in (dict, Dict):
            takes_dict = True
    return classes, takes_dict


def arg_variants(annotation: Any, limit: Optional[int] = None) -> List[Dict[str, Any]]:
    """Argument values for a parameter: every accepted instance of every model arm and,
    where the annotation also admits a plain dict, the wire objects themselves."""
    classes, takes_dict = model_arms(annotation)
    out = []
    for c in classes:
        for label, w, inst in instances(c, limit):
            out.append({"desc": f"{wiregen.short(c)}[{label}]", "value": inst, "wire": w, "aliases": populated_aliases(inst),
                        "mark": carries_mark(inst)})
            if takes_dict:
                out.append({"desc": f"dict<{wiregen.short(c)}>[{label}]", "value": dict(w), "wire": w,
                            "aliases": populated_aliases_wire(c, w), "mark": True})
    return out


def keys_of(j: Any, out: Optional[set] = None) -> set:
    if out is None:
        out = set()
    if isinstance(j, dict):
        for k, v in j.items():
            out.add(k)
            keys_of(v, out)
    elif isinstance(j, list):
        for v in j:
            keys_of(v, out)
    return out


def plain(v: Any) -> Any:
    """What a transport would do with a returned/written object: dump it the way
    every transport of the package does (model_dump(exclude_none=True))."""
    if isinstance(v, (list, tuple)):
        return [plain(x) for x in v]
    if hasattr(v, "model_dump"):
        return v.model_dump(exclude_none=True)
    return v


def result(variant: str, inp: Any, aliases: List[List[str]], output: Any, expect_marker: bool = True) -> Dict[str, Any]:
    try:
        json.dumps(output)
    except (TypeError, ValueError):
        output = json.loads(json.dumps(output, default=lambda o: f"<{type(o).__name__}>"))
    return {"variant": variant, "input": enc(inp), "aliases": aliases, "output": enc(output),
            "marker": (MARK in keys_of(output)) if expect_marker else None}


def edit_in_place(x: Any, depth: int = 0) -> int:
    """Change a typed object in place through attribute assignment and through its own containers."""
    n = 0
    if not modelops.is_instance(x) or depth > 2:
        return 0
    declared = {f.name for f in wiregen.fields(type(x))}
    for k, cur in list(modelops.members(x).items()):
        if k not in declared or cur is None:
            continue
        try:
            if isinstance(cur, bool):
                setattr(x, k, not cur)
            elif isinstance(cur, (int, float)):
                setattr(x, k, cur + 1)
            elif isinstance(cur, str):
                if typing.get_origin(next(f.annotation for f in wiregen.fields(type(x)) if f.name == k)) is typing.Literal:
                    continue
                setattr(x, k, cur + "-edited")
            elif isinstance(cur, dict):
                cur["vf-edited"] = 1
            elif isinstance(cur, list):
                for item in cur:
                    n += edit_in_place(item, depth + 1)
                continue
            elif modelops.is_instance(cur):
                n += edit_in_place(cur, depth + 1)
                continue
            else:
                continue
            n += 1
        except Exception:  # noqa: BLE001
            continue
    return n


def resend_row(variant: str, inp: Any, second: Any, fresh: Any, edits: int) -> Dict[str, Any]:
    """The same typed object emitted a second time after it was edited in place (same handler / function) next to what a
    fresh handler emits for the object as it is now."""
    r = result("resend-after-in-place-edit:" + variant, inp, [], second, expect_marker=False)
    r["expected"] = enc(json.loads(json.dumps(fresh, default=lambda o: f"<{type(o).__name__}>")))
    r["edits"] = edits
    return r


def failed(variant: str, e: BaseException) -> Dict[str, Any]:
    import traceback

    return {"variant": variant, "error": f"{type(e).__name__}: {e}", "trace": traceback.format_exc()[-600:]}


# -- virtual-loop plumbing -----------------------------------------------------
def on_loop(coro_factory: Callable[[], Any], horizon: float = 300.0) -> Any:
    from .vloop import new_loop

    loop = new_loop(horizon=horizon)
    try:
        status, val = loop.run_main(coro_factory())
    finally:
        loop.abandon()
    if status == "exc":
        raise val
    if status != "ok":
        raise RuntimeError(f"virtual loop ended with {status}")
    return val


async def with_responder(call: Callable[[Any, Any], Any], reply_for: Callable[[Dict[str, Any]], Optional[Dict[str, Any]]]):
    """Run ``call(read_stream, write_stream)`` against a scripted peer; returns
    (value returned by call, list of wire dicts the call wrote)."""
    import anyio

    from chuk_mcp.protocol.messages.json_rpc_message import parse_message

    send_w, recv_w = anyio.create_memory_object_stream(math.inf)
    send_r, recv_r = anyio.create_memory_object_stream(math.inf)
    written: List[Any] = []

    async def peer():
        async for msg in recv_w:
            wire = plain(msg)
            written.append(wire)
            rep = reply_for(wire) if isinstance(wire, dict) else None
            if rep is not None:
                await send_r.send(parse_message(rep))

    task = asyncio.get_running_loop().create_task(peer())
    try:
        val = await call(recv_r, send_w)
        await asyncio.sleep(0)
        await asyncio.sleep(0)
    finally:
        task.cancel()
        try:
            await task
        except BaseException:  # noqa: BLE001
            pass
    return val, written


def ok_reply(result_obj: Dict[str, Any]):
    def reply(wire):
        if "id" in wire and "method" in wire:
            return {"jsonrpc": "2.0", "id": wire["id"], "result": result_obj}
        return None

    return reply


# ---------------------------------------------------------------------------
# drivers: site -> list of result()/failed() dicts
# ---------------------------------------------------------------------------
def with_homonyms(annotation: Any) -> Any:
    """The annotation widened by every discovered model class that bears the same
    name as one of its arms (the package has two ToolResult, Tool, ToolInputSchema;
    the helpers are duck-typed on model_dump, so either can be handed in)."""
    classes, _ = model_arms(annotation)
    names = {c.__name__ for c in classes}
    extra = [c for c in wiregen.discover()[0] if c.__name__ in names and c not in classes]
    if not extra:
        return annotation
    return typing.Union[tuple([annotation] + extra)]


def drive_sync_function(fn: Callable, param: str) -> List[Dict[str, Any]]:
    hints = typing.get_type_hints(fn)
    out = []
    resent = 0
    for v in arg_variants(with_homonyms(hints[param])):
        try:
            out.append(result(v["desc"], v["wire"], v["aliases"], plain(fn(v["value"])), v["mark"]))
            if modelops.is_instance(v["value"]) and resent < 12:
                edits = edit_in_place(v["value"])
                if edits:
                    resent += 1
                    second = plain(fn(v["value"]))
                    twin = type(v["value"]).model_validate(v["value"].model_dump(by_alias=True))
                    out.append(resend_row(v["desc"], v["wire"], second, plain(fn(twin)), edits))
        except Exception as e:  # noqa: BLE001
            out.append(failed(v["desc"], e))
    return out


def d_content_to_dict():
    from chuk_mcp.protocol.types.content import content_to_dict

    out = drive_sync_function(content_to_dict, "content")
    # the function also documents a plain dict as input
    from chuk_mcp.protocol.types.content import TextContent

    for label, w, _ in instances(TextContent, 3):
        out.append(result(f"dict[{label}]", w, [], content_to_dict(dict(w))))
    return out


def d_tool_result_to_dict():
    from chuk_mcp.protocol.types import tools as T

    out = drive_sync_function(T.tool_result_to_dict, "result")
    for label, w, _ in instances(T.ToolResult, 3):
        out.append(result(f"dict[{label}]", w, populated_aliases_wire(T.ToolResult, w), T.tool_result_to_dict(dict(w))))
    return out


def d_request_user_input():
    from chuk_mcp.protocol.types.elicitation import ElicitationHandler, ElicitationParams

    from .sched import patched_uuid

    out = []
    resent = 0
    for label, w, inst in instances(ElicitationParams):
        sent: List[Any] = []

        def make_handler():
            box: Dict[str, Any] = {}

            async def send(request):
                sent.append(request)
                await box["h"].handle_elicitation_response(
                    {"jsonrpc": "2.0", "id": request["id"], "result": {"data": {"answer": "x"}}})

            box["h"] = ElicitationHandler(send)
            return box["h"]

        def strip(req):
            return {k: v for k, v in plain(req).items() if k != "id"}

        try:
            with patched_uuid():
                handler = make_handler()
                on_loop(lambda: handler.request_user_input(inst))
                out.append(result(f"ElicitationParams[{label}]", w, populated_aliases(inst), plain(sent[0]), carries_mark(inst)))
                if resent < 12:
                    edits = edit_in_place(inst)
                    if edits:
                        resent += 1
                        on_loop(lambda: handler.request_user_input(inst))            # same handler, same object, edited
                        second = strip(sent[-1])
                        fresh_handler = make_handler()
                        on_loop(lambda: fresh_handler.request_user_input(inst))
                        out.append(resend_row(f"ElicitationParams[{label}]", w, second, strip(sent[-1]), edits))
        except Exception as e:  # noqa: BLE001
            out.append(failed(label, e))
    return out


def d_send_completion_complete():
    from chuk_mcp.protocol.messages.completions import send_messages as M

    from .sched import patched_uuid

    hints = typing.get_type_hints(M.send_completion_complete)
    refs = arg_variants(hints["ref"])
    args = arg_variants(hints["argument"])
    out = []
    combos = [(r, args[0]) for r in refs] + [(refs[0], a) for a in args[1:]]
    for r, a in combos:
        desc = f"ref={r['desc']} argument={a['desc']}"

        async def main():
            return await with_responder(
                lambda rd, wr: M.send_completion_complete(rd, wr, r["value"], a["value"], timeout=5.0),
                ok_reply({"completion": {"values": ["x"]}}))

        try:
            with patched_uuid():
                _, written = on_loop(main)
            out.append(result(desc, {"ref": r["wire"], "argument": a["wire"]}, sorted(r["aliases"] + a["aliases"]),
                              written[0], r["mark"] or a["mark"]))
        except Exception as e:  # noqa: BLE001
            out.append(failed(desc, e))
    return out


def d_send_initialize():
    from chuk_mcp.protocol.messages.initialize import send_messages as M

    from .sched import patched_uuid

    out = []
    for pv in (None, "2024-11-05"):
        def reply(wire):
            if wire.get("method") == "initialize":
                return {"jsonrpc": "2.0", "id": wire["id"],
                        "result": {"protocolVersion": wire["params"]["protocolVersion"], "capabilities": {},
                                   "serverInfo": {"name": "s", "version": "1"}}}
            return None

        async def main():
            return await with_responder(lambda rd, wr: M.send_initialize(rd, wr, timeout=5.0, preferred_version=pv), reply)

        try:
            with patched_uuid():
                _, written = on_loop(main)
            first = written[0]
            if first.get("method") != "initialize" or "clientInfo" not in first.get("params", {}):
                raise RuntimeError(f"the first message written is not the initialize request: {first}")
            out.append(result(f"preferred_version={pv}", {"preferred_version": pv}, [], first, expect_marker=False))
        except Exception as e:  # noqa: BLE001
            out.append(failed(f"preferred_version={pv}", e))
    return out


def d_handle_roots_list_request():
    from chuk_mcp.protocol.messages.roots import send_messages as M

    out = []
    insts = instances(M.Root)
    groups = [[i] for i in insts] + [insts[:3]]
    for g in groups:
        desc = "roots=[" + ",".join(lbl for lbl, _, _ in g) + "]"
        try:
            msg = on_loop(lambda: M.handle_roots_list_request([i for _, _, i in g], "r-1"))
            out.append(result(desc, [w for _, w, _ in g], [], plain(msg), any(carries_mark(i) for _, _, i in g)))
        except Exception as e:  # noqa: BLE001
            out.append(failed(desc, e))
    return out


def d_send_sampling_create_message():
    from chuk_mcp.protocol.messages.sampling import send_messages as M

    from .sched import patched_uuid

    hints = typing.get_type_hints(M.send_sampling_create_message)
    msgs = arg_variants(typing.get_args(hints["messages"])[0])
    prefs = [None] + arg_variants(hints["model_preferences"], limit=4)
    combos = [([m], prefs[1] if len(prefs) > 1 else None) for m in msgs] + [(msgs[:2], p) for p in prefs]
    out = []
    for ms, p in combos:
        desc = "messages=[" + ",".join(m["desc"] for m in ms) + "] prefs=" + (p["desc"] if p else "None")

        async def main():
            return await with_responder(
                lambda rd, wr: M.send_sampling_create_message(
                    rd, wr, [m["value"] for m in ms], 16, model_preferences=p["value"] if p else None, timeout=5.0),
                ok_reply({"role": "assistant", "content": {"type": "text", "text": "t"}, "model": "m"}))

        try:
            with patched_uuid():
                _, written = on_loop(main)
            al = sorted({tuple(a) for m in ms for a in m["aliases"]} | ({tuple(a) for a in p["aliases"]} if p else set()))
            out.append(result(desc, {"messages": [m["wire"] for m in ms], "modelPreferences": p["wire"] if p else None},
                              [list(a) for a in al], written[0], any(m["mark"] for m in ms)))
        except Exception as e:  # noqa: BLE001
            out.append(failed(desc, e))
    return out


def d_handle_create_message_request():
    from chuk_mcp.protocol.messages.sampling import send_messages as M
    from chuk_mcp.protocol.types import content as C

    out = []
    for v in arg_variants(C.Content):
        class Res:
            role = "assistant"
            content = v["value"]
            stop_reason = "endTurn"

        class Provider:
            async def create_message(self, **kw):
                return Res()

        try:
            handler = M.SamplingHandler(Provider())
            params = {"messages": [{"role": "user", "content": {"type": "text", "text": "q"}}], "maxTokens": 8}
            got = on_loop(lambda: handler.handle_create_message_request(params, "r-1"))
            out.append(result(f"content={v['desc']}", v["wire"], v["aliases"], plain(got), v["mark"]))
            if modelops.is_instance(v["value"]) and len([o for o in out if "expected" in o]) < 8:
                edits = edit_in_place(v["value"])
                if edits:
                    second = on_loop(lambda: handler.handle_create_message_request(params, "r-2"))
                    fresh = on_loop(lambda: M.SamplingHandler(Provider()).handle_create_message_request(params, "r-2"))
                    out.append(resend_row(f"content={v['desc']}", v["wire"], plain(second), plain(fresh), edits))
        except Exception as e:  # noqa: BLE001
            out.append(failed(v["desc"], e))
    return out


def d_protocol_handler_initialize():
    from chuk_mcp.protocol.messages.json_rpc_message import parse_message
    from chuk_mcp.protocol.types.capabilities import ServerCapabilities
    from chuk_mcp.protocol.types.info import ServerInfo
    from chuk_mcp.server.protocol_handler import ProtocolHandler

    infos = instances(ServerInfo)
    caps = instances(ServerCapabilities)
    combos = [(i, caps[-1]) for i in infos] + [(infos[0], c) for c in caps]
    out = []
    req = {"jsonrpc": "2.0", "id": 1, "method": "initialize",
           "params": {"protocolVersion": "2025-06-18", "capabilities": {}, "clientInfo": {"name": "c", "version": "1"}}}
    for (il, iw, ii), (cl, cw, ci) in combos:
        desc = f"server_info[{il}] capabilities[{cl}]"
        try:
            handler = ProtocolHandler(ii, ci)
            resp, _sid = on_loop(lambda: handler._handle_initialize(parse_message(req), None))
            out.append(result(desc, {"serverInfo": iw, "capabilities": cw}, populated_aliases(ii) + populated_aliases(ci),
                              plain(resp), carries_mark(ii) or carries_mark(ci)))
        except Exception as e:  # noqa: BLE001
            out.append(failed(desc, e))
    return out


ENVELOPES = [
    {"jsonrpc": "2.0", "id": "q-1", "method": "tools/call",
     "params": {"name": "t", "arguments": {"schema": {"a": 1}}, "_meta": {"progressToken": "p"}, MARK: "vf"}},
    {"jsonrpc": "2.0", "method": "notifications/message", "params": {"level": "info", "_meta": {"k": 1}, MARK: "vf"}},
    {"jsonrpc": "2.0", "id": 7, "result": {"content": [{"type": "text", "text": "t"}],
                                           "structuredContent": [{"type": "structured", "data": {}, "schema": {"a": 1}}],
                                           "_meta": {"k": 1}, MARK: "vf"}},
    {"jsonrpc": "2.0", "id": "q-2", "error": {"code": -32000, "message": "m", "data": {"_meta": {"k": 1}, MARK: "vf"}}},
]
ENVELOPE_ALIASES = [["_meta", "meta"], ["schema", "schema_"]]


def message_objects() -> List[Tuple[str, Dict[str, Any], Any]]:
    """Typed message objects built from wire JSON: through parse_message and
    through the specific envelope classes."""
    from chuk_mcp.protocol.messages import json_rpc_message as J

    out = []
    for w in ENVELOPES:
        kind = "request" if "method" in w and "id" in w else "notification" if "method" in w else \
            "result" if "result" in w else "error"
        out.append((f"parse_message({kind})", w, J.parse_message(w)))
        cls = {"request": J.JSONRPCRequest, "notification": J.JSONRPCNotification, "result": J.JSONRPCResponse,
               "error": J.JSONRPCError}[kind]
        out.append((f"{cls.__name__}.model_validate", w, cls.model_validate(w)))
    return out


def d_send_message_await_response():
    from chuk_mcp.protocol.messages.send_message import send_message

    from .sched import patched_uuid

    out = []
    payloads = [{"tools": [{"name": "t", "inputSchema": {}, "_meta": {"k": 1}}], "_meta": {"k": 2}, MARK: "vf"},
                {"structuredContent": [{"type": "structured", "data": {}, "schema": {"a": 1}}], MARK: "vf"}]
    for i, pl in enumerate(payloads):
        async def main():
            return await with_responder(
                lambda rd, wr: send_message(rd, wr, "tools/list", {"cursor": "c", "_meta": {"k": 1}}, timeout=5.0),
                ok_reply(pl))

        try:
            with patched_uuid():
                val, written = on_loop(main)
            out.append(result(f"returned-result#{i}", pl, [a for a in ENVELOPE_ALIASES if a[0] in keys_of(pl)], plain(val)))
        except Exception as e:  # noqa: BLE001
            out.append(failed(f"returned-result#{i}", e))
    return out


def d_process_response():
    from chuk_mcp.protocol.messages.send_message import _process_response

    out = []
    for desc, w, obj in message_objects():
        if "error" in w:
            continue
        try:
            out.append(result(desc, w, [a for a in ENVELOPE_ALIASES if a[0] in keys_of(w)], plain(_process_response(obj))))
        except Exception as e:  # noqa: BLE001
            out.append(failed(desc, e))
    return out


class _CaptureHTTP:
    """httpx seam: every request of an AsyncClient is answered from here."""

    def __init__(self):
        self.bodies: List[Any] = []

    def __enter__(self):
        import httpx

        self._orig = httpx.AsyncHTTPTransport.handle_async_request
        outer = self

        async def handle(transport_self, request):
            body = request.content
            outer.bodies.append(json.loads(body.decode("utf-8")) if body else None)
            sent = outer.bodies[-1] or {}
            if isinstance(sent, dict) and "id" in sent and "method" in sent:
                return httpx.Response(200, json={"jsonrpc": "2.0", "id": sent["id"], "result": {}}, request=request)
            return httpx.Response(202, request=request)

        httpx.AsyncHTTPTransport.handle_async_request = handle
        return self

    def __exit__(self, *a):
        import httpx

        httpx.AsyncHTTPTransport.handle_async_request = self._orig
        return False


def d_http_send_message_internal():
    from chuk_mcp.transports.http.parameters import StreamableHTTPParameters
    from chuk_mcp.transports.http.transport import StreamableHTTPTransport

    out = []
    for desc, w, obj in message_objects():
        async def main():
            import anyio

            t = StreamableHTTPTransport(StreamableHTTPParameters(url="http://example.test/mcp"))
            t._incoming_send, t._incoming_recv = anyio.create_memory_object_stream(100)
            await t._send_message_internal(obj)

        try:
            with _CaptureHTTP() as cap:
                on_loop(main)
            if len(cap.bodies) != 1:
                raise RuntimeError(f"expected one HTTP request, saw {len(cap.bodies)}")
            out.append(result(desc, w, [a for a in ENVELOPE_ALIASES if a[0] in keys_of(w)], cap.bodies[0]))
        except Exception as e:  # noqa: BLE001
            out.append(failed(desc, e))
    return out


def d_sse_send_message_via_http():
    from chuk_mcp.transports.sse.parameters import SSEParameters
    from chuk_mcp.transports.sse.transport import SSETransport

    out = []
    for desc, w, obj in message_objects():
        async def main():
            import anyio
            import httpx

            t = SSETransport(SSEParameters(url="http://example.test"))
            t._incoming_send, t._incoming_recv = anyio.create_memory_object_stream(100)
            t._message_url = "http://example.test/messages/?session_id=s"
            t._send_client = httpx.AsyncClient()
            try:
                await t._send_message_via_http(obj)
            finally:
                await t._send_client.aclose()

        try:
            with _CaptureHTTP() as cap:
                on_loop(main)
            if len(cap.bodies) != 1:
                raise RuntimeError(f"expected one HTTP request, saw {len(cap.bodies)}")
            out.append(result(desc, w, [a for a in ENVELOPE_ALIASES if a[0] in keys_of(w)], cap.bodies[0]))
        except Exception as e:  # noqa: BLE001
            out.append(failed(desc, e))
    return out


def d_stdio_stdin_writer():
    from chuk_mcp.transports.stdio.stdio_client import StdioClient

    from . import seams

    out = []
    for desc, w, obj in message_objects():
        proc = seams.FakeProcess()

        async def main():
            loop = asyncio.get_running_loop()
            q = seams.Quiescence(loop)
            with seams.patched_open_process(lambda cmd, kw: proc):
                async with StdioClient(seams.stdio_params()) as client:
                    _read, write = client.get_streams()
                    await write.send(obj)
                    await q.settle()

        try:
            on_loop(main)
            lines = [ln for ln in bytes(proc.stdin.data).split(b"\n") if ln.strip()]
            if len(lines) != 1:
                raise RuntimeError(f"expected one line on the child's stdin, saw {len(lines)}")
            out.append(result(desc, w, [a for a in ENVELOPE_ALIASES if a[0] in keys_of(w)], json.loads(lines[0].decode("utf-8"))))
        except Exception as e:  # noqa: BLE001
            out.append(failed(desc, e))
    return out


# ---------------------------------------------------------------------------
# typed views handed out by the request helpers (send_* functions that return a model)
# ---------------------------------------------------------------------------
def discover_senders() -> List[str]:
    """module:name of every coroutine function send_* under chuk_mcp.protocol.messages annotated to return a model class."""
    import sys

    wiregen.discover()
    out = []
    for mname, mod in sorted(sys.modules.items()):
        if not mname.startswith("chuk_mcp.protocol.messages") or mod is None:
            continue
        for n, f in sorted(vars(mod).items()):
            if n.startswith("send_") and inspect.iscoroutinefunction(f) and f.__module__ == mname:
                try:
                    ret = typing.get_type_hints(f).get("return")
                except Exception:  # noqa: BLE001
                    continue
                if wiregen.is_model(ret):
                    out.append(f"{mname}:{n}")
    return out


def sender_fn(ref: str):
    import importlib

    mod, _, name = ref.partition(":")
    return getattr(importlib.import_module(mod), name)


def sender_return_class(ref: str) -> type:
    return typing.get_type_hints(sender_fn(ref))["return"]


# how the result object travels in the response of the few helpers that do not take it as the whole result
RESULT_ENVELOPES: Dict[str, Callable[[Dict[str, Any], Dict[str, Any]], Dict[str, Any]]] = {
    "send_completion_complete": lambda w, req: {"completion": w},
    # the handshake accepts only a version it knows: the scripted server answers the version the client proposed
    "send_initialize": lambda w, req: {**w, "protocolVersion": req["params"]["protocolVersion"]},
    "send_initialize_with_client_tracking": lambda w, req: {**w, "protocolVersion": req["params"]["protocolVersion"]},
}


def sender_arg_variants(ref: str, w: Dict[str, Any]) -> List[Dict[str, Any]]:
    """Keyword arguments for the helper: a baseline, and for every string parameter each string found at the top level of
    the response object (a follow-up request often carries a value of the previous answer, e.g. a cursor)."""
    fn = sender_fn(ref)
    hints = typing.get_type_hints(fn)
    sig = inspect.signature(fn)
    base: Dict[str, Any] = {}
    string_params = []
    for name, p in sig.parameters.items():
        if name in ("read_stream", "write_stream"):
            continue
        tp, optional = wiregen._strip_optional(hints.get(name, Any))
        if name == "timeout":
            base[name] = 5.0
        elif tp is str:
            string_params.append(name)
            if p.default is inspect.Parameter.empty:
                base[name] = "a"
        elif p.default is not inspect.Parameter.empty:
            continue                                        # left at its default
        elif tp is dict or typing.get_origin(tp) in (dict, Dict):
            base[name] = {"k": 1}
        elif typing.get_origin(tp) is typing.Union or wiregen.is_model(tp):
            arms = model_arms(tp)[0]
            base[name] = wiregen.minimal(arms[0], 1) if arms else None
        elif tp is int:
            base[name] = 1
        else:
            base[name] = None
    out = [{"label": "baseline", "kwargs": base}]
    strings = [v for v in w.values() if isinstance(v, str)]
    for name in string_params:
        for sv in dict.fromkeys(["a", "other"] + strings):
            kw = {**base, name: sv}
            if kw != base:
                out.append({"label": f"{name}={'<a string of the response>' if sv in strings else repr(sv)}", "kwargs": kw})
    return out


def op_sender(case: Dict[str, Any]) -> Dict[str, Any]:
    from .sched import patched_uuid

    ref = case["sender"]
    fn = sender_fn(ref)
    cls = sender_return_class(ref)
    w = dec(case["wire"])
    try:
        direct = cls.model_validate(dec(case["wire"]))
    except Exception:  # noqa: BLE001
        return {"ok": False, "why": "not-spec-valid"}
    envelope = RESULT_ENVELOPES.get(ref.partition(":")[2], lambda w_, req: w_)
    sent_result: Dict[str, Any] = {}

    def reply(wire):
        if "id" in wire and "method" in wire:
            sent_result["w"] = envelope(dec(case["wire"]), wire)
            return {"jsonrpc": "2.0", "id": wire["id"], "result": sent_result["w"]}
        return None

    async def main():
        return await with_responder(lambda rd, wr: fn(rd, wr, **case["kwargs"]), reply)

    try:
        with patched_uuid():
            x, _written = on_loop(main)
    except Exception as e:  # noqa: BLE001
        return {"ok": False, "why": "raised", **modelops.exc_facts(e)}
    if not modelops.is_instance(x):
        return {"ok": False, "why": "not-typed", "type": type(x).__name__}
    unwrapped = sent_result["w"].get("completion") if ref.endswith("send_completion_complete") else sent_result["w"]
    dump = x.model_dump(by_alias=True, exclude_none=True)
    problems = modelops.lossless_problems(x, unwrapped, dump)
    ddump = cls.model_validate(unwrapped).model_dump(by_alias=True, exclude_none=True)
    return {"ok": True, "lossless": problems, "differs_from_direct_view": modelops.first_json_diff(modelops.to_plain(ddump),
                                                                                                  modelops.to_plain(dump))}


def composed_sites() -> List[Dict[str, Any]]:
    """Result-building paths that dump nothing themselves but hand out a typed object which the package's serialisers
    then put on the wire: every public coroutine method with a model return type of every discovered *Manager / *Registry."""
    import importlib

    out = []
    for h in modelops.discover_helpers():
        mod, _, name = h.partition(":")
        cls = getattr(importlib.import_module(mod), name)
        rel = "/".join(mod.split(".")[1:]) + ".py"
        for mname, fn in sorted(vars(cls).items()):
            if mname.startswith("_") or not inspect.iscoroutinefunction(fn):
                continue
            try:
                ret = typing.get_type_hints(fn).get("return")
            except Exception:  # noqa: BLE001
                ret = None
            if ret is not None and model_arms(ret)[0]:
                out.append({"site": f"helper:{rel}:{name}.{mname}", "calls": [{"line": 0, "code": f"returns {getattr(ret, '__name__', ret)}"}],
                            "callers": []})
    return out


def d_tool_registry_call_tool():
    """A registered handler returns a typed result - of the class call_tool is annotated with or of its namesake in the
    messages layer (what send_tools_call hands to a forwarding tool) - a dict or a string; the registry's answer is put on
    the wire with tool_result_to_dict."""
    from chuk_mcp.protocol.types import tools as T

    ret = typing.get_type_hints(T.ToolRegistry.call_tool)["return"]
    out = []
    for v in arg_variants(with_homonyms(ret)):
        if not modelops.is_instance(v["value"]):
            continue

        async def handler(arguments, value=v["value"]):
            return value

        try:
            reg = T.ToolRegistry()
            reg.register_tool(T.Tool.model_validate({"name": "t", "inputSchema": {"type": "object"}}), handler)
            res = on_loop(lambda: reg.call_tool("t", {"q": 1}))
            # the marker member is not demanded here: whether a result builder carries unknown members over is not what
            # part B judges (names are)
            out.append(result(f"handler returns {v['desc']}", v["wire"], v["aliases"], plain(T.tool_result_to_dict(res)), False))
        except Exception as e:  # noqa: BLE001
            out.append(failed(v["desc"], e))
    return out


def d_roots_manager_handle_list_request():
    from chuk_mcp.protocol.messages.roots import send_messages as M

    out = []
    insts = instances(M.Root)
    for g in [[i] for i in insts] + [insts[:3]]:
        desc = "roots=[" + ",".join(lbl for lbl, _, _ in g) + "]"
        try:
            mgr = M.RootsManager()
            for _, _, inst in g:
                mgr.add_root(inst)
            resp = on_loop(lambda: mgr.handle_list_request("r-1"))
            out.append(result(desc, [w for _, w, _ in g], [], plain(resp), any(carries_mark(i) for _, _, i in g)))
        except Exception as e:  # noqa: BLE001
            out.append(failed(desc, e))
    return out


DRIVERS: Dict[str, Callable[[], List[Dict[str, Any]]]] = {
    "helper:protocol/types/tools.py:ToolRegistry.call_tool": d_tool_registry_call_tool,
    "helper:protocol/messages/roots/send_messages.py:RootsManager.handle_list_request": d_roots_manager_handle_list_request,
    "protocol/types/content.py:content_to_dict": d_content_to_dict,
    "protocol/types/tools.py:tool_result_to_dict": d_tool_result_to_dict,
    "protocol/types/elicitation.py:ElicitationHandler.request_user_input": d_request_user_input,
    "protocol/messages/completions/send_messages.py:send_completion_complete": d_send_completion_complete,
    "protocol/messages/initialize/send_messages.py:send_initialize": d_send_initialize,
    "protocol/messages/roots/send_messages.py:handle_roots_list_request": d_handle_roots_list_request,
    "protocol/messages/sampling/send_messages.py:send_sampling_create_message": d_send_sampling_create_message,
    "protocol/messages/sampling/send_messages.py:SamplingHandler.handle_create_message_request": d_handle_create_message_request,
    "server/protocol_handler.py:ProtocolHandler._handle_initialize": d_protocol_handler_initialize,
    "protocol/messages/send_message.py:_await_response": d_send_message_await_response,
    "protocol/messages/send_message.py:_process_response": d_process_response,
    "transports/http/transport.py:StreamableHTTPTransport._send_message_internal": d_http_send_message_internal,
    "transports/sse/transport.py:SSETransport._send_message_via_http": d_sse_send_message_via_http,
    "transports/stdio/stdio_client.py:StdioClient._stdin_writer": d_stdio_stdin_writer,
}


# ---------------------------------------------------------------------------
def child_hello() -> Dict[str, Any]:
    h = modelops.backend_facts()
    h["sites"] = discover_sites() + composed_sites()
    h["drivers"] = sorted(DRIVERS)
    h["alias_pairs"] = all_alias_pairs()
    return h


def child_handle(case: Any) -> Any:
    op = case.get("op")
    if op == "validate":
        return modelops.op_validate(case)
    if op == "isolation":
        return modelops.op_isolation(case)
    if op == "inputmut":
        return modelops.op_inputmut(case)
    if op == "libedit":
        return modelops.op_libedit(case)
    if op == "sender":
        return op_sender(case)
    if op in ("dumporder", "methods", "eqprobe", "helper", "helpers", "shared", "unionseq", "seqfork", "constructed", "class_names"):
        return modelops.child_handle(case)
    if op == "drive":
        d = DRIVERS.get(case["site"])
        if d is None:
            return {"site": case["site"], "no_driver": True}
        return {"site": case["site"], "results": d()}
    raise ValueError(f"unknown op {op!r}")
