"""External seams: scripted child process (anyio.open_process) and helpers.

No source hooks are needed: ``anyio.open_process`` is the documented call the
stdio transport makes; the fake below implements the part of
``anyio.abc.Process`` the library uses.
"""
from __future__ import annotations

import asyncio
from collections import deque
from typing import Any, Callable, Dict, List, Optional

import anyio


class Quiescence:
    """Lets harness tasks wait until the library has run to quiescence
    (ready queue empty) at the current virtual instant."""

    def __init__(self, loop):
        self.loop = loop
        self._waiters: List[asyncio.Future] = []
        self.chain: Optional[Callable] = None
        loop.idle_hook = self._idle

    def _idle(self, loop):
        ws = [w for w in self._waiters if not w.done()]
        self._waiters = []
        if ws:
            for w in ws:
                w.set_result(None)
            return
        if self.chain is not None:
            self.chain(loop)

    async def settle(self):
        """Return once nothing else is runnable at this instant."""
        w = self.loop.create_future()
        self._waiters.append(w)
        await w


class FakeStdout:
    def __init__(self, proc):
        self._proc = proc
        self._chunks: deque = deque()
        self._eof = False
        self._waiter: Optional[asyncio.Future] = None
        self.closed = False
        self.delivered = 0
        self.eof_seen = False

    def feed(self, data: bytes):
        self._chunks.append(data)
        self._wake()

    def feed_eof(self):
        self._eof = True
        self._wake()

    def _wake(self):
        w = self._waiter
        if w is not None and not w.done():
            w.set_result(None)

    async def receive(self, max_bytes: int = 65536) -> bytes:
        while True:
            if self._chunks:
                self.delivered += 1
                return self._chunks.popleft()
            if self._eof or self.closed:
                if self._eof:
                    self.eof_seen = True  # the reader got to the end of the pipe (the real descriptor is closed then)
                raise anyio.EndOfStream
            self._waiter = asyncio.get_running_loop().create_future()
            try:
                await self._waiter
            finally:
                self._waiter = None

    def __aiter__(self):
        return self

    async def __anext__(self):
        try:
            return await self.receive()
        except anyio.EndOfStream:
            raise StopAsyncIteration from None

    async def aclose(self):
        self.closed = True
        self._wake()


class FakeStdin:
    def __init__(self, proc):
        self._proc = proc
        self.data = bytearray()
        self.sends: List[bytes] = []
        self.closed = False
        self.mode = "ok"  # ok | block | broken
        self.send_calls = 0
        self.yields = 1  # scheduling points inside one send (emulates a drain that suspends)
        # optional model of write+drain on a FULL pipe: slow(call_index, data) -> None (not slow) or the virtual
        # seconds the caller is kept waiting AFTER the bytes were handed to the pipe (float("inf") = forever).
        # The bytes are recorded at send() time; if the caller is cancelled while waiting they stay recorded.
        self.slow: Optional[Callable[[int, bytes], Optional[float]]] = None
        # optional transient pipe trouble: fail(call_index, data) -> None (no trouble) or the exception this send()
        # raises; nothing of the data is recorded for a failed send
        self.fail: Optional[Callable[[int, bytes], Optional[BaseException]]] = None
        self.failed_calls: List[int] = []

    async def send(self, data: bytes):
        self.send_calls += 1
        if self.closed:
            raise anyio.ClosedResourceError
        if self.mode == "broken" or self._proc.returncode is not None and self._proc.break_pipe_on_exit:
            raise anyio.BrokenResourceError
        if self.mode == "block":
            await asyncio.get_running_loop().create_future()  # never completes
        if self.fail is not None:
            exc = self.fail(self.send_calls - 1, bytes(data))
            if exc is not None:
                self.failed_calls.append(self.send_calls - 1)
                await asyncio.sleep(0)
                raise exc
        if self.slow is not None:
            delay = self.slow(self.send_calls - 1, bytes(data))
            if delay is not None:
                self._accept(data)  # the pipe has the bytes ...
                if delay == float("inf"):
                    await asyncio.get_running_loop().create_future()  # ... and never drains
                else:
                    await asyncio.sleep(delay)  # ... and drains only after a while
                return
        for _ in range(self.yields):
            await asyncio.sleep(0)
        self._accept(data)

    def _accept(self, data: bytes):
        self.sends.append(bytes(data))
        self.data += data
        cb = self._proc.on_stdin
        if cb is not None:
            cb(bytes(data))

    async def aclose(self):
        self.closed = True
        cb = self._proc.on_stdin_close
        if cb is not None:
            cb()


class FakeProcess:
    """Scripted child.  ``obey_term`` / ``obey_kill``: None = ignore the signal,
    otherwise the virtual delay after which the process exits."""

    _next_pid = 40000

    def __init__(self, obey_term: Optional[float] = 0.0, obey_kill: Optional[float] = 0.0):
        FakeProcess._next_pid += 1
        self.pid = FakeProcess._next_pid
        self.stdin = FakeStdin(self)
        self.stdout = FakeStdout(self)
        self.stderr = None
        self.returncode: Optional[int] = None
        self.obey_term = obey_term
        self.obey_kill = obey_kill
        self.calls: List[tuple] = []
        self._exit_waiters: List[asyncio.Future] = []
        self.on_stdin: Optional[Callable[[bytes], None]] = None
        self.on_stdin_close: Optional[Callable[[], None]] = None
        self.break_pipe_on_exit = True
        self.eof_on_exit = True
        self.argv = None
        self.env = None
        self.kwargs = None
        self.wait_calls = 0

    def _now(self):
        try:
            return asyncio.get_running_loop().time()
        except RuntimeError:
            return None

    def exit(self, code: int = 0):
        if self.returncode is not None:
            return
        self.returncode = code
        self.calls.append(("exit", self._now(), code))
        if self.eof_on_exit:
            self.stdout.feed_eof()
        for w in self._exit_waiters:
            if not w.done():
                w.set_result(None)
        self._exit_waiters.clear()

    def _signal(self, name, delay, code):
        self.calls.append((name, self._now()))
        if self.returncode is not None:
            return
        if delay is None:
            return
        loop = asyncio.get_running_loop()
        if delay == 0:
            self.exit(code)
        else:
            loop.call_later(delay, self.exit, code)

    def terminate(self):
        self._signal("terminate", self.obey_term, -15)

    def kill(self):
        self._signal("kill", self.obey_kill, -9)

    def send_signal(self, sig):
        self.calls.append(("signal", self._now(), int(sig)))

    async def wait(self) -> int:
        self.wait_calls += 1
        while self.returncode is None:
            w = asyncio.get_running_loop().create_future()
            self._exit_waiters.append(w)
            try:
                await w
            finally:
                if w in self._exit_waiters:
                    self._exit_waiters.remove(w)
        return self.returncode

    async def aclose(self):
        await self.stdin.aclose()
        await self.stdout.aclose()


class patched_open_process:
    """Replace anyio.open_process by a factory returning FakeProcess objects."""

    def __init__(self, factory: Callable[..., Any]):
        self.factory = factory
        self.spawned: List[Any] = []

    def __enter__(self):
        import anyio as _anyio

        if not hasattr(_anyio, "open_process"):
            raise RuntimeError("seam missing: anyio.open_process")
        self._orig = _anyio.open_process
        outer = self

        async def fake_open_process(command, **kwargs):
            p = outer.factory(command, kwargs)
            if isinstance(p, BaseException):
                raise p
            d = getattr(p, "spawn_delay", 0)
            if d:
                await asyncio.sleep(d)  # a slow spawn: cancellation may arrive while the process is being started
            cb = getattr(p, "on_spawned", None)
            if cb is not None:
                cb()  # the instant the spawn completes (before the library regains control)
            p.argv = list(command) if not isinstance(command, (str, bytes)) else command
            p.env = kwargs.get("env")
            p.kwargs = kwargs
            outer.spawned.append(p)
            return p

        _anyio.open_process = fake_open_process
        return self

    def __exit__(self, *a):
        import anyio as _anyio

        _anyio.open_process = self._orig
        return False


def stdio_params(command="fake-server", args=None, env=None):
    from chuk_mcp.transports.stdio.parameters import StdioParameters

    return StdioParameters(command=command, args=list(args or []), env=env)
