"""ENCODE statefulness (C17): what one dumps()/model_dump_json() call leaves behind in
the process must not change what a later call produces.

A worker process that has only imported the library stays pristine for its whole
life: every sequence of calls is executed in a child it forks for that sequence
alone (fork is the cheap way to get "a fresh process that has imported the
library and called nothing").  The reference for a call is its output when it is
the only call made in such a fresh process.

Everything the sequences are built from is a module-level table, so the parent and
the workers agree by index.
"""
from __future__ import annotations

import hashlib
import itertools
import json
import os
from typing import Any, Dict, List, Tuple

# --- option alphabet of fast_json.dumps -------------------------------------------
OPTIONS: List[Tuple[str, Dict[str, Any]]] = [
    ("no options", {}),
    ("indent=2", {"indent": 2}),
    ("indent=None", {"indent": None}),
    ("separators=compact", {"separators": (",", ":")}),
    ("separators=spaced", {"separators": (", ", ": ")}),
    ("sort_keys=True", {"sort_keys": True}),
    ("sort_keys=False", {"sort_keys": False}),
    ("default=str", {"default": str}),
    ("ensure_ascii=True", {"ensure_ascii": True}),
    ("ensure_ascii=False", {"ensure_ascii": False}),
    # the two calls the fallback model layer makes (model_dump_json() and model_dump_json(indent=2))
    ("indent=None,separators=compact,default=str", {"indent": None, "separators": (",", ":"), "default": str}),
    ("indent=2,separators=compact,default=str", {"indent": 2, "separators": (",", ":"), "default": str}),
    ("indent=2,sort_keys=True", {"indent": 2, "sort_keys": True}),
    ("default=hook", {"default": lambda o: {"hooked": type(o).__name__}}),
]
PRETTY = {i for i, (_, kw) in enumerate(OPTIONS) if kw.get("indent")}


class _Odd:
    """Only serialisable through default=."""

    def __str__(self):
        return "odd-object"


def build_values() -> List[Tuple[str, Any]]:
    deep: Any = {"bottom": [1, {"k": "v"}]}
    for _ in range(260):                       # beyond orjson's nesting limit: takes the stdlib path under orjson too
        deep = [deep]
    return [
        ("message-with-2^64", {"jsonrpc": "2.0", "id": 1, "method": "tools/call",
                               "params": {"name": "t", "arguments": {"n": 2 ** 64, "b": [1, 2]}, "a": "é"}}),
        ("plain-object", {"b": 1, "a": [1, {"d": 2, "c": "é\n"}]}),
        ("deep-nesting", deep),
        ("lone-surrogate", {"s": "\ud800", "k": ["é", 1]}),
        ("needs-default", {"when": _Odd(), "n": [2 ** 64]}),
        ("2^64", 2 ** 64),
        ("-2^63-1,10^30", {"id": -(2 ** 63) - 1, "total": 10 ** 30, "s": "é"}),
    ]


# values the optional codec refuses and hands to the standard library: whatever the options, the result must be the one
# the standard-library configuration gives
STDLIB_PATH_VALUES = ("message-with-2^64", "deep-nesting", "lone-surrogate", "needs-default", "2^64", "-2^63-1,10^30")


def judge_across(kind: str, refs: Dict[str, Dict[Tuple[int, int], Dict[str, Any]]]) -> List[Tuple[List[List[int]], dict, str]]:
    """First-call-in-a-fresh-process outputs of the orjson configuration vs the stdlib configuration, for the values that
    take the standard-library path in both."""
    if kind != "dumps" or "orjson" not in refs or "stdlib" not in refs:
        return []
    names = [n for n, _ in build_values()]
    out = []
    for (o, v), a in sorted(refs["orjson"].items()):
        if names[v] not in STDLIB_PATH_VALUES:
            continue
        b = refs["stdlib"].get((o, v))
        if b is None:
            continue
        if {k: a.get(k) for k in ("h", "len", "exc")} != {k: b.get(k) for k in ("h", "len", "exc")}:
            out.append(([[o, v]], {"class": "orjson-refused-value-encoded-differently", "config": "orjson", "call": OPTIONS[o][0]},
                        f"dumps({names[v]}, {OPTIONS[o][0]}) in a fresh process: with orjson importable -> "
                        f"{a.get('exc') or str(a.get('len')) + ' bytes'}, with orjson masked -> {b.get('exc') or str(b.get('len')) + ' bytes'}"))
    return out


# --- the model layer -----------------------------------------------------------------
MODEL_KW: List[Tuple[str, Dict[str, Any]]] = [
    ("()", {}),
    ("(indent=2)", {"indent": 2}),
    ("(exclude_none=True)", {"exclude_none": True}),
    ("(indent=2,exclude_none=True)", {"indent": 2, "exclude_none": True}),
    ("(by_alias=True,exclude_none=True)", {"by_alias": True, "exclude_none": True}),
]
MODEL_PRETTY = {i for i, (_, kw) in enumerate(MODEL_KW) if kw.get("indent")}


def build_models() -> List[Tuple[str, Any]]:
    from chuk_mcp.protocol.messages import json_rpc_message as J
    from chuk_mcp.protocol.messages.tools.send_messages import ListToolsResult
    from chuk_mcp.protocol.types.content import TextContent

    return [
        ("request", J.parse_message({"jsonrpc": "2.0", "id": 1, "method": "tools/call",
                                     "params": {"name": "t", "arguments": {"n": 2 ** 64, "s": "a\nb"}}})),
        ("ListToolsResult", ListToolsResult.model_validate(
            {"tools": [{"name": "t", "inputSchema": {"type": "object"}, "_meta": {"k": 1}}], "nextCursor": "c"})),
        ("TextContent", TextContent.model_validate({"type": "text", "text": "a\nb", "annotations": {"priority": 0.5}})),
    ]


# --- child side -------------------------------------------------------------------------
def _digest(text: str) -> Dict[str, Any]:
    b = text.encode("utf-8", "surrogatepass")
    return {"h": hashlib.blake2b(b, digest_size=10).hexdigest(), "len": len(b), "nl": ("\n" in text or "\r" in text)}


def _run_dumps(calls: List[List[int]], full: bool) -> List[Dict[str, Any]]:
    from chuk_mcp.protocol import fast_json

    vals = _CACHE["values"]
    out = []
    for oi, vi in calls:
        try:
            t = fast_json.dumps(vals[vi][1], **OPTIONS[oi][1])
            r = _digest(t)
            if full:
                r["text"] = t[:400].encode("utf-8", "backslashreplace").decode("ascii", "backslashreplace")
            out.append(r)
        except BaseException as e:  # noqa: BLE001 - an observation
            out.append({"exc": type(e).__name__})
    return out


def _run_models(calls: List[List[int]], full: bool) -> List[Dict[str, Any]]:
    models = _CACHE["models"]
    out = []
    for ki, mi in calls:
        try:
            t = models[mi][1].model_dump_json(**MODEL_KW[ki][1])
            r = _digest(t)
            if full:
                r["text"] = t[:400]
            out.append(r)
        except BaseException as e:  # noqa: BLE001
            out.append({"exc": type(e).__name__})
    return out


def in_fork(fn) -> Any:
    """Result of fn() computed in a forked child of this (pristine) process."""
    r, w = os.pipe()
    pid = os.fork()
    if pid == 0:
        code = 0
        try:
            os.close(r)
            try:
                data = json.dumps({"ok": fn()}).encode("ascii")
            except BaseException as e:  # noqa: BLE001
                data = json.dumps({"fail": f"{type(e).__name__}: {e}"[:300]}).encode("ascii")
            view = memoryview(data)
            while view:
                n = os.write(w, view[:65536])
                view = view[n:]
        except BaseException:  # noqa: BLE001
            code = 1
        finally:
            os._exit(code)
    os.close(w)
    chunks = []
    while True:
        b = os.read(r, 1 << 16)
        if not b:
            break
        chunks.append(b)
    os.close(r)
    os.waitpid(pid, 0)
    doc = json.loads(b"".join(chunks) or b'{"fail": "no answer from the forked child"}')
    if "fail" in doc:
        raise RuntimeError(doc["fail"])
    return doc["ok"]


_CACHE: Dict[str, Any] = {}


def child_seq(case: List[Any]) -> List[Dict[str, Any]]:
    """case = ["seq", "dumps" | "model", [[option index, value index], ...], full?]"""
    kind, calls = case[1], case[2]
    # inputs are built once in the pristine worker (building values / validating models calls no encoder)
    if kind == "dumps" and "values" not in _CACHE:
        _CACHE["values"] = build_values()
    if kind == "model" and "models" not in _CACHE:
        _CACHE["models"] = build_models()
    if "frozen" not in _CACHE:
        import gc

        gc.collect()
        gc.freeze()                 # fewer copy-on-write faults in the forked children
        _CACHE["frozen"] = True
    full = bool(case[3]) if len(case) > 3 else False
    return in_fork(lambda: _run_dumps(calls, full) if kind == "dumps" else _run_models(calls, full))


# --- parent side: the sequences ---------------------------------------------------------------
def dumps_sequences(tier: str) -> List[List[List[int]]]:
    no, nv = len(OPTIONS), len(build_values())
    seqs: List[List[List[int]]] = [[[o, v]] for o in range(no) for v in range(nv)]            # references
    vpairs = list(itertools.product(range(nv), repeat=2)) if tier != "quick" else \
        [(v, v) for v in range(nv)] + [(a, b) for a, b in itertools.permutations(range(4), 2)]
    for o1, o2 in itertools.product(range(no), repeat=2):                                      # every ordered pair of option sets
        for v1, v2 in vpairs:                                                                  # on the same and on different values
            seqs.append([[o1, v1], [o2, v2]])
    patterns = [(0, 0, 0), (1, 0, 1)] if tier == "quick" else \
        [(a, b, a) for a in range(3) for b in range(3)] + [(0, 1, 2), (3, 4, 5), (4, 0, 4), (0, 3, 0)]
    for o1, o2, o3 in itertools.product(range(no), repeat=3):                                  # every ordered triple
        if tier == "quick" and not (o3 == o1 or o2 == o1):
            continue            # quick: the triples a,b,a and a,a,b (every a, b); thorough: all
        for (v1, v2, v3) in patterns:
            seqs.append([[o1, v1], [o2, v2], [o3, v3]])
    return seqs


def model_sequences(tier: str) -> List[List[List[int]]]:
    nk, nm = len(MODEL_KW), 3
    calls = [[k, m] for k in range(nk) for m in range(nm)]
    seqs: List[List[List[int]]] = [[c] for c in calls]
    for a, b in itertools.product(calls, repeat=2):
        seqs.append([a, b])
    for a, b, c in itertools.product(calls, repeat=3):
        if tier == "quick" and not (a == c or a == b):
            continue            # quick: the triples a,b,a and a,a,b; thorough: all
        seqs.append([a, b, c])
    return seqs


def describe(kind: str, seq: List[List[int]]) -> str:
    if kind == "dumps":
        names = [n for n, _ in build_values()]
        return " ; ".join(f"dumps({names[v]}, {OPTIONS[o][0]})" for o, v in seq)
    return " ; ".join(f"{('request', 'ListToolsResult', 'TextContent')[m]}.model_dump_json{MODEL_KW[k][0]}" for k, m in seq)


def judge(kind: str, config: str, seqs: List[List[List[int]]], answers: List[Any]) -> Tuple[List[Tuple[int, dict, str]], Dict[str, int]]:
    """-> ([(sequence index, sig, message)], counters)"""
    pretty = PRETTY if kind == "dumps" else MODEL_PRETTY
    table = OPTIONS if kind == "dumps" else MODEL_KW
    ref: Dict[Tuple[int, int], Dict[str, Any]] = {}
    for s, a in zip(seqs, answers):
        if len(s) == 1 and isinstance(a, list):
            ref[(s[0][0], s[0][1])] = a[0]
    viol: List[Tuple[int, dict, str]] = []
    counters = {"sequences": 0, "calls_compared_with_fresh_process": 0, "reference_calls": len(ref)}
    for si, (s, a) in enumerate(zip(seqs, answers)):
        if isinstance(a, dict) and "harness_exc" in a:
            raise RuntimeError(a["harness_exc"])
        counters["sequences"] += 1
        for pos, ((o, v), r) in enumerate(zip(s, a)):
            if o not in pretty and r.get("nl"):
                viol.append((si, {"class": "raw-line-break-after-earlier-calls" if pos else "raw-line-break", "config": config,
                                  "layer": kind, "call": table[o][0]},
                             f"under {config}, call {pos + 1} of [{describe(kind, s)}] asks for a compact encoding and returned "
                             f"text with a raw line break"))
            if len(s) == 1:
                continue
            counters["calls_compared_with_fresh_process"] += 1
            want = ref[(o, v)]
            if {k: r.get(k) for k in ("h", "len", "exc")} != {k: want.get(k) for k in ("h", "len", "exc")}:
                viol.append((si, {"class": "encoding-depends-on-earlier-calls", "config": config, "layer": kind, "call": table[o][0]},
                             f"under {config}, call {pos + 1} of [{describe(kind, s)}] returns {r.get('len', r.get('exc'))} bytes"
                             f"{' with line breaks' if r.get('nl') else ''}; the same call made first in a fresh process returns "
                             f"{want.get('len', want.get('exc'))} bytes{' with line breaks' if want.get('nl') else ''}"))
                break               # later calls of the sequence are already inside a changed process
    counters["_refs"] = ref  # type: ignore[assignment]
    return viol, counters
