"""Bounded-exhaustive deterministic generators (E-INPUT).  No randomness."""
from __future__ import annotations

import itertools
from typing import Any, Iterator, List, Sequence

SCALARS_CORE: List[Any] = [
    None, True, False, 0, -1, 1, 2**53 + 1, 2**63 - 1, 2**63, 2**64 - 1, -(2**63),
    0.0, -0.0, 1e308, 5e-324, 0.1,
    "", "a", "line\nbreak", "cr\rlf", "tab\t", "nul\x00", "q\"b\\", "\x7f", "\u0085", "\u00e9",
    "\u2028", "\u2029", "\ufffd", "\uffff", "\U0001F600",
]
SCALARS_SMALL: List[Any] = [None, True, 0, 2**63, -0.0, 0.1, "", "a\n\u2028\U0001F600", "\u00e9"]
KEYS = ["k", "", "\u00e9", "a b"]


def json_values(depth: int, scalars: Sequence[Any] = SCALARS_CORE, inner: Sequence[Any] = SCALARS_SMALL,
                keys: Sequence[str] = KEYS) -> Iterator[Any]:
    """All JSON values up to the given nesting depth: scalars; containers with
    <=2 children drawn from the next level down (a smaller scalar set below the
    top level keeps the enumeration finite and dense in shapes)."""
    yield from scalars
    if depth <= 0:
        return
    children = list(json_values(depth - 1, inner, inner, keys)) if depth > 1 else list(inner)
    yield []
    yield {}
    for c in children:
        yield [c]
    for a, b in itertools.product(children[: max(4, len(children) // 3)], repeat=2):
        yield [a, b]
    for k in keys:
        for c in children:
            yield {k: c}
    for c1, c2 in itertools.product(children[:6], repeat=2):
        yield {keys[0]: c1, keys[2]: c2}


def json_objects(depth: int, **kw) -> Iterator[dict]:
    for v in json_values(depth, **kw):
        if isinstance(v, dict):
            yield v


IDS: List[Any] = [0, 1, -1, 2**31, 2**53 + 1, 2**63, 2**64 - 1, "", "0", "1", "123", "-5", "007", "a",
                  "9e3779b1-9e37-79b1-9e37-79b19e3779b1", "x" * 200, "é"]


def cuts(n: int, k: int) -> Iterator[List[int]]:
    """Every way to cut a byte string of length n into <= k chunks (cut positions)."""
    for r in range(0, k):
        for cs in itertools.combinations(range(1, n), r):
            yield list(cs)
