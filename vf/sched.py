"""Helpers shared by the E-SCHED checks: anchor-relative time menu, deterministic
stubs, and turning explorer statistics into a Result."""
from __future__ import annotations

import itertools
import json
import uuid as _uuid
from typing import Any, Callable, Dict, List, Optional, Sequence, Tuple

from . import core, explorer
from .vloop import EPS, VLoop


# ---------------------------------------------------------------------------
# time menu
# ---------------------------------------------------------------------------
def time_menu(loop: VLoop, deadline: Optional[float] = None, rich: bool = True) -> List[Tuple[str, float, int]]:
    """Placements for the next environment action, relative to *now* and to the
    library's own timers as they stand at this idle point.

    Returns [(label, absolute_time, tie_rank)].  Entry 0 is "immediately".
    """
    now = loop.time()
    menu: List[Tuple[str, float, int]] = [("now", now, 0)]
    nt = loop.next_timer()
    seen = {("t", round(now, 9), 0)}

    def add(label, t, rank=0):
        if t < now:
            return
        key = ("t", round(t, 9), rank)
        if key in seen:
            return
        seen.add(key)
        menu.append((label, t, rank))

    add("now+eps", now + EPS)
    if nt is not None and nt > now:
        if rich:
            add("half", now + (nt - now) / 2)
        add("timer-eps", nt - EPS)
        add("timer-tie-before", nt, -1)
        add("timer-tie-after", nt, +1)
        add("timer+eps", nt + EPS)
    elif nt is None:
        add("now+0.1", now + 0.1)
    if deadline is not None and deadline > now and (nt is None or abs(deadline - nt) > 1e-9):
        add("deadline-eps", deadline - EPS)
        add("deadline-tie-before", deadline, -1)
        add("deadline-tie-after", deadline, +1)
        if rich:
            add("deadline+eps", deadline + EPS)
    return menu


# ---------------------------------------------------------------------------
# deterministic uuid
# ---------------------------------------------------------------------------
class UuidStub:
    """uuid.uuid4 replacement: reproducible, and consecutive values differ in every
    hex-digit position class (so prefix/suffix truncation collides visibly less
    than equality would - truncated ids from different calls still differ only
    if the kept part differs, which it does for full values and does NOT for a
    constant)."""

    def __init__(self):
        self.n = 0
        self.issued: List[str] = []

    def __call__(self):
        self.n += 1
        # value: digit d repeated, with a counter mixed in at both ends
        h = "%08x" % (0x9E3779B1 * self.n & 0xFFFFFFFF)
        body = (h * 4)[:32]
        u = _uuid.UUID(body)
        self.issued.append(str(u))
        return u


class patched_uuid:
    def __init__(self):
        self.stub = UuidStub()

    def __enter__(self):
        self._orig = _uuid.uuid4
        _uuid.uuid4 = self.stub
        return self.stub

    def __exit__(self, *a):
        _uuid.uuid4 = self._orig
        return False


# ---------------------------------------------------------------------------
# result assembly
# ---------------------------------------------------------------------------
def jsonable(x: Any) -> Any:
    try:
        json.dumps(x)
        return x
    except TypeError:
        return json.loads(json.dumps(x, default=repr))


def absorb(res: core.Result, part: str, run_ref: str, out: Dict[str, Any], configs: Sequence[Any],
           init_ref: Optional[str] = None, min_outcomes: int = 2, real_world: bool = False) -> None:
    """Fold one exploration into the Result: counters, audit, violations (each
    re-executed twice before it is reported), vacuity guard."""
    st: explorer.Stats = out["stats"]
    for e in out["errors"]:
        res.harness_errors.append(f"[{part}] {e[:600]}")
    # (parts that run against the real OS are not reproducible by construction: no conclusion is drawn there)
    for od in ([] if real_world else (out.get("order_dependent") or [])):
        cfg = configs[od["cfg_index"]]
        res.add_violation(
            {"class": "behaviour-depends-on-earlier-calls-in-the-process"},
            f"[{part}] the same execution gives {od['alone']['obs'].get('outcome')!r} when it runs alone in a fresh process (twice) "
            f"but a different observation inside a long-lived process that ran other executions before: the library carries state "
            f"between calls; cfg={cfg} choices={od['choices']}",
            {"ref": "vf.sched:replay", "args": {"run_ref": run_ref, "init_ref": init_ref, "cfg": jsonable(cfg), "choices": od["choices"]}},
        )
    if out["replay_mismatches"] and not real_world:
        res.harness_errors.append(
            f"[{part}] nondeterminism: {out['replay_mismatches']} of {out['replayed']} audited executions "
            f"gave a different observation when re-run: {out['mismatch_examples'][:1]}"
        )
    if out.get("fidelity_mismatch_tiefree"):
        res.harness_errors.append(
            f"[{part}] virtual loop disagrees with asyncio's own scheduling step on tie-free executions: "
            f"{out['fidelity_mismatch_tiefree'][:1]}"
        )
    if not out["errors"] and len(st.outcomes) < min_outcomes:
        res.harness_errors.append(f"[{part}] vacuous exploration: outcomes={dict(st.outcomes)}")

    # confirm violations
    confirmed = 0
    unconfirmed = 0
    for v in st.violations:
        cfg = configs[v["cfg_index"]]
        ok = True
        for _ in range(2):
            try:
                ctl, obs = explorer.replay_one(run_ref, cfg, v["choices"], init_ref)
            except Exception as e:  # noqa: BLE001
                ok = False
                res.harness_errors.append(f"[{part}] violation replay raised: {e!r}")
                break
            if explorer.digest_of(obs) != v["digest"]:
                ok = False
                if real_world:
                    # executions against the real OS are not reproducible by construction: a violation
                    # counts only if it shows up again in both confirmation runs
                    unconfirmed += 1
                    break
                res.harness_errors.append(
                    f"[{part}] violation did not reproduce: cfg={cfg} choices={v['choices']}"
                )
                break
        if not ok:
            continue
        confirmed += 1
        for viol in v["obs"].get("violations", []):
            res.add_violation(
                viol.get("sig") or {},
                viol.get("msg", ""),
                {"ref": "vf.sched:replay", "args": {"run_ref": run_ref, "init_ref": init_ref,
                                                     "cfg": jsonable(cfg), "choices": v["choices"]}},
            )
    # violations beyond the stored cap are still counted
    res.violation_total += max(0, st.violation_count - len(st.violations))

    p = {
        "executions": st.executions,
        "decision_nodes": st.nodes,
        "choices_taken": st.transitions,
        "max_choice_depth": st.max_depth,
        "distinct_observations": len(st.digests),
        "outcomes": dict(st.outcomes),
        "configs": out["configs"],
        "deviation_bound": out["bound"],
        "pruned_by_bound": st.bound_pruned,
        "audit_replayed": out["replayed"],
        "audit_mismatches": out["replay_mismatches"],
        "violating_executions": st.violation_count,
        "violation_signatures": dict(st.violation_sigs),
        "wall_s": round(out["wall_s"], 2),
        "counters": dict(st.extra),
        "unconfirmed_violations_dropped": unconfirmed,
        "stock_loop_audit": {"checked": out.get("fidelity_checked", 0), "tie_free": out.get("fidelity_tiefree", 0),
                             "tie_free_mismatches": len(out.get("fidelity_mismatch_tiefree") or []),
                             "mismatches_with_ties": out.get("fidelity_mismatch_with_ties", 0)},
    }
    res.parts[part] = p
    cov = res.coverage
    cov["evaluations"] = cov.get("evaluations", 0) + st.executions
    cov["states"] = cov.get("states", 0) + st.nodes + out["configs"]
    # one root->configuration edge per configuration plus one edge per choice taken
    cov["transitions"] = cov.get("transitions", 0) + st.transitions + out["configs"]
    cov["traces_validated_against_impl"] = cov.get("traces_validated_against_impl", 0) + st.executions
    cov["distinct_nontrivial"] = cov.get("distinct_nontrivial", 0) + len(st.digests)
    cov.setdefault("samples", [])
    for s in st.samples[:2]:
        cov["samples"].append({"part": part, **jsonable({k: v for k, v in s.items() if k != "_k"})})
    cov.setdefault("parts", {})[part] = p
    cov["audit_replayed"] = cov.get("audit_replayed", 0) + out["replayed"]
    cov["audit_mismatches"] = cov.get("audit_mismatches", 0) + out["replay_mismatches"]
    cov["stock_loop_audit_tie_free"] = cov.get("stock_loop_audit_tie_free", 0) + out.get("fidelity_tiefree", 0)


def with_debug_logging(cfgs: Sequence[Any], every: int = 1, limit: int = 4000) -> List[Any]:
    """A deterministic subset of the configurations, to be run again with logging enabled at DEBUG."""
    out = [dict(c, _log="debug") for c in list(cfgs)[::max(1, every)] if isinstance(c, dict)]
    return out[:limit]


def debug_pass(res: core.Result, part: str, run_ref: str, cfgs: Sequence[Any], every: int = 1, limit: int = 4000, **kw) -> None:
    """Re-run a deterministic subset of the configurations with the library's logging enabled at DEBUG."""
    dbg = with_debug_logging(cfgs, every, limit)
    if not dbg:
        return
    out = explorer.explore(run_ref, dbg, **kw)
    absorb(res, part + "+debug-logging", run_ref, out, dbg, min_outcomes=1)


def replay(args: Dict[str, Any]) -> Dict[str, Any]:
    ctl, obs = explorer.replay_one(args["run_ref"], args["cfg"], args["choices"], args.get("init_ref"))
    obs = dict(obs)
    obs["_trace"] = [[n, label, c] for (n, label, c, k) in ctl.trace]
    return obs
