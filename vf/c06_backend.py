"""C06 in the four backend configurations, after a pretty-printing call.

The configuration (validation layer: Pydantic / MCP_FORCE_FALLBACK=1; JSON codec:
orjson importable / masked) is fixed when chuk_mcp is imported, so every case
runs in a fresh interpreter started by vf.workers.  The sequence given to one
interpreter is: a pre-step (nothing, or one pretty-printing call an application
may make for its own log), then a few ordinary C06 write-stream executions
(vf.checks.c06.run_one on the virtual loop, same oracle: one compact line per
message, in order, content preserved).

This module is the worker-side handler as well, so it must not import chuk_mcp
at module level.
"""
from __future__ import annotations

import json
from typing import Any, Dict, List

HANDLER = "vf.c06_backend:handle"
PART = "backend-configurations-after-pretty-printing"

CONFIGS = [
    {"name": "orjson+pydantic", "mask": [], "env_unset": ["MCP_FORCE_FALLBACK"]},
    {"name": "orjson+fallback", "mask": [], "env_set": {"MCP_FORCE_FALLBACK": "1"}},
    {"name": "stdlib+pydantic", "mask": ["orjson"], "env_unset": ["MCP_FORCE_FALLBACK"]},
    {"name": "stdlib+fallback", "mask": ["orjson"], "env_set": {"MCP_FORCE_FALLBACK": "1"}},
]
WANT = {"orjson+pydantic": (True, True), "orjson+fallback": (True, False),
        "stdlib+pydantic": (False, True), "stdlib+fallback": (False, False)}
PRE_STEPS = ["none", "model_dump_json(indent=2)", "fast_json.dumps(indent=2)",
             "model_dump_json(indent=2)+fast_json.dumps(indent=2)"]


def run_cases(tier: str) -> List[Dict[str, Any]]:
    """Indices into c06._items(): typed request/notification/response/error, unified, dicts, strings."""
    from .checks import c06

    names = [t[0] for t in c06._items()]
    ix = {n: i for i, n in enumerate(names)}
    cases = [
        {"seq": [ix["typed-request"], ix["dict-request"], ix["typed-notification"], ix["str-json-dumps"],
                 ix["typed-response"]], "mode": "burst"},
        {"seq": [ix["typed-error"], ix["unified-request"], ix["dict-response"], ix["str-fast-json"]], "mode": "step"},
        {"seq": [ix["typed-request-noparams"]], "mode": "burst"},
    ]
    if tier == "thorough":
        cases += [{"seq": [i], "mode": "burst"} for i, t in enumerate(c06._items()) if t[2] is not None]
    return cases


# ---------------------------------------------------------------------------
# worker side
# ---------------------------------------------------------------------------
def child_hello() -> Dict[str, Any]:
    from chuk_mcp.protocol import fast_json, mcp_pydantic_base

    return {"orjson": bool(fast_json.HAS_ORJSON), "pydantic": bool(mcp_pydantic_base.PYDANTIC_AVAILABLE)}


def handle(case: Dict[str, Any]) -> Dict[str, Any]:
    if "pre" in case:
        from chuk_mcp.protocol import fast_json
        from chuk_mcp.protocol.messages.json_rpc_message import JSONRPCRequest

        name = case["pre"]
        out: Dict[str, Any] = {"pre": name}
        if "model_dump_json" in name:
            req = JSONRPCRequest(id=1, method="tools/call", params={"name": "echo", "arguments": {"t": "x"}})
            text = req.model_dump_json(indent=2)
            out["model_pretty_is_multiline"] = "\n" in (text.decode() if isinstance(text, (bytes, bytearray)) else text)
        if "fast_json" in name:
            text = fast_json.dumps({"a": {"b": [1, 2]}}, indent=2)
            out["codec_pretty_is_multiline"] = "\n" in (text.decode() if isinstance(text, (bytes, bytearray)) else text)
        return out
    from . import explorer
    from .checks import c06

    obs = c06.run_one(explorer.Ctl(), case["run"])
    return {k: obs.get(k) for k in ("status", "items", "mode", "outcome", "nbytes", "violations")}


# ---------------------------------------------------------------------------
# parent side
# ---------------------------------------------------------------------------
def _sequence(pre: str, cases: List[Dict[str, Any]]) -> List[Dict[str, Any]]:
    return [{"pre": pre}] + [{"run": c} for c in cases]


def replay(args: Dict[str, Any]) -> Dict[str, Any]:
    """One fresh interpreter of the named configuration, the same pre-step and run cases; returns the judged run."""
    from . import workers

    cfg = next(c for c in CONFIGS if c["name"] == args["config"])
    ans = workers.fresh_sequence(cfg, HANDLER, _sequence(args["pre"], args["cases"]))
    obs = dict(ans[1 + args["index"]])
    obs["pre_step"] = ans[0]
    return obs


def add_part(res, tier: str) -> None:
    import time

    from . import core, explorer, workers

    t0 = time.time()
    cases = run_cases(tier)
    per_cfg = max(1, workers.n_total_workers() // len(CONFIGS))
    outcomes: Dict[str, int] = {}
    digests = set()
    sigs: Dict[str, int] = {}
    n_exec = 0
    violating = 0
    samples = []
    for cfg in CONFIGS:
        seqs = [_sequence(pre, cases) for pre in PRE_STEPS]
        answers = workers.fresh_sequences(cfg, HANDLER, seqs, parallel=min(per_cfg, len(seqs)))
        for pre, ans in zip(PRE_STEPS, answers):
            pre_obs = ans[0]
            if not isinstance(pre_obs, dict) or "harness_exc" in pre_obs:
                res.harness_errors.append(f"[{PART}] pre-step {pre!r} failed in {cfg['name']}: {str(pre_obs)[-400:]}")
                continue
            for idx, obs in enumerate(ans[1:]):
                if not isinstance(obs, dict) or "harness_exc" in obs:
                    res.harness_errors.append(f"[{PART}] {cfg['name']} pre={pre!r} case {idx}: {str(obs)[-400:]}")
                    continue
                n_exec += 1
                key = f"{cfg['name']} | {obs.get('outcome')}"
                outcomes[key] = outcomes.get(key, 0) + 1
                digests.add(explorer.digest_of([cfg["name"], pre, cases[idx], obs]))
                if len(samples) < 2:
                    samples.append({"part": PART, "config": cfg["name"], "pre_step": pre, "cfg": cases[idx],
                                    "outcome": obs.get("outcome")})
                vs = obs.get("violations") or []
                if vs:
                    violating += 1
                for v in vs:
                    sig = dict(v.get("sig") or {})
                    sig["backend"] = cfg["name"]
                    sig["after"] = pre
                    k = json.dumps(sig, sort_keys=True)
                    sigs[k] = sigs.get(k, 0) + 1
                    res.add_violation(sig, f"[{cfg['name']}, after {pre}] {v.get('msg', '')}",
                                      {"ref": "vf.c06_backend:replay",
                                       "args": {"config": cfg["name"], "pre": pre, "cases": cases, "index": idx}})
        # the configuration really is what its name says
        facts = _hello_of(cfg)
        want = WANT[cfg["name"]]
        if facts is None or (facts.get("orjson"), facts.get("pydantic")) != want:
            res.harness_errors.append(f"[{PART}] configuration {cfg['name']} reports {facts}, expected orjson/pydantic = {want}")
    if len(outcomes) < 2 and not res.harness_errors:
        res.harness_errors.append(f"[{PART}] vacuous: outcomes={outcomes}")
    p = {"executions": n_exec, "fresh_interpreters": len(CONFIGS) * len(PRE_STEPS), "configurations": [c["name"] for c in CONFIGS],
         "pre_steps": PRE_STEPS, "run_cases": cases, "outcomes": outcomes, "distinct_observations": len(digests),
         "violating_executions": violating, "violation_signatures": sigs, "wall_s": round(time.time() - t0, 2)}
    res.parts[PART] = p
    cov = res.coverage
    cov["evaluations"] = cov.get("evaluations", 0) + n_exec
    cov["states"] = cov.get("states", 0) + n_exec
    cov["transitions"] = cov.get("transitions", 0) + n_exec
    cov["traces_validated_against_impl"] = cov.get("traces_validated_against_impl", 0) + n_exec
    cov["distinct_nontrivial"] = cov.get("distinct_nontrivial", 0) + len(digests)
    cov.setdefault("samples", []).extend(samples)
    cov.setdefault("parts", {})[PART] = p


def _hello_of(cfg) -> Any:
    from . import workers

    try:
        w = workers.Worker(cfg, HANDLER)
    except Exception:  # noqa: BLE001
        return None
    try:
        return w.hello
    finally:
        w.close()
