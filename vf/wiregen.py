"""Type-directed generator of valid wire objects for chuk_mcp model classes.

Everything is derived from the classes themselves: the set of classes by walking
the package, the members from ``typing.get_type_hints`` and the declared field
information (alias, default) of whichever validation backend is loaded.  No
randomness; the enumeration is a pure function of the class definitions.
"""
from __future__ import annotations

import importlib
import inspect
import itertools
import pkgutil
import typing
from typing import Any, Dict, Iterator, List, Optional, Tuple, Union

MISSING = object()


class GenError(Exception):
    """The generator met a declaration it has no rule for (names the class/field)."""


# ---------------------------------------------------------------------------
# discovery
# ---------------------------------------------------------------------------
def base_class():
    from chuk_mcp.protocol.mcp_pydantic_base import McpPydanticBase

    return McpPydanticBase


def discover() -> Tuple[List[type], List[str]]:
    """Import every module under chuk_mcp and collect all McpPydanticBase
    subclasses.  Returns (classes sorted by qualified name, import problems)."""
    import chuk_mcp

    problems: List[str] = []
    for m in pkgutil.walk_packages(chuk_mcp.__path__, "chuk_mcp."):
        if m.name.endswith("__main__"):
            continue
        try:
            importlib.import_module(m.name)
        except BaseException as e:  # noqa: BLE001
            problems.append(f"{m.name}: {type(e).__name__}: {e}")
    found: Dict[str, type] = {}

    def walk(c):
        for s in c.__subclasses__():
            if s.__module__.startswith("chuk_mcp."):
                found[qual(s)] = s
            walk(s)

    walk(base_class())
    return [found[k] for k in sorted(found)], problems


def qual(cls: type) -> str:
    return f"{cls.__module__}:{cls.__qualname__}"


def short(cls_or_qual) -> str:
    q = cls_or_qual if isinstance(cls_or_qual, str) else qual(cls_or_qual)
    mod, _, name = q.partition(":")
    parts = mod.split(".")
    # enough of the module path to tell the homonyms apart (two Tool, ToolResult, ToolInputSchema)
    return f"{'.'.join(parts[2:]) if len(parts) > 2 else mod}.{name}"


def resolve(q: str) -> type:
    mod, _, name = q.partition(":")
    obj: Any = importlib.import_module(mod)
    for part in name.split("."):
        obj = getattr(obj, part)
    return obj


def is_model(tp: Any) -> bool:
    return inspect.isclass(tp) and issubclass(tp, base_class()) and tp is not base_class()


def is_config_class(cls: type) -> bool:
    """Transport parameter objects: local configuration, never on the wire."""
    return cls.__module__.startswith("chuk_mcp.transports.")


# ---------------------------------------------------------------------------
# backend-agnostic field information
# ---------------------------------------------------------------------------
class FieldSpec:
    __slots__ = ("name", "wire", "annotation", "required", "default")

    def __init__(self, name, wire, annotation, required, default):
        self.name = name
        self.wire = wire
        self.annotation = annotation
        self.required = required
        self.default = default          # MISSING when there is none

    def __repr__(self):
        return f"FieldSpec({self.name!r}, wire={self.wire!r}, required={self.required})"


_FIELDS_CACHE: Dict[type, List[FieldSpec]] = {}


def fields(cls: type) -> List[FieldSpec]:
    if cls in _FIELDS_CACHE:
        return _FIELDS_CACHE[cls]
    try:
        hints = typing.get_type_hints(cls)
    except Exception as e:  # noqa: BLE001
        raise GenError(f"{qual(cls)}: get_type_hints failed: {e!r}")
    out: List[FieldSpec] = []
    if hasattr(cls, "model_fields") and not hasattr(cls, "__model_fields__"):      # Pydantic v2
        for name, fi in cls.model_fields.items():
            if fi.default_factory is not None:
                default = fi.default_factory()
            elif fi.is_required():
                default = MISSING
            else:
                default = fi.default
            out.append(FieldSpec(name, fi.alias or name, hints.get(name, fi.annotation), fi.is_required(), default))
    else:                                                                           # fallback backend
        for name, f in cls.__model_fields__.items():
            if name == "model_config" or typing.get_origin(hints.get(name)) is typing.ClassVar:
                continue
            if f.default_factory is not None:
                default = f.default_factory()
            elif f.default is not ...:
                default = f.default
            else:
                default = MISSING
            out.append(FieldSpec(name, f.alias or name, hints.get(name, Any), bool(f.required), default))
    _FIELDS_CACHE[cls] = out
    return out


def wire_names(cls: type) -> Dict[str, str]:
    """wire name -> attribute name for the aliased fields."""
    return {f.wire: f.name for f in fields(cls) if f.wire != f.name}


# ---------------------------------------------------------------------------
# per-type samples (first element = baseline)
# ---------------------------------------------------------------------------
ANY_SAMPLES = [{"k": [1, "\u00e9"], "n": {"b": True}}, "s", 7, [True, 1.5], {}]
STR_SAMPLES = ["a", "123", "", "\u00e9\n\u2028\U0001F600", "true",
               # boundary strings: leading/trailing blank, tab, newline, a lone blank, NUL, a lone line separator
               " a", "a ", "a\n", "\ta", " ", "a\x00b", "\u2028", "\r\n a \r\n"]
STR_BY_WIRE_NAME = {
    # members whose documented format matters to a declared validator / invariant
    "uri": ["file:///r/%C3%A9", "file:///", "file:///r/x ", "file:///r/\u2028x\n", "file:///r/a\x00b"],
    "url": ["http://example.test/mcp", "https://h:8443/x/", "http://example.test/a ", "http://example.test/\ta\n"],
}
OBJ_BY_WIRE_NAME = {
    # JSONRPCError.error is declared Dict[str, Any] with the documented shape {code: int, message: str, data?: any}
    "error": [{"code": -32601, "message": "m"}, {"code": 1, "message": "\u00e9", "data": {"k": [1, "s"]}},
              {"code": -32000, "message": "", "x-extra": True}],
}
# integers outside [-2^63, 2^64-1] are legal JSON numbers that the optional fast codec refuses (it must hand over to the
# standard library), so they belong to every integer position and into the free-form values
BIG_INTS = [2 ** 64, -(2 ** 63) - 1, 10 ** 30]
INT_SAMPLES = [1, 0, -1, 2 ** 53 + 1] + BIG_INTS
FLOAT_SAMPLES = [0.5, 1, 0.0, 1e-3]
BOOL_SAMPLES = [True, False]
OBJ_SAMPLES = [
    {"k": "v"},
    {},
    {"type": "object", "properties": {"a": {"type": "string"}}, "n": [1, 2.5, True], "_meta": {"x": 1}, "\u00e9": "\u00e9"},
]
OBJ_SAMPLES.append({"big": list(BIG_INTS), "n": {"deep": [BIG_INTS[0]]}})
# explicit nulls inside a free-form value, at depth 1-3 (a tool argument threshold: null is data, not an absent member)
OBJ_SAMPLES.append({"threshold": None, "nested": {"n": None, "deep": {"z": None, "l": [None, {"q": None}]}}, "kept": 0})
MAX_MODEL_SAMPLES = 8
_ALIAS_PROBE: Dict[str, Any] = {}


def alias_named_keys() -> Dict[str, Any]:
    """A free-form object whose keys, at depth 1-3, are spelled like the wire names AND like the Python attribute
    names of every aliased member of every discovered class (meta, _meta, schema_, schema, ...)."""
    if not _ALIAS_PROBE:
        names: List[str] = []
        for c in discover()[0]:
            for f in fields(c):
                if f.wire != f.name:
                    for n in (f.name, f.wire):
                        if n not in names:
                            names.append(n)
        level3 = {n: i for i, n in enumerate(names)}
        level2 = {n: ({**level3, "leaf": n} if i % 2 == 0 else [dict(level3)]) for i, n in enumerate(names)}
        _ALIAS_PROBE.update({n: (level2 if i == 0 else {"inner": level2} if i == 1 else i) for i, n in enumerate(names)})
        _ALIAS_PROBE["plain"] = dict(level2)
    import copy

    return copy.deepcopy(_ALIAS_PROBE)



def _strip_optional(tp: Any) -> Tuple[Any, bool]:
    if typing.get_origin(tp) is Union:
        args = [a for a in typing.get_args(tp) if a is not type(None)]
        if len(args) < len(typing.get_args(tp)):
            inner = args[0] if len(args) == 1 else Union[tuple(args)]
            return inner, True
    return tp, False


def look_alikes(values: List[str]) -> List[str]:
    """Strings that resemble documented values without being them: snake_case, kebab-case, upper-case, lower-case and
    blank-padded variants."""
    import re

    out: List[str] = []
    for v in values:
        words = re.sub(r"([a-z0-9])([A-Z])", r"\1 \2", v).replace("_", " ").replace("-", " ").replace("/", " / ").split()
        low = [w.lower() for w in words]
        cands = ["_".join(low), "-".join(low), "_".join(low).upper(), v.upper(), v.lower(), v.capitalize(), " " + v, v + " ",
                 " " + v + " ", v + "\n"]
        for c in cands:
            if c != v and c not in values and c not in out:
                out.append(c)
    return out


_LITERALS: List[str] = []


def package_literals() -> List[str]:
    """Every string that some Literal annotation of a discovered class documents."""
    if not _LITERALS:
        seen: List[str] = []

        def walk(tp):
            if typing.get_origin(tp) is typing.Literal:
                for a in typing.get_args(tp):
                    if isinstance(a, str) and a not in seen:
                        seen.append(a)
            for a in typing.get_args(tp) or ():
                if a is not tp and not isinstance(a, (str, int, bool, type(None))):
                    walk(a)

        for c in discover()[0]:
            for f in fields(c):
                walk(f.annotation)
        _LITERALS.extend(seen)
    return _LITERALS


def global_look_alikes() -> List[str]:
    """A compact set for plain string members: the variants of the multi-word documented values of the whole package."""
    multi = [v for v in package_literals() if any(ch.isupper() for ch in v[1:]) or "_" in v or "-" in v]
    out = []
    for x in look_alikes(multi):
        if ("_" in x or "-" in x) and x == x.lower() and not x.startswith(" ") and not x.endswith((" ", "\n")):
            out.append(x)
    return out[:10]


def samples(tp: Any, depth: int, where: str, wire_name: Optional[str] = None) -> List[Any]:
    tp, _ = _strip_optional(tp)
    if tp is Any or tp is object:
        return list(ANY_SAMPLES) + [alias_named_keys(), BIG_INTS[0]]
    if tp is str:
        if wire_name in STR_BY_WIRE_NAME:
            return list(STR_BY_WIRE_NAME[wire_name])
        return list(STR_SAMPLES) + global_look_alikes()
    if tp is bool:
        return list(BOOL_SAMPLES)
    if tp is int:
        return list(INT_SAMPLES)
    if tp is float:
        return list(FLOAT_SAMPLES)
    if tp is dict:
        return [dict(x) for x in OBJ_SAMPLES] + [alias_named_keys()]
    origin = typing.get_origin(tp)
    args = typing.get_args(tp)
    if origin is typing.Literal:
        return list(args)
    if origin is Union:
        # round robin over the arms: the first sample of every arm comes first
        per_arm = []
        for arm in args:
            arm_samples = samples(arm, depth, where, wire_name)
            per_arm.append(arm_samples[:4] if not is_model(arm) else arm_samples)
        out: List[Any] = []
        for i in range(max(len(a) for a in per_arm)):
            for a in per_arm:
                if i < len(a):
                    out.append(a[i])
        # an open string member with documented values: strings that look like those values but are not them
        lits = [v for arm in args if typing.get_origin(arm) is typing.Literal for v in typing.get_args(arm) if isinstance(v, str)]
        if lits and str in args:
            out.extend(look_alikes(lits))
        return _dedupe(out)
    if origin in (list, List):
        elems = samples(args[0] if args else Any, depth, where, wire_name)
        out = [[elems[0]], [], list(elems[:6])] + [[e] for e in elems[1:12]]
        return _dedupe(out)
    if origin in (dict, Dict):
        vt = args[1] if len(args) > 1 else Any
        if vt is Any:
            base_ = [dict(x) for x in OBJ_BY_WIRE_NAME.get(wire_name or "", OBJ_SAMPLES)]
            probe = alias_named_keys()
            if wire_name in OBJ_BY_WIRE_NAME:
                probe = {**base_[0], "data": probe}          # keep the documented shape, put the probe inside it
            return base_ + [probe]
        vs = samples(vt, depth, where, None)
        return _dedupe([{"K": vs[0]}, {}] + ([{"K": vs[0], "k2": vs[1]}] if len(vs) > 1 else []) +
                       ([{"K": vs[-1]}] if len(vs) > 2 else []))
    if is_model(tp):
        return model_samples(tp, depth)
    raise GenError(f"{where}: no generation rule for annotation {tp!r}")


def _dedupe(vals: List[Any]) -> List[Any]:
    from .workers import canon

    seen, out = set(), []
    for v in vals:
        k = canon(v)
        if k not in seen:
            seen.add(k)
            out.append(v)
    return out


def baseline(f: FieldSpec, cls: type, depth: int) -> Any:
    return samples(f.annotation, depth, f"{qual(cls)}.{f.name}", f.wire)[0]


def wire_required(f: FieldSpec) -> bool:
    """Required on the wire: no default, or a Literal constant/discriminator
    (the classes give those a default for constructor convenience; the MCP and
    JSON-RPC schemas require them in every object)."""
    if f.required:
        return True
    return typing.get_origin(f.annotation) is typing.Literal


def minimal(cls: type, depth: int) -> Dict[str, Any]:
    if depth < -4:
        raise GenError(f"{qual(cls)}: required members nest deeper than the generator follows (recursive model?)")
    return {f.wire: baseline(f, cls, depth - 1) for f in fields(cls) if wire_required(f)}


def full(cls: type, depth: int) -> Dict[str, Any]:
    if depth <= 0:
        return minimal(cls, depth)
    return {f.wire: baseline(f, cls, depth - 1) for f in fields(cls)}


def model_samples(cls: type, depth: int) -> List[Dict[str, Any]]:
    """Wire objects for a *nested* occurrence of cls."""
    if depth <= 0:
        return [minimal(cls, depth)]
    out = [full(cls, depth), minimal(cls, depth)]
    base = minimal(cls, depth)
    for f in fields(cls):
        tp, _ = _strip_optional(f.annotation)
        if typing.get_origin(tp) in (Union, typing.Literal):
            for v in samples(f.annotation, depth - 1, f"{qual(cls)}.{f.name}", f.wire)[1:]:
                w = dict(base)
                w[f.wire] = v
                out.append(w)
    return _dedupe(out)[:MAX_MODEL_SAMPLES]


# ---------------------------------------------------------------------------
# covering array (strength 2, binary factors)
# ---------------------------------------------------------------------------
def pairwise_rows(n: int) -> List[Tuple[int, ...]]:
    """Deterministic strength-2 covering array over n binary factors: all-absent,
    all-present, and for every bit of the factor index the row of that bit and
    its complement.  Coverage of all 4 combinations of every pair is verified."""
    rows = [tuple([0] * n), tuple([1] * n)]
    bits = max(1, (n - 1).bit_length())
    for b in range(bits):
        r = tuple((j >> b) & 1 for j in range(n))
        rows.append(r)
        rows.append(tuple(1 - x for x in r))
    rows = list(dict.fromkeys(rows))
    for i, j in itertools.combinations(range(n), 2):
        seen = {(r[i], r[j]) for r in rows}
        if len(seen) != 4:
            raise GenError(f"covering array broken for pair {(i, j)} of {n}")
    return rows


# ---------------------------------------------------------------------------
# top-level enumeration
# ---------------------------------------------------------------------------
EXTRA_MEMBERS = [("x-unknown", {"k": [1, "\u00e9"], "n": 1}), ("_meta", {"progressToken": "t-1", "n": 7})]
SUBSET_LIMIT = 6
# a small family of unknown members: names x values, put at the top level and on nested models / list items
UNKNOWN_NAMES = [("plain", "x-extra"), ("underscore-prefix", "_vendorHint"), ("_meta", "_meta"),
                 ("dunder-prefix", "__dunder"), ("empty", ""), ("space", "with space"), ("non-ascii", "\u00e9-\u540d")]
UNKNOWN_VALUES = [("scalar", 7), ("null", None), ("object-with-null", {"k": [1, None], "n": None, "s": "v"})]
UNKNOWN_PROBE_NAMES = ("plain", "_meta")      # unknown members that additionally carry the alias-named-keys object
# member names that collide with Python-level names of the model classes (constructor parameter, methods, dunders)
RESERVED_NAMES = ["self", "cls", "data", "__init__", "model_config", "model_dump"]
UNKNOWN_DEPTH = 2
UNKNOWN_LIST_ITEMS = 2


_SUB = {"type": "string", "minLength": 1}
SCHEMA_KEYWORDS = [
    ("additionalProperties", [("true", True), ("false", False), ("schema", dict(_SUB)), ("empty-schema", {})]),
    ("items", [("schema", dict(_SUB)), ("true", True)]),
    ("additionalItems", [("schema", dict(_SUB)), ("false", False)]),
    ("propertyNames", [("schema", {"pattern": "^[a-z]+$"})]),
    ("patternProperties", [("map-of-schemas", {"^x-": dict(_SUB)})]),
    ("anyOf", [("array-of-schemas", [dict(_SUB), {"type": "null"}])]),
    ("oneOf", [("array-of-schemas", [dict(_SUB), {"type": "integer"}])]),
    ("allOf", [("array-of-schemas", [{"required": ["a"]}])]),
    ("not", [("schema", {"type": "null"})]),
    ("if", [("schema", {"required": ["a"]})]),
    ("then", [("schema", {"required": ["b"]})]),
    ("else", [("schema", {})]),
    ("$defs", [("map-of-schemas", {"s": dict(_SUB)})]),
    ("definitions", [("map-of-schemas", {"s": dict(_SUB)})]),
    ("dependentSchemas", [("map-of-schemas", {"a": {"required": ["b"]}})]),
    ("unevaluatedProperties", [("false", False), ("schema", dict(_SUB))]),
    ("minProperties", [("integer", 1)]),
    ("maxProperties", [("integer", 9)]),
    ("enum", [("array", [{"a": 1}, None, 3])]),
    ("const", [("object", {"a": 1}), ("null-is-a-value", 0)]),
    ("default", [("object", {"a": "x"}), ("false", False)]),
    ("examples", [("array", [{"a": "x"}])]),
    ("title", [("string", "T")]),
    ("description", [("string", "D")]),
    ("$schema", [("string", "https://json-schema.org/draft/2020-12/schema")]),
    ("$id", [("string", "urn:x")]),
    ("$ref", [("string", "#/$defs/s")]),
]       # "type" is not varied: the MCP schema pins the type of a tool input schema to the string "object"


def is_schema_like(declared_names) -> bool:
    return "properties" in declared_names and ("type" in declared_names or "required" in declared_names)


def name_kind(k: str) -> str:
    """Class of a member name, in the vocabulary of UNKNOWN_NAMES / RESERVED_NAMES."""
    if k in RESERVED_NAMES:
        return "reserved:" + k
    if k == "_meta":
        return "_meta"
    if k.startswith("__"):
        return "dunder-prefix"
    if k.startswith("_"):
        return "underscore-prefix"
    if k == "":
        return "empty"
    if any(ord(ch) > 0x7E for ch in k):
        return "non-ascii"
    if " " in k:
        return "space"
    return "plain"


def _model_arms(tp: Any) -> List[type]:
    tp, _ = _strip_optional(tp)
    arms = list(typing.get_args(tp)) if typing.get_origin(tp) is Union else [tp]
    return [a for a in arms if is_model(a)]


def match_arm(arms: List[type], value: Dict[str, Any]) -> type:
    for a in arms:
        ok = True
        for f in fields(a):
            if wire_required(f) and f.wire not in value:
                ok = False
            if typing.get_origin(f.annotation) is typing.Literal and f.wire in value \
                    and value[f.wire] not in typing.get_args(f.annotation):
                ok = False
        if ok:
            return a
    return arms[0]


def model_positions(arms: List[type], value: Any, path: Tuple[Any, ...] = (), depth: int = 0):
    """(path, names declared there) of every position of the wire object that is typed
    as a model (not a free-form dict), down to UNKNOWN_DEPTH."""
    if not isinstance(value, dict) or not arms:
        return
    declared = set()
    for a in arms:
        for f in fields(a):
            declared.add(f.wire)
            declared.add(f.name)
    yield path, declared
    if depth >= UNKNOWN_DEPTH:
        return
    arm = match_arm(arms, value)
    for f in fields(arm):
        if f.wire not in value:
            continue
        tp, _ = _strip_optional(f.annotation)
        v = value[f.wire]
        if typing.get_origin(tp) in (list, List) and typing.get_args(tp):
            sub = _model_arms(typing.get_args(tp)[0])
            if sub and isinstance(v, list):
                for i, item in enumerate(v[:UNKNOWN_LIST_ITEMS]):
                    yield from model_positions(sub, item, path + (f.wire, i), depth + 1)
        else:
            sub = _model_arms(tp)
            if sub:
                yield from model_positions(sub, v, path + (f.wire,), depth + 1)


def with_member(wire: Any, path: Tuple[Any, ...], name: str, val: Any) -> Any:
    import copy

    w = copy.deepcopy(wire)
    node = w
    for p_ in path:
        node = node[p_]
    node[name] = copy.deepcopy(val)
    return w


def wire_objects(cls: type, depth: int = 2, pairs: bool = False) -> List[Tuple[str, Dict[str, Any]]]:
    """[(label, wire object)] for cls; deterministic, de-duplicated.  With
    pairs=True additionally every pair of sample values of every two members."""
    fs = fields(cls)
    where = qual(cls)
    req = [f for f in fs if wire_required(f)]
    opt = [f for f in fs if not wire_required(f)]
    base = {f.wire: baseline(f, cls, depth - 1) for f in fs}
    out: List[Tuple[str, Dict[str, Any]]] = []

    def obj(present_opt) -> Dict[str, Any]:
        keep = {f.wire for f in req} | {f.wire for f in present_opt}
        return {f.wire: base[f.wire] for f in fs if f.wire in keep}      # declaration order

    # 1. presence/absence of the optional members
    if len(opt) <= SUBSET_LIMIT:
        rows = list(itertools.product((0, 1), repeat=len(opt)))
        mode = "subset"
    else:
        rows = pairwise_rows(len(opt))
        mode = "pairwise"
    declared = {f.wire for f in fs} | {f.name for f in fs}
    extras = [(k, v) for (k, v) in EXTRA_MEMBERS if k not in declared]
    for r in rows:
        present = [f for f, bit in zip(opt, r) if bit]
        w = obj(present)
        tag = "".join(str(b) for b in r) or "-"
        out.append((f"{mode}:{tag}", w))
        for k, v in extras[:1]:
            out.append((f"{mode}:{tag}+extra:{k}", {**w, k: v}))
    # 2. the second unknown member (_meta where the class does not declare it) on the two extremes
    for k, v in extras[1:]:
        out.append((f"min+extra:{k}", {**obj([]), k: v}))
        out.append((f"full+extra:{k}", {**obj(opt), k: v}))
    # 3. every sample value of every member, alone and in the full object
    for f in fs:
        vals = samples(f.annotation, depth - 1, f"{where}.{f.name}", f.wire)
        _, optional = _strip_optional(f.annotation)
        for vi, v in enumerate(vals):
            w1 = obj([])
            w1[f.wire] = v
            out.append((f"value:{f.wire}#{vi}/min", w1))
            w2 = obj(opt)
            w2[f.wire] = v
            out.append((f"value:{f.wire}#{vi}/full", w2))
        if optional:
            w3 = obj(opt)
            w3[f.wire] = None
            out.append((f"value:{f.wire}#null/full", w3))
    # 4. every pair of sample values of every two members, in the full object
    if pairs:
        vals_of = {f.wire: samples(f.annotation, depth - 1, f"{where}.{f.name}", f.wire) for f in fs}
        for f, g in itertools.combinations(fs, 2):
            for (i, a), (j, b) in itertools.product(enumerate(vals_of[f.wire]), enumerate(vals_of[g.wire])):
                w = obj(opt)
                w[f.wire] = a
                w[g.wire] = b
                out.append((f"pair:{f.wire}#{i}x{g.wire}#{j}/full", w))
    # 5. the family of unknown members: every name x every value at the top level of the full object and at every
    #    nested model / list item of it (depth <= 2); every name with a scalar on the minimal object
    full_w, min_w = obj(opt), obj([])
    for path, declared_here in model_positions([cls], full_w):
        at = "/".join(str(p_) for p_ in path) or "<top>"
        for kind, name in UNKNOWN_NAMES:
            if name in declared_here:
                continue
            for vk, val in UNKNOWN_VALUES:
                out.append((f"unknown:{kind}={vk}@{at}", with_member(full_w, path, name, val)))
        for name in RESERVED_NAMES:
            if name not in declared_here:
                out.append((f"unknown:reserved:{name}=scalar@{at}", with_member(full_w, path, name, 7)))
        for kind, name in UNKNOWN_NAMES:
            if kind in UNKNOWN_PROBE_NAMES and name not in declared_here:
                out.append((f"unknown:{kind}=alias-named-keys@{at}", with_member(full_w, path, name, alias_named_keys())))
    # 6. JSON-Schema keywords on models that ARE a JSON Schema (they declare properties + type/required): the keyword
    #    grammar, not the Python class, says which values are valid - additionalProperties, items, ... take a schema object,
    #    combinators an array of schemas.  Emitted whether or not the class happens to declare a member of that name.
    for path, declared_here in model_positions([cls], full_w):
        node = full_w
        for p_ in path:
            node = node[p_]
        if not is_schema_like(declared_here):
            continue
        at = "/".join(str(p_) for p_ in path) or "<top>"
        for kw, forms in SCHEMA_KEYWORDS:
            for fname, val in forms:
                out.append((f"schema-keyword:{kw}={fname}@{at}", with_member(full_w, path, kw, val)))
    for kind, name in UNKNOWN_NAMES + [("reserved:" + n, n) for n in RESERVED_NAMES]:
        if name not in declared:
            out.append((f"unknown:{kind}=scalar@<top>/min", with_member(min_w, (), name, UNKNOWN_VALUES[0][1])))
    # de-duplicate on the object (keep first label)
    from .workers import canon

    seen, uniq = set(), []
    for label, w in out:
        k = canon(w)
        if k in seen:
            continue
        seen.add(k)
        uniq.append((label, w))
    return uniq


def nested_models(cls: type, wire: Any) -> Iterator[Tuple[type, Dict[str, Any]]]:
    """(model class, wire sub-object) for cls itself and every nested member whose
    declared type is a single model class (or a list of one)."""
    if not isinstance(wire, dict):
        return
    yield cls, wire
    for f in fields(cls):
        if f.wire not in wire:
            continue
        tp, _ = _strip_optional(f.annotation)
        v = wire[f.wire]
        if is_model(tp):
            yield from nested_models(tp, v)
        elif typing.get_origin(tp) in (list, List) and typing.get_args(tp) and is_model(typing.get_args(tp)[0]):
            if isinstance(v, list):
                for x in v:
                    yield from nested_models(typing.get_args(tp)[0], x)


def list_nested_alias_sites(classes) -> List[Tuple[str, str, str, str]]:
    """(container class, list member, nested class, aliased wire member) for every
    model class with an aliased member that another class holds inside a list."""
    out = []
    for c in classes:
        for f in fields(c):
            tp, _ = _strip_optional(f.annotation)
            if typing.get_origin(tp) not in (list, List) or not typing.get_args(tp):
                continue
            el, _ = _strip_optional(typing.get_args(tp)[0])
            arms = list(typing.get_args(el)) if typing.get_origin(el) is Union else [el]
            for m in arms:
                if is_model(m):
                    for g in fields(m):
                        if g.wire != g.name:
                            out.append((short(c), f.wire, short(m), g.wire))
    return sorted(set(out))


def list_nested_alias_hits(cls: type, wire: Any) -> List[Tuple[str, str, str, str]]:
    """Which of those sites this wire object populates (value not null)."""
    out = []
    if not isinstance(wire, dict):
        return out
    for f in fields(cls):
        tp, _ = _strip_optional(f.annotation)
        if typing.get_origin(tp) not in (list, List) or not typing.get_args(tp) or not isinstance(wire.get(f.wire), list):
            continue
        el, _ = _strip_optional(typing.get_args(tp)[0])
        arms = [a for a in (typing.get_args(el) if typing.get_origin(el) is Union else [el]) if is_model(a)]
        for item in wire[f.wire]:
            if not isinstance(item, dict):
                continue
            for m in arms:
                req = [g.wire for g in fields(m) if g.required]
                if not all(r in item for r in req):
                    continue
                for g in fields(m):
                    if g.wire != g.name and item.get(g.wire) is not None:
                        out.append((short(cls), f.wire, short(m), g.wire))
    return out


def position_kind(cls: type, wire: Any, path: Tuple[Any, ...]) -> str:
    """Is the container at this path of a wire object of cls *declared* - the object itself, a nested model, a member
    declared as List[...] / Dict[...] / dict, an item of such a list that is itself declared - or does it lie inside a
    free-form value (Any, the values of Dict[str, Any], unknown members), where keeping a reference is ordinary?"""
    def walk(tp: Any, value: Any, rest: Tuple[Any, ...]) -> str:
        tp, _ = _strip_optional(tp)
        arms = _model_arms(tp)
        if arms:
            if not isinstance(value, dict):
                return "free"
            if not rest:
                return "declared"
            arm = match_arm(arms, value)
            for f in fields(arm):
                if f.wire == rest[0]:
                    return walk(f.annotation, value.get(rest[0]), rest[1:])
            return "free"                       # an unknown member
        origin = typing.get_origin(tp)
        if origin in (list, List):
            if not isinstance(value, list):
                return "free"
            if not rest:
                return "declared"
            args = typing.get_args(tp)
            if not args or not isinstance(rest[0], int) or rest[0] >= len(value):
                return "free"
            return walk(args[0], value[rest[0]], rest[1:])
        if origin in (dict, Dict) or tp is dict:
            if not isinstance(value, dict):
                return "free"
            if not rest:
                return "declared"
            args = typing.get_args(tp)
            vt = args[1] if len(args) > 1 else Any
            if vt is Any or rest[0] not in value:
                return "free"
            return walk(vt, value[rest[0]], rest[1:])
        return "free"

    return walk(cls, wire, tuple(path))
