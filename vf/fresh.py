"""Run ONE execution in a fresh interpreter and print its digest and observation (JSON).

Used to explain determinism-audit mismatches: if an execution gives the same result every time it
runs alone in a new process, but a different one inside a long-lived worker, then the library's
behaviour depends on what ran before in the same process (state carried between calls) - that is a
finding about the library, not trouble in the machinery.

    python -m vf.fresh <run_ref> <cfg json> <choices json> [init_ref]
"""
import json
import logging
import sys


def main():
    logging.disable(logging.CRITICAL)
    from vf import explorer

    run_ref, cfg, choices = sys.argv[1], json.loads(sys.argv[2]), json.loads(sys.argv[3])
    init_ref = sys.argv[4] if len(sys.argv) > 4 and sys.argv[4] else None
    ctl, obs = explorer.replay_one(run_ref, cfg, choices, init_ref)
    print(json.dumps({"digest": explorer.digest_of(obs), "obs": obs}, default=repr))


if __name__ == "__main__":
    main()
