"""Child-side operations on chuk_mcp model classes (run inside a configuration
worker, i.e. under one fixed validation backend)."""
from __future__ import annotations

import re
from typing import Any, Dict, List, Optional

from . import wiregen
from .workers import dec, enc

_STATE: Dict[str, Any] = {}


def backend_facts() -> Dict[str, Any]:
    import os

    from chuk_mcp.protocol import mcp_pydantic_base as b

    classes, problems = wiregen.discover()
    _STATE["classes"] = {wiregen.qual(c): c for c in classes}
    return {
        "PYDANTIC_AVAILABLE": bool(b.PYDANTIC_AVAILABLE),
        "MCP_FORCE_FALLBACK": os.environ.get("MCP_FORCE_FALLBACK"),
        "base_module_of_models": b.McpPydanticBase.__mro__[1].__module__,
        "classes": sorted(_STATE["classes"]),
        "import_problems": problems,
    }


def child_hello() -> Dict[str, Any]:
    return backend_facts()


def cls_of(q: str) -> type:
    if "classes" not in _STATE:
        backend_facts()
    return _STATE["classes"][q]


# ---------------------------------------------------------------------------
def is_instance(x: Any) -> bool:
    return isinstance(x, wiregen.base_class())


def members(x: Any) -> Dict[str, Any]:
    """attribute name -> value, declared members and extras."""
    d = dict(getattr(x, "__dict__", {}) or {})
    extra = getattr(x, "__pydantic_extra__", None)
    if extra:
        d.update(extra)
    return {k: v for k, v in d.items() if not k.startswith("__")}


def type_map(x: Any, path: str = "", out: Optional[Dict[str, str]] = None) -> Dict[str, str]:
    """path -> type name of every container node of a validated object (model
    instances by class name, plain dict / list as such); scalars are left to
    the comparison of the dumps."""
    if out is None:
        out = {}
    if is_instance(x):
        out[path] = type(x).__name__
        for k, v in members(x).items():
            type_map(v, f"{path}.{k}" if path else k, out)
    elif isinstance(x, dict):
        out[path] = "dict"
        for k, v in x.items():
            type_map(v, f"{path}.{k}" if path else str(k), out)
    elif isinstance(x, (list, tuple)):
        out[path] = "list"
        for i, v in enumerate(x):
            type_map(v, f"{path}[{i}]", out)
    return out


def to_json(v: Any) -> Any:
    if hasattr(v, "model_dump"):
        return v.model_dump(by_alias=True, exclude_none=True)
    if isinstance(v, (list, tuple)):
        return [to_json(x) for x in v]
    if isinstance(v, dict):
        return {k: to_json(x) for k, x in v.items()}
    return v


def json_equal(a: Any, b: Any) -> bool:
    """Equality of JSON values: bool, string, null, array, object strictly;
    numbers by value (1 and 1.0 are the same JSON number)."""
    if isinstance(a, bool) or isinstance(b, bool):
        return isinstance(a, bool) and isinstance(b, bool) and a == b
    if isinstance(a, (int, float)) and isinstance(b, (int, float)):
        return a == b
    if type(a) is not type(b):
        return False
    if isinstance(a, dict):
        return a.keys() == b.keys() and all(json_equal(a[k], b[k]) for k in a)
    if isinstance(a, list):
        return len(a) == len(b) and all(json_equal(x, y) for x, y in zip(a, b))
    return a == b


def kind_of_message(m: Any) -> str:
    if isinstance(m, list):
        return "batch[" + ",".join(kind_of_message(x) for x in m) + "]"
    n = type(m).__name__
    if n == "JSONRPCMessage":
        try:
            if m.is_request():
                return "request"
            if m.is_notification():
                return "notification"
            if m.is_error_response():
                return "error"
            if m.is_response():
                return "result"
        except Exception as e:  # noqa: BLE001
            return f"raised:{type(e).__name__}"
        return "none"
    return {"JSONRPCRequest": "request", "JSONRPCNotification": "notification", "JSONRPCResponse": "result",
            "JSONRPCError": "error"}.get(n, f"other:{n}")


_IDX = re.compile(r"\[\d+\]")


def exc_facts(e: BaseException) -> Dict[str, Any]:
    out = {"exc": type(e).__name__, "detail": str(e)[:200]}
    fp = getattr(e, "field_path", None)
    if isinstance(fp, str):
        out["field"] = _IDX.sub("[]", fp)
    return out


# ---------------------------------------------------------------------------
# losslessness (C10 part A)
# ---------------------------------------------------------------------------
def member_kind(cls: Optional[type], k: str) -> str:
    if cls is not None:
        for f in wiregen.fields(cls):
            if f.wire == k and f.wire != f.name:
                return f"alias:{k}"
            if f.wire == k:
                return f"declared:{k}"
            if f.name == k:
                return f"attribute-name:{k}"
    return "unknown:" + wiregen.name_kind(k)


def lossless_problems(x: Any, w: Any, d: Any, path: str = "") -> List[Dict[str, Any]]:
    """Is the dump d (by wire names, nulls excluded) a lossless view of the wire
    value w?  x is the validated object the dump came from (or the matching part
    of it), used to find the declared defaults of the model at this position."""
    probs: List[Dict[str, Any]] = []
    if isinstance(w, dict):
        if not isinstance(d, dict):
            return [{"kind": "shape-changed", "path": path, "detail": f"object became {type(d).__name__}"}]
        cls = type(x) if is_instance(x) else None
        attr_of = {f.wire: f.name for f in wiregen.fields(cls)} if cls else {}
        mem = members(x) if cls else (x if isinstance(x, dict) else {})
        for k, wv in w.items():
            if wv is None:
                continue                                  # a null member is not visible in an exclude_none view
            p = f"{path}.{k}" if path else k
            if k not in d:
                probs.append({"kind": "member-lost", "path": p, "member": member_kind(cls, k),
                              "model": wiregen.short(cls) if cls else None, "detail": f"dump has {sorted(d)}"})
                continue
            probs.extend(lossless_problems(mem.get(attr_of.get(k, k)), wv, d[k], p))
        for k, dv in d.items():
            if k in w and w[k] is not None:
                continue
            if k in w and dv is None:
                continue                                  # a null member kept as null
            p = f"{path}.{k}" if path else k
            ok = False
            if cls is not None:
                for f in wiregen.fields(cls):
                    if f.wire == k and f.default is not wiregen.MISSING and json_equal(to_json(f.default), dv):
                        ok = True
            if not ok:
                probs.append({"kind": "member-added", "path": p, "member": member_kind(cls, k),
                              "model": wiregen.short(cls) if cls else None, "detail": f"value {dv!r:.80}"})
        return probs
    if isinstance(w, list):
        if not isinstance(d, list) or len(d) != len(w):
            return [{"kind": "shape-changed", "path": path, "detail": "array length or type changed"}]
        xs = x if isinstance(x, (list, tuple)) and len(x) == len(w) else [None] * len(w)
        for i, (wv, dv) in enumerate(zip(w, d)):
            probs.extend(lossless_problems(xs[i], wv, dv, f"{path}[{i}]"))
        return probs
    if not json_equal(w, d):
        probs.append({"kind": "value-changed", "path": path, "detail": f"{w!r:.60} became {d!r:.60}"})
    return probs


# ---------------------------------------------------------------------------
def op_validate(case: Dict[str, Any]) -> Dict[str, Any]:
    """case: {"target": qualified class name | "parse_message", "wire": tagged value, "lossless": bool}"""
    wire = dec(case["wire"])
    target = case["target"]
    try:
        if target == "parse_message":
            from chuk_mcp.protocol.messages.json_rpc_message import parse_message

            x = parse_message(wire)
        else:
            x = cls_of(target).model_validate(wire)
    except Exception as e:  # noqa: BLE001 - "rejected" is an observation
        return {"ok": False, **exc_facts(e)}
    ans: Dict[str, Any] = {"ok": True}
    try:
        dump = [m.model_dump(by_alias=True, exclude_none=True) for m in x] if isinstance(x, list) \
            else x.model_dump(by_alias=True, exclude_none=True)
    except Exception as e:  # noqa: BLE001
        return {"ok": True, "dump_exc": exc_facts(e), "types": type_map(x)}
    ans["types"] = type_map(x)
    ans["dump"] = enc(dump)
    if target == "parse_message":
        ans["kind"] = kind_of_message(x)
    if case.get("lossless"):
        ans["lossless"] = lossless_problems(x, wire, dump)
    return ans


def child_handle(case: Any) -> Any:
    if case.get("op", "validate") == "validate":
        return op_validate(case)
    raise ValueError(f"unknown op {case.get('op')!r}")
