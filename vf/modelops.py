"""Child-side operations on chuk_mcp model classes (run inside a configuration
worker, i.e. under one fixed validation backend)."""
from __future__ import annotations

import re
from typing import Any, Dict, List, Optional

from . import wiregen
from .workers import dec, enc

_STATE: Dict[str, Any] = {}


def backend_facts() -> Dict[str, Any]:
    import os

    from chuk_mcp.protocol import mcp_pydantic_base as b

    classes, problems = wiregen.discover()
    _STATE["classes"] = {wiregen.qual(c): c for c in classes}
    return {
        "PYDANTIC_AVAILABLE": bool(b.PYDANTIC_AVAILABLE),
        "HAS_ORJSON": bool(__import__("chuk_mcp.protocol.fast_json", fromlist=["HAS_ORJSON"]).HAS_ORJSON),
        "MCP_FORCE_FALLBACK": os.environ.get("MCP_FORCE_FALLBACK"),
        "base_module_of_models": b.McpPydanticBase.__mro__[1].__module__,
        "classes": sorted(_STATE["classes"]),
        "import_problems": problems,
    }


def child_hello() -> Dict[str, Any]:
    return backend_facts()


def cls_of(q: str) -> type:
    if "classes" not in _STATE:
        backend_facts()
    return _STATE["classes"][q]


# ---------------------------------------------------------------------------
def is_instance(x: Any) -> bool:
    return isinstance(x, wiregen.base_class())


def members(x: Any) -> Dict[str, Any]:
    """attribute name -> value, declared members and extras."""
    d = dict(getattr(x, "__dict__", {}) or {})
    extra = getattr(x, "__pydantic_extra__", None)
    if extra:
        d.update(extra)
    return {k: v for k, v in d.items() if not k.startswith("__")}


def type_map(x: Any, path: str = "", out: Optional[Dict[str, str]] = None) -> Dict[str, str]:
    """path -> type name of every container node of a validated object (model
    instances by class name, plain dict / list as such); scalars are left to
    the comparison of the dumps."""
    if out is None:
        out = {}
    if is_instance(x):
        out[path] = type(x).__name__
        for k, v in members(x).items():
            type_map(v, f"{path}.{k}" if path else k, out)
    elif isinstance(x, dict):
        out[path] = "dict"
        for k, v in x.items():
            type_map(v, f"{path}.{k}" if path else str(k), out)
    elif isinstance(x, (list, tuple)):
        out[path] = "list"
        for i, v in enumerate(x):
            type_map(v, f"{path}[{i}]", out)
    return out


def to_json(v: Any) -> Any:
    if hasattr(v, "model_dump"):
        return v.model_dump(by_alias=True, exclude_none=True)
    if isinstance(v, (list, tuple)):
        return [to_json(x) for x in v]
    if isinstance(v, dict):
        return {k: to_json(x) for k, x in v.items()}
    return v


def json_equal(a: Any, b: Any) -> bool:
    """Equality of JSON values: bool, string, null, array, object strictly;
    numbers by value (1 and 1.0 are the same JSON number)."""
    if isinstance(a, bool) or isinstance(b, bool):
        return isinstance(a, bool) and isinstance(b, bool) and a == b
    if isinstance(a, (int, float)) and isinstance(b, (int, float)):
        return a == b
    if type(a) is not type(b):
        return False
    if isinstance(a, dict):
        return a.keys() == b.keys() and all(json_equal(a[k], b[k]) for k in a)
    if isinstance(a, list):
        return len(a) == len(b) and all(json_equal(x, y) for x, y in zip(a, b))
    return a == b


def kind_of_message(m: Any) -> str:
    if isinstance(m, list):
        return "batch[" + ",".join(kind_of_message(x) for x in m) + "]"
    n = type(m).__name__
    if n == "JSONRPCMessage":
        try:
            if m.is_request():
                return "request"
            if m.is_notification():
                return "notification"
            if m.is_error_response():
                return "error"
            if m.is_response():
                return "result"
        except Exception as e:  # noqa: BLE001
            return f"raised:{type(e).__name__}"
        return "none"
    return {"JSONRPCRequest": "request", "JSONRPCNotification": "notification", "JSONRPCResponse": "result",
            "JSONRPCError": "error"}.get(n, f"other:{n}")


_IDX = re.compile(r"\[\d+\]")


def exc_facts(e: BaseException) -> Dict[str, Any]:
    out = {"exc": type(e).__name__, "detail": str(e)[:200]}
    fp = getattr(e, "field_path", None)
    if isinstance(fp, str):
        out["field"] = _IDX.sub("[]", fp)
    return out


# ---------------------------------------------------------------------------
# losslessness (C10 part A)
# ---------------------------------------------------------------------------
def member_kind(cls: Optional[type], k: str) -> str:
    if cls is not None:
        for f in wiregen.fields(cls):
            if f.wire == k and f.wire != f.name:
                return f"alias:{k}"
            if f.wire == k:
                return f"declared:{k}"
            if f.name == k:
                return f"attribute-name:{k}"
    if cls is None:
        # a key inside a free-form value: say so, and whether it is spelled like an aliased member somewhere
        for c in _STATE.get("classes", {}).values():
            for f in wiregen.fields(c):
                if f.wire != f.name and k == f.name:
                    return f"free-form-key:spelled-like-attribute:{k}"
                if f.wire != f.name and k == f.wire:
                    return f"free-form-key:spelled-like-wire-name:{k}"
        return "free-form-key:" + wiregen.name_kind(k)
    return "unknown:" + wiregen.name_kind(k)


def lossless_problems(x: Any, w: Any, d: Any, path: str = "") -> List[Dict[str, Any]]:
    """Is the dump d (by wire names, nulls excluded) a lossless view of the wire
    value w?  x is the validated object the dump came from (or the matching part
    of it), used to find the declared defaults of the model at this position."""
    probs: List[Dict[str, Any]] = []
    if isinstance(w, dict):
        if not isinstance(d, dict):
            return [{"kind": "shape-changed", "path": path, "detail": f"object became {type(d).__name__}"}]
        cls = type(x) if is_instance(x) else None
        attr_of = {f.wire: f.name for f in wiregen.fields(cls)} if cls else {}
        mem = members(x) if cls else (x if isinstance(x, dict) else {})
        for k, wv in w.items():
            if wv is None and cls is not None:
                continue                                  # a null member OF A MODEL is not visible in an exclude_none view
            if wv is None:
                # inside a free-form value a null is data: it must still be there, as null
                if k not in d or d[k] is not None:
                    probs.append({"kind": "null-member-lost", "path": f"{path}.{k}" if path else k,
                                  "member": "free-form-key:null-valued", "model": None,
                                  "detail": "absent from the dump" if k not in d else f"became {d[k]!r:.40}"})
                continue
            p = f"{path}.{k}" if path else k
            if k not in d:
                probs.append({"kind": "member-lost", "path": p, "member": member_kind(cls, k),
                              "model": wiregen.short(cls) if cls else None, "detail": f"dump has {sorted(d)}"})
                continue
            probs.extend(lossless_problems(mem.get(attr_of.get(k, k)), wv, d[k], p))
        for k, dv in d.items():
            if k in w and w[k] is not None:
                continue
            if k in w and dv is None:
                continue                                  # a null member kept as null
            p = f"{path}.{k}" if path else k
            ok = False
            if cls is not None:
                for f in wiregen.fields(cls):
                    if f.wire == k and f.default is not wiregen.MISSING and json_equal(to_json(f.default), dv):
                        ok = True
            if not ok:
                probs.append({"kind": "member-added", "path": p, "member": member_kind(cls, k),
                              "model": wiregen.short(cls) if cls else None, "detail": f"value {dv!r:.80}"})
        return probs
    if isinstance(w, list):
        if not isinstance(d, list) or len(d) != len(w):
            return [{"kind": "shape-changed", "path": path, "detail": "array length or type changed"}]
        xs = x if isinstance(x, (list, tuple)) and len(x) == len(w) else [None] * len(w)
        for i, (wv, dv) in enumerate(zip(w, d)):
            probs.extend(lossless_problems(xs[i], wv, dv, f"{path}[{i}]"))
        return probs
    if not json_equal(w, d):
        probs.append({"kind": "value-changed", "path": path, "detail": f"{w!r:.60} became {d!r:.60}"})
    return probs


# ---------------------------------------------------------------------------
def op_validate(case: Dict[str, Any]) -> Dict[str, Any]:
    """case: {"target": qualified class name | "parse_message", "wire": tagged value, "lossless": bool}"""
    wire = dec(case["wire"])
    target = case["target"]
    try:
        if target == "parse_message":
            from chuk_mcp.protocol.messages.json_rpc_message import parse_message

            x = parse_message(wire)
        else:
            x = cls_of(target).model_validate(wire)
    except Exception as e:  # noqa: BLE001 - "rejected" is an observation
        return {"ok": False, **exc_facts(e)}
    ans: Dict[str, Any] = {"ok": True}
    try:
        dump = [m.model_dump(by_alias=True, exclude_none=True) for m in x] if isinstance(x, list) \
            else x.model_dump(by_alias=True, exclude_none=True)
    except Exception as e:  # noqa: BLE001
        return {"ok": True, "dump_exc": exc_facts(e), "types": type_map(x)}
    ans["types"] = type_map(x)
    ans["dump"] = enc(dump)
    if target == "parse_message":
        ans["kind"] = kind_of_message(x)
    if case.get("lossless"):
        ans["lossless"] = lossless_problems(x, wire, dump)
    if not isinstance(x, list):
        ans["json"] = json_path(x)
        if case.get("lossless"):
            j = ans["json"].get("exclude_none+by_alias", {})
            if "value" in j:
                ans["lossless_json"] = lossless_problems(x, wire, dec(j["value"]))
    return ans


# ---------------------------------------------------------------------------
# the JSON path: model_dump_json with the keyword variants the library itself uses
# ---------------------------------------------------------------------------
JSON_VARIANTS = [("exclude_none", {"exclude_none": True}), ("by_alias", {"by_alias": True}),
                 ("exclude_none+by_alias", {"exclude_none": True, "by_alias": True}), ("plain", {})]


def first_json_diff(a: Any, b: Any, path: str = "") -> Optional[str]:
    """Location of the first difference between two JSON values (numbers by value), or None."""
    if isinstance(a, dict) and isinstance(b, dict):
        for k in a:
            if k not in b:
                return f"{path}.{k}" if path else k
        for k in b:
            if k not in a:
                return f"{path}.{k}" if path else k
        for k in a:
            d = first_json_diff(a[k], b[k], f"{path}.{k}" if path else k)
            if d is not None:
                return d
        return None
    if isinstance(a, list) and isinstance(b, list):
        if len(a) != len(b):
            return path or "<top>"
        for i, (x, y) in enumerate(zip(a, b)):
            d = first_json_diff(x, y, f"{path}[{i}]")
            if d is not None:
                return d
        return None
    return None if json_equal(a, b) else (path or "<top>")


def json_path(x: Any) -> Dict[str, Any]:
    """variant -> {"value": tagged json.loads(model_dump_json(**kw)), "vs_dump": None | path}; the text is parsed
    with the standard library.  vs_dump compares with model_dump(**kw) of the same object - or, for a call without
    exclude_none, with model_dump(**kw, exclude_none=True) as well (a class may document that its JSON form
    leaves nulls out by default, as the unified JSONRPCMessage does)."""
    import json as _json

    out: Dict[str, Any] = {}
    for name, kw in JSON_VARIANTS:
        try:
            text = x.model_dump_json(**kw)
            j = _json.loads(text)
        except Exception as e:  # noqa: BLE001
            out[name] = {"exc": exc_facts(e)}
            continue
        r: Dict[str, Any] = {"value": enc(j)}
        try:
            d = to_plain(x.model_dump(**kw))
            where = first_json_diff(d, j)
            if where is not None and "exclude_none" not in kw:
                alt = first_json_diff(to_plain(x.model_dump(**{**kw, "exclude_none": True})), j)
                where = None if alt is None else where
            r["vs_dump"] = where
        except Exception as e:  # noqa: BLE001
            r["vs_dump_exc"] = exc_facts(e)
        out[name] = r
    return out


def to_plain(v: Any) -> Any:
    """model_dump output as a JSON value (tuples -> lists, nested models dumped as they are met)."""
    if isinstance(v, dict):
        return {str(k): to_plain(x) for k, x in v.items()}
    if isinstance(v, (list, tuple)):
        return [to_plain(x) for x in v]
    return v


# ---------------------------------------------------------------------------
# mutation isolation (C10): what one validated object holds must not be shared with the next one
# ---------------------------------------------------------------------------
def _mutables(x: Any, path: str, out: List, depth: int = 0) -> None:
    if depth > 6:
        return
    if is_instance(x):
        out.append((path, x))
        for k, v in members(x).items():
            _mutables(v, f"{path}.{k}" if path else k, out, depth + 1)
    elif isinstance(x, dict):
        out.append((path, x))
        for k, v in x.items():
            _mutables(v, f"{path}.{k}" if path else str(k), out, depth + 1)
    elif isinstance(x, list):
        out.append((path, x))
        for i, v in enumerate(x):
            _mutables(v, f"{path}[{i}]", out, depth + 1)


def _defaults_of(x: Any, w: Any, path: str, out: List) -> None:
    """(path, value) of every member of the validated object that did not come from the wire object."""
    if not is_instance(x) or not isinstance(w, dict):
        return
    mem = members(x)
    for f in wiregen.fields(type(x)):
        v = mem.get(f.name)
        p = f"{path}.{f.name}" if path else f.name
        if f.wire in w or f.name in w:
            wv = w.get(f.wire, w.get(f.name))
            if is_instance(v):
                _defaults_of(v, wv, p, out)
            elif isinstance(v, list) and isinstance(wv, list) and len(v) == len(wv):
                for i, (a, b) in enumerate(zip(v, wv)):
                    _defaults_of(a, b, f"{p}[{i}]", out)
        elif v is not None:
            out.append((p, v))


def _mutate(v: Any, undo: List, depth: int = 0) -> int:
    """In-place mutation of a mutable value (and what it holds); returns how many objects were touched."""
    n = 0
    if depth > 4:
        return 0
    if is_instance(v):
        for k, cur in list(members(v).items()):
            new = (not cur) if isinstance(cur, bool) else cur + 1 if isinstance(cur, (int, float)) else \
                cur + "-vf-mut" if isinstance(cur, str) else True if cur is None else None
            if new is not None:
                try:
                    object.__setattr__(v, k, new) if k not in getattr(v, "__dict__", {}) else v.__dict__.__setitem__(k, new)
                    undo.append(lambda v=v, k=k, cur=cur: v.__dict__.__setitem__(k, cur) if k in v.__dict__
                                else object.__setattr__(v, k, cur))
                    n += 1
                except Exception:  # noqa: BLE001
                    pass
            else:
                n += _mutate(cur, undo, depth + 1)
    elif isinstance(v, dict):
        for cur in list(v.values()):
            n += _mutate(cur, undo, depth + 1)
        v["vf-mut"] = 1
        undo.append(lambda v=v: v.pop("vf-mut", None))
        n += 1
    elif isinstance(v, list):
        for cur in list(v):
            n += _mutate(cur, undo, depth + 1)
        v.append("vf-mut")
        undo.append(lambda v=v: v.remove("vf-mut") if "vf-mut" in v else None)
        n += 1
    return n


def op_isolation(case: Dict[str, Any]) -> Dict[str, Any]:
    """validate twice -> no shared mutable object; validate, mutate every defaulted member in place, validate again ->
    same dump as before.  Every validation gets its own freshly decoded wire object, so nothing can be shared through
    the input."""
    cls = cls_of(case["target"])
    try:
        x1 = cls.model_validate(dec(case["wire"]))
        x2 = cls.model_validate(dec(case["wire"]))
        dump1 = x1.model_dump(by_alias=True, exclude_none=True)
    except Exception as e:  # noqa: BLE001
        return {"ok": False, **exc_facts(e)}
    ans: Dict[str, Any] = {"ok": True, "shared": [], "leaks": None}
    m1: List = []
    m2: List = []
    _mutables(x1, "", m1)
    _mutables(x2, "", m2)
    ids2 = {id(o): p for p, o in m2}
    for p, o in m1:
        if id(o) in ids2:
            ans["shared"].append({"path": _IDX.sub("[]", p) or "<top>", "type": type(o).__name__})
    ans["mutable_objects"] = len(m1)
    defaults: List = []
    _defaults_of(x1, dec(case["wire"]), "", defaults)
    undo: List = []
    touched = 0
    try:
        for p, v in defaults:
            touched += _mutate(v, undo)
        ans["defaults_mutated"] = touched
        if touched:
            try:
                x3 = cls.model_validate(dec(case["wire"]))
                dump3 = x3.model_dump(by_alias=True, exclude_none=True)
                where = first_json_diff(to_plain(dump1), to_plain(dump3))
                if where is not None:
                    ans["leaks"] = {"path": _IDX.sub("[]", where)}
            except Exception as e:  # noqa: BLE001
                ans["leaks"] = {"path": "<validation>", "exc": exc_facts(e)}
    finally:
        for u in reversed(undo):
            try:
                u()
            except Exception:  # noqa: BLE001
                pass
    return ans


# ---------------------------------------------------------------------------
# input mutated after validation: an object that was built must not change when the wire object it was built from does
# ---------------------------------------------------------------------------
MUTATION_DEPTH = 2


def container_positions(v: Any, path: tuple = (), depth: int = 0) -> List[tuple]:
    out: List[tuple] = []
    if isinstance(v, (dict, list)):
        out.append(path)
        if depth < MUTATION_DEPTH:
            items = v.items() if isinstance(v, dict) else enumerate(v)
            for k, x in items:
                out.extend(container_positions(x, path + (k,), depth + 1))
    return out


def _node(v: Any, path: tuple) -> Any:
    for p in path:
        v = v[p]
    return v


def mutations_for(node: Any) -> List[str]:
    if isinstance(node, dict):
        kinds = ["add-key", "clear"] if node else ["add-key"]
        if node:
            kinds.append("delete-key")
        if any(not isinstance(x, (dict, list)) for x in node.values()):
            kinds.append("replace-scalar")
        return kinds
    kinds = ["append"]
    if node:
        kinds += ["clear", "delete-item"]
        if any(not isinstance(x, (dict, list)) for x in node):
            kinds.append("replace-scalar")
    return kinds


def apply_mutation(node: Any, kind: str) -> None:
    if isinstance(node, dict):
        if kind == "add-key":
            node["vf-added"] = "vf-mut"
        elif kind == "clear":
            node.clear()
        elif kind == "delete-key":
            del node[next(iter(node))]
        elif kind == "replace-scalar":
            for k, x in node.items():
                if not isinstance(x, (dict, list)):
                    node[k] = "vf-mut" if not isinstance(x, str) else x + "-vf-mut"
                    break
    else:
        if kind == "append":
            node.append("vf-mut")
        elif kind == "clear":
            node.clear()
        elif kind == "delete-item":
            del node[0]
        elif kind == "replace-scalar":
            for i, x in enumerate(node):
                if not isinstance(x, (dict, list)):
                    node[i] = "vf-mut" if not isinstance(x, str) else x + "-vf-mut"
                    break


def path_text(path: tuple) -> str:
    out = ""
    for p in path:
        out += "[]" if isinstance(p, int) else (("." if out else "") + str(p))
    return out or "<top>"


def _build(target: str, wire: Any) -> Any:
    if target == "parse_message":
        from chuk_mcp.protocol.messages.json_rpc_message import parse_message

        return parse_message(wire)
    return cls_of(target).model_validate(wire)


def _both_dumps(x: Any) -> Dict[str, Any]:
    import json as _json

    out: Dict[str, Any] = {}
    try:
        out["model_dump"] = to_plain(x.model_dump(by_alias=True, exclude_none=True))
    except Exception as e:  # noqa: BLE001
        out["model_dump"] = {"<raised>": type(e).__name__}
    try:
        out["model_dump_json"] = _json.loads(x.model_dump_json(by_alias=True, exclude_none=True))
    except Exception as e:  # noqa: BLE001
        out["model_dump_json"] = {"<raised>": type(e).__name__}
    return out


EDIT_ORDER = ["replace-scalar", "delete-key", "delete-item", "add-key", "append", "clear"]


def op_inputmut(case: Dict[str, Any]) -> Dict[str, Any]:
    """For every container position of the wire object (depth <= 2): validate a fresh copy, snapshot both dumps, then
    edit the INPUT there in place - replace a scalar, delete a key/item, add a key/append, finally clear - and dump the
    same object after every edit (model_dump) and before the clear also through the JSON path.
    -> {"ok", "edits": n, "changed": [{"position", "path_list", "mutation", "via", "path"}]} (first change per position and
    way), plus the two-objects-from-one-input probe."""
    target = case["target"]
    try:
        first = _build(target, dec(case["wire"]))
    except Exception as e:  # noqa: BLE001
        return {"ok": False, **exc_facts(e)}
    if isinstance(first, list):
        return {"ok": True, "edits": 0, "changed": [], "batch": True}
    ans: Dict[str, Any] = {"ok": True, "edits": 0, "positions": 0, "changed": []}
    for path in container_positions(dec(case["wire"])):
        wire = dec(case["wire"])
        try:
            x = _build(target, wire)
        except Exception as e:  # noqa: BLE001
            ans["changed"].append({"position": path_text(path), "path_list": list(path), "mutation": "-", "via": "validate",
                                   "path": type(e).__name__})
            continue
        ans["positions"] += 1
        before = _both_dumps(x)
        node = _node(wire, path)
        kinds = [k for k in EDIT_ORDER if k in mutations_for(node)]
        seen_via = set()

        def check(kind, vias):
            now = _both_dumps(x) if len(vias) > 1 else {"model_dump": to_plain(x.model_dump(by_alias=True, exclude_none=True))}
            for via in vias:
                if via in seen_via:
                    continue
                where = first_json_diff(before[via], now[via])
                if where is not None:
                    seen_via.add(via)
                    ans["changed"].append({"position": path_text(path), "path_list": list(path), "mutation": kind, "via": via,
                                           "path": _IDX.sub("[]", where)})

        for kind in kinds:
            if kind == "clear":
                check("before-clear", ["model_dump", "model_dump_json"])
            try:
                apply_mutation(node, kind)
            except Exception:  # noqa: BLE001 - e.g. nothing left to delete after an earlier edit
                continue
            ans["edits"] += 1
            check(kind, ["model_dump"])
        check("after-all-edits", ["model_dump", "model_dump_json"])
    # two objects built from ONE wire object; the first is edited through attribute assignment and, one level down,
    # in place in its own declared containers - the second must not change
    wire = dec(case["wire"])
    try:
        a, b = _build(target, wire), _build(target, wire)
        before = _both_dumps(b)
        touched = _edit_own_members(a, 0, None, dec(case["wire"])) if target != "parse_message" else \
            _edit_own_members(a, 0, None, None)
        after = _both_dumps(b)
        ans["sibling_edits"] = touched
        for via in before:
            where = first_json_diff(before[via], after[via])
            if where is not None:
                ans["sibling_changed"] = {"via": via, "path": _IDX.sub("[]", where)}
                break
    except Exception as e:  # noqa: BLE001
        ans["sibling_exc"] = exc_facts(e)
    return ans


def _edit_own_members(a: Any, depth: int = 0, top: Any = None, wire: Any = None, path: tuple = ()) -> int:
    """Edits of what a validated object owns: scalar members re-assigned, members declared as dict/list edited at their
    outer level, nested models treated the same one level down.  Unknown members and members declared Any are left
    alone (their values are the caller's objects by design)."""
    n = 0
    if not is_instance(a):
        return 0
    top = top if top is not None else type(a)
    by_name = {f.name: f for f in wiregen.fields(type(a))}
    for k, cur in list(members(a).items()):
        if k not in by_name or cur is None:
            continue
        here = path + (by_name[k].wire,)
        if isinstance(cur, (dict, list)) or is_instance(cur):
            if wire is None or wiregen.position_kind(top, wire, here) != "declared":
                continue
        if isinstance(cur, dict):
            cur["vf-own-edit"] = 1
            n += 1
        elif isinstance(cur, list):
            if depth < 1:
                for i, item in enumerate(cur):
                    n += _edit_own_members(item, depth + 1, top, wire, here + (i,))
            cur.append("vf-own-edit")
            n += 1
        elif is_instance(cur):
            if depth < 1:
                n += _edit_own_members(cur, depth + 1, top, wire, here)
        else:
            new = (not cur) if isinstance(cur, bool) else cur + 1 if isinstance(cur, (int, float)) else \
                cur + "-vf" if isinstance(cur, str) else None
            if new is None:
                continue
            try:
                setattr(a, k, new)
                n += 1
            except Exception:  # noqa: BLE001 - e.g. a Literal member refuses the new value
                pass
    return n


# ---------------------------------------------------------------------------
# the library's own editing paths on a params dict that an earlier request object was built from
# ---------------------------------------------------------------------------
LIBEDIT_PARAMS = [
    {"name": "t", "arguments": {"a": 1}},
    {"name": "t", "_meta": {"k": 1}},
    {},
    {"cursor": "c", "nested": {"list": [1, {"x": 1}]}},
]
LIBEDIT_SCENARIOS = ["create_request(progress_token)", "send_message(progress_callback)", "parse_message-then-edit-raw",
                     "JSONRPCMessage.create_request-then-edit-params"]


def op_libedit(case: Dict[str, Any]) -> Dict[str, Any]:
    import copy

    from chuk_mcp.protocol.messages import json_rpc_message as J

    scenario = LIBEDIT_SCENARIOS[case["scenario"]]
    params = copy.deepcopy(LIBEDIT_PARAMS[case["params"]])
    try:
        if scenario == "parse_message-then-edit-raw":
            raw = {"jsonrpc": "2.0", "id": "r-1", "method": "tools/call", "params": params}
            first = J.parse_message(raw)
        elif scenario.startswith("JSONRPCMessage"):
            first = J.JSONRPCMessage.create_request("tools/call", params, id="r-1")
        else:
            first = J.create_request("tools/call", params=params, id="r-1")
        before = _both_dumps(first)
        if scenario == "create_request(progress_token)":
            J.create_request("tools/call", params=params, id="r-2", progress_token="tok-1")
        elif scenario == "send_message(progress_callback)":
            from chuk_mcp.protocol.messages.send_message import send_message

            from . import serialisers
            from .sched import patched_uuid

            async def cb(progress, total, message):
                return None

            async def main():
                return await serialisers.with_responder(
                    lambda rd, wr: send_message(rd, wr, "tools/call", params, timeout=5.0, progress_callback=cb),
                    serialisers.ok_reply({"ok": True}))

            with patched_uuid():
                serialisers.on_loop(main)
        else:
            params["vf-added"] = 1
            for k in list(params)[:1]:
                if k != "vf-added":
                    del params[k]
        after = _both_dumps(first)
    except Exception as e:  # noqa: BLE001
        return {"exc": exc_facts(e)}
    out: Dict[str, Any] = {"changed": None}
    for via in before:
        where = first_json_diff(before[via], after[via])
        if where is not None:
            b_keys = sorted((before[via].get("params") or {}).keys()) if isinstance(before[via].get("params"), dict) else None
            a_keys = sorted((after[via].get("params") or {}).keys()) if isinstance(after[via].get("params"), dict) else None
            out["changed"] = {"via": via, "path": _IDX.sub("[]", where), "outer_params_dict_changed": b_keys != a_keys}
            break
    return out


# ---------------------------------------------------------------------------
# order of dump calls per class (C10): each sequence runs in a process forked for it from a worker that never dumps
# ---------------------------------------------------------------------------
DUMP_CALLS = [("model_dump()", "model_dump", {}),
              ("model_dump(by_alias=True,exclude_none=True)", "model_dump", {"by_alias": True, "exclude_none": True}),
              ("model_dump_json()", "model_dump_json", {}),
              ("model_dump_json(by_alias=True,exclude_none=True)", "model_dump_json", {"by_alias": True, "exclude_none": True})]


def op_dumporder(case: Dict[str, Any]) -> Any:
    """case: {"target", "wires": [tagged, tagged], "calls": [[object index, DUMP_CALLS index], ...]} -> one output per call
    (JSON value) plus, for the by-alias calls, the losslessness problems against the object's wire form."""
    from .encseq import in_fork
    import json as _json

    cls = cls_of(case["target"])          # resolved (and every module imported) before forking

    def run():
        wires = [dec(w) for w in case["wires"]]
        objs = [cls.model_validate(dec(w)) for w in case["wires"]]
        out = []
        for oi, ci in case["calls"]:
            name, meth, kw = DUMP_CALLS[ci]
            try:
                r = getattr(objs[oi], meth)(**kw)
                j = _json.loads(r) if isinstance(r, str) else to_plain(r)
                item = {"value": enc(j)}
                if kw.get("by_alias"):
                    item["lossless"] = lossless_problems(objs[oi], wires[oi], j)
                out.append(item)
            except Exception as e:  # noqa: BLE001
                out.append({"exc": exc_facts(e)})
        return out

    try:
        return in_fork(run)
    except Exception as e:  # noqa: BLE001
        return [{"exc": {"exc": type(e).__name__, "detail": str(e)[:200]}}]


# ---------------------------------------------------------------------------
# reading an object must not change it: call every public zero-argument method / property, dump again
# ---------------------------------------------------------------------------
EXTRA_DUNDERS = ["__repr__", "__str__", "__copy__", "__hash__", "__iter__", "__sizeof__", "__dir__", "__getstate__",
                 "__reduce__", "__pretty__", "__repr_args__", "__rich_repr__"]


def _zero_arg(fn: Any) -> bool:
    import inspect

    try:
        sig = inspect.signature(fn)
    except (TypeError, ValueError):
        return False
    for p in sig.parameters.values():
        if p.kind in (p.VAR_POSITIONAL, p.VAR_KEYWORD):
            continue
        if p.default is p.empty:
            return False
    return True


def op_methods(case: Dict[str, Any]) -> Dict[str, Any]:
    import copy
    import warnings

    wire = dec(case["wire"])
    try:
        x = _build(case["target"], wire)
    except Exception as e:  # noqa: BLE001
        return {"ok": False, **exc_facts(e)}
    if isinstance(x, list):
        return {"ok": True, "called": [], "changed": None, "batch": True}
    before = _both_dumps(x)
    called: List[str] = []
    raised: List[str] = []
    changed = None
    names = sorted(n for n in dir(type(x)) if not n.startswith("_")) + [n for n in EXTRA_DUNDERS if hasattr(type(x), n)]
    with warnings.catch_warnings():
        warnings.simplefilter("ignore")
        for n in names:
            try:
                static = inspect_getattr_static(type(x), n)
                if isinstance(static, property) or not callable(getattr(x, n)):
                    getattr(x, n)
                    called.append(n)
                else:
                    bound = getattr(x, n)
                    if not _zero_arg(bound):
                        continue
                    bound()
                    called.append(n + "()")
            except BaseException as e:  # noqa: BLE001 - a refusing method is not a change of the object
                raised.append(f"{n}:{type(e).__name__}")
        for label, f in (("==self", lambda: x == x), ("==copy", lambda: x == copy.copy(x)), ("!=None", lambda: x != None),  # noqa: E711
                         ("in-list", lambda: x in [x]), ("str()", lambda: str(x)), ("repr()", lambda: repr(x)),
                         ("deepcopy", lambda: copy.deepcopy(x))):
            try:
                f()
                called.append(label)
            except BaseException as e:  # noqa: BLE001
                raised.append(f"{label}:{type(e).__name__}")
    after = _both_dumps(x)
    for via in before:
        where = first_json_diff(before[via], after[via])
        if where is not None:
            changed = {"via": via, "path": _IDX.sub("[]", where)}
            break
    culprit = None
    if changed is not None:
        # which call did it: repeat on fresh objects, one call each
        for c_ in called:
            try:
                y = _build(case["target"], dec(case["wire"]))
                b = _both_dumps(y)
                n = c_.rstrip("()")
                if hasattr(y, n):
                    v = getattr(y, n)
                    if c_.endswith("()") and callable(v):
                        v()
                if first_json_diff(b["model_dump"], _both_dumps(y)["model_dump"]) is not None:
                    culprit = c_
                    break
            except BaseException:  # noqa: BLE001
                continue
    return {"ok": True, "called": called, "raised": sorted(raised), "changed": changed, "culprit": culprit}


def inspect_getattr_static(tp: Any, name: str) -> Any:
    import inspect

    try:
        return inspect.getattr_static(tp, name)
    except AttributeError:
        return None


# ---------------------------------------------------------------------------
# validation order across DIFFERENT classes: an unknown member named like an attribute of another class
# ---------------------------------------------------------------------------
def class_specific_names() -> Dict[str, List[str]]:
    """qualified class name -> public attribute/method names that class has beyond the common base and its own fields."""
    if "classes" not in _STATE:
        backend_facts()
    base = set(dir(wiregen.base_class()))
    out = {}
    for q, c in sorted(_STATE["classes"].items()):
        own = {f.name for f in wiregen.fields(c)} | {f.wire for f in wiregen.fields(c)}
        names = sorted(n for n in dir(c) if not n.startswith("_") and n not in base and n not in own)
        if names:
            out[q] = names
    return out


def op_seqfork(case: Dict[str, Any]) -> Any:
    """The validate cases of case["cases"], one after the other, in a process forked for this sequence."""
    from .encseq import in_fork

    if "classes" not in _STATE:
        backend_facts()
    try:
        return in_fork(lambda: [op_validate(c) for c in case["cases"]])
    except Exception as e:  # noqa: BLE001
        return [{"ok": False, "exc": "fork:" + type(e).__name__, "detail": str(e)[:200]}]


# ---------------------------------------------------------------------------
# objects built by application code with defaults left unset, serialised with default arguments
# ---------------------------------------------------------------------------
def discover_wrappers() -> List[Any]:
    """Non-model classes under chuk_mcp.protocol that offer model_dump_json and take one object to wrap."""
    import inspect
    import sys

    if "classes" not in _STATE:
        backend_facts()
    out = []
    for mname, mod in sorted(sys.modules.items()):
        if not mname.startswith("chuk_mcp.protocol") or mod is None:
            continue
        for n, obj in sorted(vars(mod).items()):
            if inspect.isclass(obj) and obj.__module__ == mname and not is_model_class(obj) and hasattr(obj, "model_dump_json"):
                try:
                    params = [p for p in inspect.signature(obj.__init__).parameters.values() if p.name != "self"]
                except (TypeError, ValueError):
                    continue
                if len(params) == 1:
                    out.append(obj)
    return out


def op_constructed(case: Dict[str, Any]) -> Dict[str, Any]:
    """Build the object the way application code does - the class called with keyword arguments for the given members
    only (attribute names), everything else left to its default - and serialise it with DEFAULT arguments, directly and
    through every wrapper class of the package that accepts it."""
    import json as _json

    cls = cls_of(case["target"])
    wire = dec(case["wire"])
    attr = {f.wire: f.name for f in wiregen.fields(cls)}
    try:
        x = cls(**{attr.get(k, k): v for k, v in wire.items()})
    except Exception as e:  # noqa: BLE001
        return {"ok": False, **exc_facts(e)}
    out: Dict[str, Any] = {"ok": True, "calls": {}}

    def rec(name, f):
        try:
            r = f()
            out["calls"][name] = {"value": enc(_json.loads(r) if isinstance(r, str) else to_plain(r))}
        except Exception as e:  # noqa: BLE001
            out["calls"][name] = {"exc": type(e).__name__}

    rec("model_dump()", lambda: x.model_dump())
    rec("model_dump_json()", lambda: x.model_dump_json())
    for w in discover_wrappers():
        for label, obj in ((w.__name__ + "(x)", lambda: w(x)), (w.__name__ + "([x, x])", lambda: w([x, x]))):
            try:
                wrapped = obj()
            except Exception:  # noqa: BLE001
                continue
            rec(label + ".model_dump()", lambda: wrapped.model_dump())
            rec(label + ".model_dump_json()", lambda: wrapped.model_dump_json())
    return out


# ---------------------------------------------------------------------------
# sequences of id validations in one process (the id type is one Union object shared by all envelope classes)
# ---------------------------------------------------------------------------
UNION_IDS = ["abc", "7", 5, 3.0, 3.5, -0.0, 1e3, True, False]
UNION_VIAS = ["parse_message(request)", "JSONRPCRequest.model_validate", "JSONRPCResponse.model_validate", "create_error_response"]


def _union_call(vi: int, ii: int) -> Dict[str, Any]:
    from chuk_mcp.protocol.messages import json_rpc_message as J

    i = UNION_IDS[ii]
    via = UNION_VIAS[vi]
    try:
        if via == "parse_message(request)":
            m = J.parse_message({"jsonrpc": "2.0", "id": i, "method": "ping"})
        elif via == "JSONRPCRequest.model_validate":
            m = J.JSONRPCRequest.model_validate({"jsonrpc": "2.0", "id": i, "method": "ping"})
        elif via == "JSONRPCResponse.model_validate":
            m = J.JSONRPCResponse.model_validate({"jsonrpc": "2.0", "id": i, "result": {}})
        else:
            m = J.create_error_response(i, -32601, "m")
        return {"ok": True, "id": enc(m.model_dump(exclude_none=True).get("id")), "type": type(m).__name__}
    except Exception as e:  # noqa: BLE001
        return {"ok": False, "exc": type(e).__name__}


def op_unionseq(case: Dict[str, Any]) -> Any:
    from .encseq import in_fork

    cls_of("chuk_mcp.protocol.messages.json_rpc_message:JSONRPCRequest")       # everything imported before the fork
    try:
        return in_fork(lambda: [_union_call(vi, ii) for vi, ii in case["calls"]])
    except Exception as e:  # noqa: BLE001
        return [{"ok": False, "exc": "fork:" + type(e).__name__}]


# ---------------------------------------------------------------------------
# one model instance at two positions of a non-cyclic payload
# ---------------------------------------------------------------------------
def op_shared(case: Dict[str, Any]) -> Dict[str, Any]:
    """Build the object, then (1) append the first item of every declared list of models to that list once more (the same
    instance twice among siblings) and (2) wherever two instances of one class with equal dumps sit at different positions
    (siblings, parent and child, two members), put the first one in the place of the second.  The dump afterwards must be
    the dump before with the duplicated list items added - sharing an instance does not change the JSON value."""
    import json as _json

    try:
        x = _build(case["target"], dec(case["wire"]))
    except Exception as e:  # noqa: BLE001
        return {"ok": False, **exc_facts(e)}
    if isinstance(x, list) or not is_instance(x):
        return {"ok": True, "shares": 0, "problem": None}
    try:
        expected = to_plain(x.model_dump(by_alias=True, exclude_none=True))
    except Exception as e:  # noqa: BLE001
        return {"ok": True, "shares": 0, "problem": None, "dump_exc": exc_facts(e)}
    shares = 0
    holders: List[Any] = []                      # (container, key, instance, wire-name path)

    def walk(obj, path, exp):
        nonlocal shares
        if not is_instance(obj):
            return
        names = {f.name: f.wire for f in wiregen.fields(type(obj))}
        for k, v in list(members(obj).items()):
            if k not in names:
                continue
            wk = names[k]
            if is_instance(v):
                holders.append((obj, k, v, path + (wk,)))
                walk(v, path + (wk,), exp.get(wk, {}) if isinstance(exp, dict) else {})
            elif isinstance(v, list) and v and all(is_instance(i) for i in v):
                sub = exp.get(wk) if isinstance(exp, dict) else None
                for i, item in enumerate(v):
                    holders.append((v, i, item, path + (wk, i)))
                    walk(item, path + (wk, i), sub[i] if isinstance(sub, list) and i < len(sub) else {})
                v.append(v[0])                                  # the same instance twice among siblings
                if isinstance(sub, list) and sub:
                    sub.append(_json.loads(_json.dumps(sub[0])))
                shares += 1

    walk(x, (), expected)
    dumps_ = {}
    for (_, _, inst, path) in holders:
        try:
            dumps_[id(inst)] = workers_line(to_plain(inst.model_dump(by_alias=True, exclude_none=True)))
        except Exception:  # noqa: BLE001
            dumps_[id(inst)] = None
    first_of: Dict[Any, Any] = {}
    for (cont, key, inst, path) in holders:
        k = (type(inst), dumps_.get(id(inst)))
        if k[1] is None:
            continue
        if k in first_of and first_of[k] is not inst:
            try:
                if isinstance(cont, list):
                    cont[key] = first_of[k]
                else:
                    object.__setattr__(cont, key, first_of[k]) if key not in getattr(cont, "__dict__", {}) else \
                        cont.__dict__.__setitem__(key, first_of[k])
                shares += 1
            except Exception:  # noqa: BLE001
                pass
        else:
            first_of.setdefault(k, inst)
    problem = None
    for via, f in (("model_dump", lambda: to_plain(x.model_dump(by_alias=True, exclude_none=True))),
                   ("model_dump_json", lambda: _json.loads(x.model_dump_json(by_alias=True, exclude_none=True)))):
        try:
            got = f()
        except Exception as e:  # noqa: BLE001
            problem = {"kind": "raised", "via": via, **exc_facts(e)}
            break
        where = first_json_diff(expected, got)
        if where is not None:
            problem = {"kind": "differs", "via": via, "path": _IDX.sub("[]", where)}
            break
    return {"ok": True, "shares": shares, "problem": problem}


def workers_line(v: Any) -> str:
    import json as _json

    return _json.dumps(v, sort_keys=True, default=repr)


# ---------------------------------------------------------------------------
# equality of model objects (C09): ==, !=, membership, hash
# ---------------------------------------------------------------------------
def op_eqprobe(case: Dict[str, Any]) -> Dict[str, Any]:
    try:
        a = _build(case["target"], dec(case["a"]))
        b = _build(case["target"], dec(case["b"]))
    except Exception as e:  # noqa: BLE001
        return {"ok": False, **exc_facts(e)}

    def tri(f):
        try:
            r = f()
            return bool(r) if isinstance(r, (bool, int)) else f"<{type(r).__name__}>"
        except BaseException as e:  # noqa: BLE001
            return f"raises:{type(e).__name__}"

    return {"ok": True, "eq": tri(lambda: a == b), "ne": tri(lambda: a != b), "contains": tri(lambda: a in [b]),
            "index": tri(lambda: [b].index(a) == 0), "hash_equal": tri(lambda: hash(a) == hash(b)),
            "set_size": tri(lambda: len({a, b})), "eq_self": tri(lambda: a == a)}


# ---------------------------------------------------------------------------
# stateful helpers that hold model objects (C09): operation sequences, wire output
# ---------------------------------------------------------------------------
def discover_helpers() -> List[str]:
    """Non-model classes named *Manager / *Registry defined under chuk_mcp.protocol."""
    import inspect
    import sys

    backend_facts() if "classes" not in _STATE else None
    out = set()
    for mname, mod in list(sys.modules.items()):
        if not mname.startswith("chuk_mcp.protocol") or mod is None:
            continue
        for n, obj in vars(mod).items():
            if inspect.isclass(obj) and obj.__module__ == mname and not is_model_class(obj) \
                    and (n.endswith("Manager") or n.endswith("Registry")):
                out.add(f"{mname}:{n}")
    return sorted(out)


def is_model_class(c: Any) -> bool:
    try:
        return issubclass(c, wiregen.base_class())
    except TypeError:
        return False


ROOT_OPS = ["add A", "add A-renamed", "add A-other-unknown-member", "add A-again", "add B", "remove A", "remove C", "clear"]
ROOT_WIRES = {"A": {"uri": "file:///a", "name": "first"}, "A-renamed": {"uri": "file:///a", "name": "second"},
              "A-other-unknown-member": {"uri": "file:///a", "name": "first", "x-extra": 1},
              "A-again": {"uri": "file:///a", "name": "first"}, "B": {"uri": "file:///b"}}


def helper_roots_manager(seq: List[int]) -> Any:
    from chuk_mcp.protocol.messages.roots import send_messages as M

    from . import serialisers

    mgr = M.RootsManager()
    for oi in seq:
        op = ROOT_OPS[oi]
        if op.startswith("add "):
            mgr.add_root(M.Root.model_validate(dict(ROOT_WIRES[op[4:]])))
        elif op == "remove A":
            mgr.remove_root("file:///a")
        elif op == "remove C":
            mgr.remove_root("file:///c")
        else:
            mgr.clear()
    resp = serialisers.on_loop(lambda: mgr.handle_list_request("r-1"))
    return {"response": to_plain(serialisers.plain(resp)),
            "roots": [to_plain(r.model_dump(by_alias=True, exclude_none=True)) for r in mgr.get_roots()]}


TOOL_WIRES = [{"name": "t", "inputSchema": {"type": "object"}, "description": "first"},
              {"name": "t", "inputSchema": {"type": "object", "properties": {"q": {"type": "string"}}}, "description": "second"},
              {"name": "u", "inputSchema": {"type": "object"}}]
HANDLER_KINDS = ["returns-ToolResult", "returns-dict", "returns-str", "returns-list", "raises"]


def helper_tool_registry(seq: List[int]) -> Any:
    """seq = [tool index, handler kind, second tool index or -1, name index called]"""
    from chuk_mcp.protocol.types import tools as T

    from . import serialisers

    def handler_of(kind: str):
        async def h(arguments):
            if kind == "returns-ToolResult":
                return T.create_text_tool_result("done " + str(sorted(arguments)))
            if kind == "returns-dict":
                return {"answer": 42, "schema": {"k": 1}, "_meta": {"m": 1}}
            if kind == "returns-str":
                return "text \u00e9"
            if kind == "returns-list":
                return [1, 2]
            raise ValueError("boom")
        return h

    reg = T.ToolRegistry()
    ti, hk, t2, ci = seq
    reg.register_tool(T.Tool.model_validate(dict(TOOL_WIRES[ti])), handler_of(HANDLER_KINDS[hk]))
    if t2 >= 0:
        reg.register_tool(T.Tool.model_validate(dict(TOOL_WIRES[t2])), handler_of(HANDLER_KINDS[(hk + 1) % len(HANDLER_KINDS)]))
    name = ["t", "u", "missing"][ci]
    res = serialisers.on_loop(lambda: reg.call_tool(name, {"q": "x", "n": None}))
    return {"tools": {k: to_plain(v.model_dump(by_alias=True, exclude_none=True)) for k, v in sorted(reg.tools.items())},
            "result": to_plain(res.model_dump(by_alias=True, exclude_none=True)) if hasattr(res, "model_dump") else repr(res)}


HELPER_DRIVERS = {
    "chuk_mcp.protocol.messages.roots.send_messages:RootsManager": helper_roots_manager,
    "chuk_mcp.protocol.types.tools:ToolRegistry": helper_tool_registry,
}


def op_helper(case: Dict[str, Any]) -> Dict[str, Any]:
    d = HELPER_DRIVERS.get(case["helper"])
    if d is None:
        return {"no_driver": True}
    try:
        return {"output": enc(d(case["seq"]))}
    except Exception as e:  # noqa: BLE001
        return {"exc": exc_facts(e)}


def child_handle(case: Any) -> Any:
    op = case.get("op", "validate")
    if op == "dumporder":
        return op_dumporder(case)
    if op == "methods":
        return op_methods(case)
    if op == "eqprobe":
        return op_eqprobe(case)
    if op == "shared":
        return op_shared(case)
    if op == "unionseq":
        return op_unionseq(case)
    if op == "seqfork":
        return op_seqfork(case)
    if op == "constructed":
        return op_constructed(case)
    if op == "class_names":
        return {"names": class_specific_names()}
    if op == "helper":
        return op_helper(case)
    if op == "helpers":
        return {"helpers": discover_helpers(), "drivers": sorted(HELPER_DRIVERS)}
    if op == "inputmut":
        return op_inputmut(case)
    if op == "libedit":
        return op_libedit(case)
    if op == "validate":
        return op_validate(case)
    if op == "isolation":
        return op_isolation(case)
    raise ValueError(f"unknown op {op!r}")
